#!/bin/bash
# dev: time every harness separately (600 s cap each), 4 at a time
cd /verif/kani
HS=$(grep -oE "fn (c[0-9]+_[a-z_0-9]+)\(\)|law!\((c[0-9]+_[a-z_0-9]+)" src/lib.rs | sed -E 's/fn //; s/\(\)//; s/law!\(//')
mkdir -p /verif/target/kani-logs
run() { h=$1; s=$(date +%s); timeout 900 cargo kani -Z restrict-vtable --harness harness::$h --exact --target-dir /verif/target/kani/$h > /verif/target/kani-logs/$h.log 2>&1; rc=$?; e=$(date +%s); echo "$h rc=$rc $((e-s))s $(grep -E 'VERIFICATION:-|Complete -' /verif/target/kani-logs/$h.log | tr '\n' ' ')"; }
export -f run
echo $HS | tr ' ' '\n' | xargs -P 5 -I{} bash -c 'run {}'
