//! Kani proof harnesses over the real liquid-core code (engine E1): scalar-level units only.
//! Every harness leaks its values (`mem::forget`) so that drop glue of niche-packed enums is not explored.
#![allow(clippy::all)]

#[cfg(kani)]
mod harness {
    use liquid_core::model::{ArrayView, ScalarCow, Value, ValueCow, ValueView};
    #[allow(unused_imports)]
    use liquid_core::model::ValueView as _;
    use std::cmp::Ordering;
    use std::mem::forget;

    macro_rules! pair_laws {
        ($name:ident, $ta:ty, $tb:ty) => {
            /// C11, one kind pair: == symmetric, != its negation, < > dual, <= >= dual and coherent with partial_cmp,
            /// partial_cmp antisymmetric, Equal exactly when ==, equal values never strictly ordered
            #[kani::proof]
            fn $name() {
                let a = ScalarCow::new(kani::any::<$ta>());
                let b = ScalarCow::new(kani::any::<$tb>());
                let ab = a == b;
                assert!(ab == (b == a), "== must be symmetric");
                assert!((a != b) == !ab, "!= must be the negation of ==");
                let lt = a < b;
                let gt = a > b;
                assert!(lt == (b > a), "< and > must be duals");
                assert!(gt == (b < a), "> and < must be duals");
                assert!((a <= b) == (b >= a), "<= and >= must be duals");
                let c = a.partial_cmp(&b);
                assert!(c.map(Ordering::reverse) == b.partial_cmp(&a), "partial_cmp must be antisymmetric");
                match c {
                    Some(o) => {
                        assert!((o == Ordering::Equal) == ab, "ordered values: Equal exactly when ==");
                        assert!(lt == (o == Ordering::Less));
                        assert!(gt == (o == Ordering::Greater));
                        assert!((a <= b) == (lt || ab), "<= holds exactly when < or ==");
                        assert!((a >= b) == (gt || ab), ">= holds exactly when > or ==");
                        assert!(!(ab && (lt || gt)), "equal values are never strictly ordered");
                    }
                    None => {
                        assert!(!lt && !gt && !(a <= b) && !(a >= b), "unordered values satisfy no order relation");
                    }
                }
                kani::cover!(ab, "an equal pair exists");
                kani::cover!(!ab, "an unequal pair exists");
                forget(a);
                forget(b);
            }
        };
    }
    pair_laws!(c11_laws_int_int, i64, i64);
    pair_laws!(c11_laws_int_float, i64, f64);
    pair_laws!(c11_laws_float_int, f64, i64);
    pair_laws!(c11_laws_float_float, f64, f64);
    pair_laws!(c11_laws_bool_bool, bool, bool);
    pair_laws!(c11_laws_int_bool, i64, bool);
    pair_laws!(c11_laws_bool_int, bool, i64);
    pair_laws!(c11_laws_float_bool, f64, bool);
    pair_laws!(c11_laws_bool_float, bool, f64);

    /// C11: reflexive except NaN (one harness per kind)
    #[kani::proof]
    fn c11_reflexive_int() {
        let a = ScalarCow::new(kani::any::<i64>());
        let b = a.clone();
        assert!(a == b, "== must be reflexive");
        assert!(a.partial_cmp(&b) == Some(Ordering::Equal));
        forget(a);
        forget(b);
    }

    #[kani::proof]
    fn c11_reflexive_float() {
        let f: f64 = kani::any();
        let a = ScalarCow::new(f);
        let b = a.clone();
        assert!((a == b) == !f.is_nan(), "== must be reflexive exactly for non-NaN floats");
        assert!((a.partial_cmp(&b) == Some(Ordering::Equal)) == !f.is_nan());
        kani::cover!(f.is_nan());
        forget(a);
        forget(b);
    }

    #[kani::proof]
    fn c11_reflexive_bool() {
        let a = ScalarCow::new(kani::any::<bool>());
        let b = a.clone();
        assert!(a == b, "== must be reflexive");
        forget(a);
        forget(b);
    }

    /// C11: an integer and the float denoting the same number are equal (|x| <= 2^53), and only then
    #[kani::proof]
    fn c11_int_float_same_number() {
        let x: i64 = kani::any();
        kani::assume(x >= -(1i64 << 53) && x <= (1i64 << 53));
        let y: i64 = kani::any();
        kani::assume(y >= -(1i64 << 53) && y <= (1i64 << 53));
        let a = ScalarCow::new(x);
        let b = ScalarCow::new(y as f64);
        assert!((a == b) == (x == y), "int == float exactly when they denote the same number");
        assert!((b == a) == (x == y));
        assert!(a.partial_cmp(&b) == x.partial_cmp(&y));
        kani::cover!(x == y);
        forget(a);
        forget(b);
    }

    macro_rules! layers {
        ($name:ident, $ta:ty, $tb:ty) => {
            /// C11: the Value / ValueCow layers delegate to the same relation as ScalarCow
            #[kani::proof]
            fn $name() {
                let a = ScalarCow::new(kani::any::<$ta>());
                let b = ScalarCow::new(kani::any::<$tb>());
                let e = a == b;
                let va = Value::Scalar(a);
                let vb = Value::Scalar(b);
                assert!((va == vb) == e, "Value == must agree with ScalarCow ==");
                assert!((vb == va) == e);
                let ca = ValueCow::Borrowed(&va);
                let cb = ValueCow::Borrowed(&vb);
                assert!((ca == cb) == e, "ValueCow == must agree");
                assert!((ca == vb) == e, "ValueCow == Value must agree");
                kani::cover!(e);
                forget(ca);
                forget(cb);
                forget(va);
                forget(vb);
            }
        };
    }
    layers!(c11_layers_int_float, i64, f64);
    layers!(c11_layers_bool_int, bool, i64);
    layers!(c11_layers_float_float, f64, f64);

    macro_rules! nil_sym {
        ($name:ident, $ta:ty) => {
            /// C11: comparison with nil is symmetric; nil equals nil
            #[kani::proof]
            fn $name() {
                let va = Value::Scalar(ScalarCow::new(kani::any::<$ta>()));
                let n = Value::Nil;
                assert!(n == Value::Nil);
                assert!((va == n) == (n == va), "nil comparison must be symmetric");
                forget(va);
                forget(n);
            }
        };
    }
    nil_sym!(c11_nil_int, i64);
    nil_sym!(c11_nil_bool, bool);
    nil_sym!(c11_nil_float, f64);

    /// C07: zero-based indexing, negatives from the end, out of range is None -- for EVERY i64 index
    #[kani::proof]
    #[kani::unwind(7)]
    fn c07_vec_index() {
        let len: usize = kani::any();
        kani::assume(len <= 5);
        let mut v: Vec<i64> = Vec::new();
        let mut i = 0;
        while i < len {
            v.push(100 + i as i64);
            i += 1;
        }
        let idx: i64 = kani::any();
        let got = ArrayView::get(&v, idx).and_then(|x| x.as_scalar()).and_then(|s| s.to_integer());
        let n = len as i64;
        let expect = if 0 <= idx && idx < n {
            Some(100 + idx)
        } else if idx < 0 && idx >= -n {
            Some(100 + n + idx)
        } else {
            None
        };
        assert!(got == expect, "array element access must be positional");
        assert!(ArrayView::contains_key(&v, idx) == expect.is_some(), "contains_key must agree with get");
        assert!(ArrayView::size(&v) == n);
        assert!(ArrayView::first(&v).is_some() == (len > 0));
        assert!(ArrayView::last(&v).is_some() == (len > 0));
        kani::cover!(idx < 0 && expect.is_some());
        kani::cover!(expect.is_none() && idx < 0);
        forget(v);
    }

    // ------------------------------------------------------------------ C17: date-time comparison is chronological
    /// C17/C11: the same instant seen in two offsets is equal and ordered Equal; different instants order chronologically
    #[kani::proof]
    fn c17_datetime_order_is_chronological() {
        use liquid_core::model::DateTime;
        let base = DateTime::from_ymd(2020, 6, 15);
        let oa: i8 = kani::any();
        let ob: i8 = kani::any();
        kani::assume(oa >= -12 && oa <= 14 && ob >= -12 && ob <= 14);
        let sa: i32 = kani::any();
        let sb: i32 = kani::any();
        kani::assume(sa >= -100_000 && sa <= 100_000 && sb >= -100_000 && sb <= 100_000);
        let ta = *base + time::Duration::seconds(sa as i64);
        let tb = *base + time::Duration::seconds(sb as i64);
        let mut a = base;
        *a = ta.to_offset(time::UtcOffset::from_hms(oa, 0, 0).unwrap());
        let mut b = base;
        *b = tb.to_offset(time::UtcOffset::from_hms(ob, 0, 0).unwrap());
        let sca = ScalarCow::new(a);
        let scb = ScalarCow::new(b);
        assert!((sca == scb) == (sa == sb), "date-times are equal exactly when they denote the same instant, whatever their offsets");
        assert!(sca.partial_cmp(&scb) == sa.partial_cmp(&sb), "date-time ordering must be chronological");
        kani::cover!(sa == sb && oa != ob);
        forget(sca);
        forget(scb);
    }

    /// C17/C11: sub-second precision takes part in equality and ordering (two instants within a few seconds of each other, any nanosecond)
    #[kani::proof]
    fn c17_datetime_order_subsecond() {
        use liquid_core::model::DateTime;
        let base = DateTime::from_ymd(2020, 6, 15);
        let oa: i8 = kani::any();
        let ob: i8 = kani::any();
        kani::assume(oa >= -12 && oa <= 14 && ob >= -12 && ob <= 14);
        let sa: i32 = kani::any();
        let sb: i32 = kani::any();
        kani::assume(sa >= -2 && sa <= 2 && sb >= -2 && sb <= 2);
        let na: i32 = kani::any();
        let nb: i32 = kani::any();
        kani::assume(na >= 0 && na <= 999_999_999 && nb >= 0 && nb <= 999_999_999);
        let ta = *base + time::Duration::seconds(sa as i64) + time::Duration::nanoseconds(na as i64);
        let tb = *base + time::Duration::seconds(sb as i64) + time::Duration::nanoseconds(nb as i64);
        let mut a = base;
        *a = ta.to_offset(time::UtcOffset::from_hms(oa, 0, 0).unwrap());
        let mut b = base;
        *b = tb.to_offset(time::UtcOffset::from_hms(ob, 0, 0).unwrap());
        let sca = ScalarCow::new(a);
        let scb = ScalarCow::new(b);
        let same = sa == sb && na == nb;
        assert!((sca == scb) == same, "date-times are equal exactly when they denote the same instant, to the nanosecond");
        assert!(sca.partial_cmp(&scb) == (sa, na).partial_cmp(&(sb, nb)), "date-time ordering must be chronological to the nanosecond");
        kani::cover!(sa == sb && na != nb);
        forget(sca);
        forget(scb);
    }

    // ------------------------------------------------------------------ C11: laws on the date kinds (date-time x date-time, date x date-time)
    fn check_laws(a: &ScalarCow<'static>, b: &ScalarCow<'static>) {
        let ab = a == b;
        assert!(ab == (b == a), "== must be symmetric");
        assert!((a != b) == !ab, "!= must be the negation of ==");
        let lt = a < b;
        let gt = a > b;
        assert!(lt == (b > a), "< and > must be duals");
        assert!(gt == (b < a), "> and < must be duals");
        assert!((a <= b) == (b >= a), "<= and >= must be duals");
        let c = a.partial_cmp(b);
        assert!(c.map(Ordering::reverse) == b.partial_cmp(a), "partial_cmp must be antisymmetric");
        match c {
            Some(o) => {
                assert!((o == Ordering::Equal) == ab, "ordered values: Equal exactly when ==");
                assert!(lt == (o == Ordering::Less));
                assert!(gt == (o == Ordering::Greater));
                assert!(!(ab && (lt || gt)), "equal values are never strictly ordered");
            }
            None => {
                assert!(!lt && !gt, "unordered values satisfy no order relation");
            }
        }
    }

    fn any_datetime(days: i32, secs: i32, off: i8) -> liquid_core::model::DateTime {
        let base = liquid_core::model::DateTime::from_ymd(2020, 6, 15);
        let t = *base + time::Duration::days(days as i64) + time::Duration::seconds(secs as i64);
        let mut a = base;
        *a = t.to_offset(time::UtcOffset::from_hms(off, 0, 0).unwrap());
        a
    }

    /// C11: two date-times (same or different offsets): laws hold, and the same instant is never strictly ordered
    #[kani::proof]
    fn c11_laws_datetime_datetime() {
        let sa: i32 = kani::any();
        let sb: i32 = kani::any();
        let oa: i8 = kani::any();
        let ob: i8 = kani::any();
        kani::assume(sa >= -90_000 && sa <= 90_000 && sb >= -90_000 && sb <= 90_000);
        kani::assume(oa >= -12 && oa <= 14 && ob >= -12 && ob <= 14);
        let a = ScalarCow::new(any_datetime(0, sa, oa));
        let b = ScalarCow::new(any_datetime(0, sb, ob));
        check_laws(&a, &b);
        kani::cover!(sa == sb && oa != ob);
        forget(a);
        forget(b);
    }

    /// C11: a date against a date-time, both directions
    #[kani::proof]
    fn c11_laws_date_datetime() {
        let da: i8 = kani::any();
        let db: i8 = kani::any();
        let sb: i32 = kani::any();
        let ob: i8 = kani::any();
        kani::assume(da >= -1 && da <= 1 && db >= -1 && db <= 1 && sb >= 0 && sb < 86_400 && ob >= -12 && ob <= 14);
        let mut d = liquid_core::model::Date::from_ymd(2020, 6, 15);
        *d = *d + time::Duration::days(da as i64);
        let a = ScalarCow::new(d);
        let b = ScalarCow::new(any_datetime(db as i32, sb, ob));
        check_laws(&a, &b);
        check_laws(&b, &a);
        kani::cover!(a < b);
        kani::cover!(a > b);
        forget(a);
        forget(b);
    }
}
