//! Kani proof harnesses over the real liquid-core code (engine E1): scalar-level units only.
//! Every harness leaks its values (`mem::forget`) so that drop glue of niche-packed enums is not explored.
#![allow(clippy::all)]

#[cfg(kani)]
mod harness {
    use liquid_core::model::{ArrayView, ScalarCow, Value, ValueCow, ValueView};
    use std::cmp::Ordering;
    use std::mem::forget;

    fn any_num_scalar() -> ScalarCow<'static> {
        let k: u8 = kani::any();
        kani::assume(k < 3);
        match k {
            0 => ScalarCow::new(kani::any::<i64>()),
            1 => ScalarCow::new(kani::any::<f64>()),
            _ => ScalarCow::new(kani::any::<bool>()),
        }
    }

    macro_rules! law {
        ($name:ident, |$a:ident, $b:ident| $body:block) => {
            #[kani::proof]
            fn $name() {
                let $a = any_num_scalar();
                let $b = any_num_scalar();
                $body;
                forget($a);
                forget($b);
            }
        };
    }

    // C11 -- one law per harness (each harness: two symbolic scalars of kinds {i64, f64 (all bit patterns), bool})
    law!(c11_eq_symmetric, |a, b| {
        assert!((a == b) == (b == a), "== must be symmetric");
        kani::cover!(a == b);
    });
    law!(c11_ne_is_negation, |a, b| {
        assert!((a != b) == !(a == b), "!= must be the negation of ==");
    });
    law!(c11_lt_gt_dual, |a, b| {
        assert!((a < b) == (b > a), "< and > must be duals");
        kani::cover!(a < b);
    });
    law!(c11_le_ge_dual, |a, b| {
        assert!((a <= b) == (b >= a), "<= and >= must be duals");
    });
    law!(c11_cmp_equal_iff_eq, |a, b| {
        if let Some(o) = a.partial_cmp(&b) {
            assert!((o == Ordering::Equal) == (a == b), "ordered values: Equal exactly when ==");
        }
        kani::cover!(a.partial_cmp(&b).is_none() && a == b, "equal but unordered pair exists (bool coercion)");
    });
    law!(c11_lt_matches_cmp, |a, b| {
        let c = a.partial_cmp(&b);
        assert!((a < b) == (c == Some(Ordering::Less)));
        assert!((a > b) == (c == Some(Ordering::Greater)));
    });
    law!(c11_le_matches_cmp, |a, b| {
        let c = a.partial_cmp(&b);
        assert!((a <= b) == (c == Some(Ordering::Less) || c == Some(Ordering::Equal)));
        assert!((a >= b) == (c == Some(Ordering::Greater) || c == Some(Ordering::Equal)));
    });
    law!(c11_cmp_antisymmetric, |a, b| {
        let c = a.partial_cmp(&b);
        let d = b.partial_cmp(&a);
        assert!(c.map(Ordering::reverse) == d, "partial_cmp must be antisymmetric");
    });

    /// C11: reflexive except NaN
    #[kani::proof]
    fn c11_scalar_reflexive() {
        let k: u8 = kani::any();
        kani::assume(k < 3);
        let a = match k {
            0 => ScalarCow::new(kani::any::<i64>()),
            1 => {
                let f: f64 = kani::any();
                kani::assume(!f.is_nan());
                ScalarCow::new(f)
            }
            _ => ScalarCow::new(kani::any::<bool>()),
        };
        let b = a.clone();
        assert!(a == b, "== must be reflexive (NaN excepted)");
        if k != 2 {
            assert!(a.partial_cmp(&b) == Some(Ordering::Equal));
        }
        kani::cover!(k == 1);
        forget(a);
        forget(b);
    }

    /// C11: an integer and the float denoting the same number are equal (|x| <= 2^53), and only then
    #[kani::proof]
    fn c11_int_float_same_number() {
        let x: i64 = kani::any();
        kani::assume(x >= -(1i64 << 53) && x <= (1i64 << 53));
        let y: i64 = kani::any();
        kani::assume(y >= -(1i64 << 53) && y <= (1i64 << 53));
        let a = ScalarCow::new(x);
        let b = ScalarCow::new(y as f64);
        assert!((a == b) == (x == y), "int == float exactly when they denote the same number");
        assert!((b == a) == (x == y));
        assert!(a.partial_cmp(&b) == x.partial_cmp(&y));
        kani::cover!(x == y);
        forget(a);
        forget(b);
    }

    /// C11: the Value / ValueCow layers delegate to the same relation
    #[kani::proof]
    fn c11_value_layers_agree() {
        let a = any_num_scalar();
        let b = any_num_scalar();
        let e = a == b;
        let lt = a < b;
        let va = Value::Scalar(a);
        let vb = Value::Scalar(b);
        assert!((va == vb) == e, "Value == must agree with ScalarCow ==");
        assert!((vb == va) == e);
        let ca = ValueCow::Borrowed(&va);
        let cb = ValueCow::Borrowed(&vb);
        assert!((ca == cb) == e, "ValueCow == must agree");
        assert!((ca == vb) == e, "ValueCow == Value must agree");
        assert!((va.as_view().to_value() == vb) == e);
        let _ = lt;
        kani::cover!(e);
        forget(ca);
        forget(cb);
        forget(va);
        forget(vb);
    }

    /// C11: nil equals nil and nothing else among scalars; symmetric
    #[kani::proof]
    fn c11_nil() {
        let a = any_num_scalar();
        let is_false = a == ScalarCow::new(false) && a.to_bool() == Some(false);
        let va = Value::Scalar(a);
        let n = Value::Nil;
        assert!(n == Value::Nil);
        assert!((va == n) == (n == va), "nil comparison must be symmetric");
        let _ = is_false;
        forget(va);
        forget(n);
    }

    /// C07: zero-based indexing, negatives from the end, out of range is None -- for EVERY i64 index
    #[kani::proof]
    #[kani::unwind(7)]
    fn c07_vec_index() {
        let len: usize = kani::any();
        kani::assume(len <= 5);
        let mut v: Vec<i64> = Vec::new();
        let mut i = 0;
        while i < len {
            v.push(100 + i as i64);
            i += 1;
        }
        let idx: i64 = kani::any();
        let got = ArrayView::get(&v, idx).and_then(|x| x.as_scalar()).and_then(|s| s.to_integer());
        let n = len as i64;
        let expect = if 0 <= idx && idx < n {
            Some(100 + idx)
        } else if idx < 0 && idx >= -n {
            Some(100 + n + idx)
        } else {
            None
        };
        assert!(got == expect, "array element access must be positional");
        assert!(ArrayView::contains_key(&v, idx) == expect.is_some(), "contains_key must agree with get");
        assert!(ArrayView::size(&v) == n);
        assert!(ArrayView::first(&v).is_some() == (len > 0));
        assert!(ArrayView::last(&v).is_some() == (len > 0));
        kani::cover!(idx < 0 && expect.is_some());
        kani::cover!(expect.is_none() && idx < 0);
        forget(v);
    }
}
