"""C14 -- array filters neither invent nor lose elements beyond their contract.

The real MIR of sort, sort_natural, uniq, compact, reverse, concat, first, last, join, map and where is executed on arrays of
0..3 (quick) / 0..4 (thorough) elements whose kinds are enumerated (nil, integer, boolean, one-character string, object with a
present / nil / missing property) and whose contents are symbolic.  std's slice::sort_by is the model of its documented
small-slice algorithm (stable insertion sort, n <= 20) driven by the real comparator closure."""
import itertools
from collections import Counter
import z3
from mirsym.exec import Executor, State, Unsupported
from mirsym.values import *
from mirsym.models.maps import MapV
from mirsym.models.strings import valid_char, lower_expr, ch_expr
from checks.common import *
from checks.renderables import expr_stub
from checks.C13 import str_value, eq_chars


class Elem:
    """one array element: kind + the symbolic content + how to rebuild it concretely from a model"""
    def __init__(self, i, kind, st, prop_kind=None):
        self.i, self.kind, self.prop_kind = i, kind, prop_kind
        self.x = z3.BitVec(f'e{i}', 64); self.b = z3.Bool(f'b{i}'); self.c = z3.BitVec(f'c{i}', 32); self.p = z3.BitVec(f'p{i}', 64)
        if kind == 'nil': self.value = VALUE_NIL
        elif kind == 'int': self.value = value_scalar(scalar_int(Int(self.x, 'i64')))
        elif kind == 'bool': self.value = value_scalar(scalar_bool(Bool(self.b)))
        elif kind == 'str':
            st.assume(z3.And(z3.UGE(self.c, 32), z3.ULE(self.c, 126))); self.value = str_value([self.c])
        elif kind == 'estr': self.value = str_value([])
        elif kind == 'float':
            self.f = z3.FP(f'f{i}', z3.Float64()); st.assume(z3.Not(z3.fpIsNaN(self.f))); st.assume(z3.Not(z3.fpIsInf(self.f)))
            self.value = value_scalar(scalar_float(Float(self.f)))
        elif kind == 'obj':
            keys = ['id']; vals = [value_scalar(scalar_int(Int(i, 'i64')))]
            if prop_kind == 'int': keys.append('p'); vals.append(value_scalar(scalar_int(Int(self.p, 'i64'))))
            elif prop_kind == 'nil': keys.append('p'); vals.append(VALUE_NIL)
            elif prop_kind == 'false': keys.append('p'); vals.append(value_scalar(scalar_bool(Bool(False))))
            self.value = Adt('Value', 'Object', [MapV(keys, vals, 'Object')])
        self.key = repr(self.value)

    def concrete(self, m):
        if self.kind == 'nil': return None
        if self.kind == 'int': return m.eval(self.x, model_completion=True).as_signed_long()
        if self.kind == 'bool': return z3.is_true(m.eval(self.b, model_completion=True))
        if self.kind == 'str': return chr(m.eval(self.c, model_completion=True).as_long())
        if self.kind == 'estr': return ''
        if self.kind == 'float':
            import struct
            return struct.unpack('<d', struct.pack('<Q', m.eval(z3.fpToIEEEBV(self.f), model_completion=True).as_long()))[0]
        d = {'id': self.i}
        if self.prop_kind == 'int': d['p'] = m.eval(self.p, model_completion=True).as_signed_long()
        elif self.prop_kind == 'nil': d['p'] = None
        elif self.prop_kind == 'false': d['p'] = False
        return d


def array_value(elems):
    return Adt('Value', 'Array', [VecV([e.value for e in elems], 'Vec')])


def result_array(st, val):
    if val.variant != 'Ok': return None
    v = st.deref_all(val.items[0])
    if isinstance(v, Adt) and v.ty == 'Value' and v.variant == 'Array':
        return [st.deref_all(x) for x in st.deref_all(v.items[0]).items]
    return None


def py_json(v):
    import json
    return json.dumps(v, separators=(',', ':'))


def render_of(v):
    """how liquid prints a value inside our replay templates ({{ x | join: ',' }} of scalars; objects by their id)"""
    if v is None: return ''
    if v is True: return 'true'
    if v is False: return 'false'
    if isinstance(v, dict): return f"#{v['id']}"
    return str(v)


def run_filter(ex, P, filt, args_adt, st, inp):
    fn = P.find_method(filt, 'evaluate', 'Filter', 'lib', where='stdlib/filters/array.rs')
    self_ = Adt(filt, None, [args_adt], ['args']) if args_adt is not None else Adt(filt, None, [])
    yield from ex.run(fn, [st.ref(self_), st.ref(inp), st.ref(Opaque(('RT',)))], st)


def prop_args(prop):
    return Adt('PropertyArgs', None, [Some(expr_stub(str_value(prop), 'property')) if prop is not None else NONE], ['property'])


def kinds_product(pool, n):
    return itertools.product(pool, repeat=n)


def mk_elems(st, kinds):
    out = []
    for i, k in enumerate(kinds):
        if k.startswith('obj'): out.append(Elem(i, 'obj', st, k.split(':')[1]))
        else: out.append(Elem(i, k, st))
    return out


def replay_tpl(filter_text):
    # prints the resulting array element by element, objects by their id
    return "{% assign r = a | " + filter_text + " %}{% for x in r %}[{% if x.id %}#{{ x.id }}{% else %}{{ x }}{% endif %}]{% endfor %}"


def fmt_list(vs):
    return ''.join('[' + render_of(v) + ']' for v in vs)


# ---------------------------------------------------------------- sort
def sort_key_conds(elems, out_idx, prop):
    """VC pieces for 'out is ordered': returns list of z3 Bools that must hold for consecutive outputs (only for mutually comparable neighbours)"""
    conds = []
    def key(e):
        if prop is None:
            return ('nil',) if e.kind == 'nil' else ('int', e.x) if e.kind == 'int' else ('bool', e.b) if e.kind == 'bool' else ('str', e.c) if e.kind == 'str' else ('obj',)
        if e.kind != 'obj': return ('other',)
        return ('int', e.p) if e.prop_kind == 'int' else ('nil',) if e.prop_kind in ('nil', 'missing') else ('bool', z3.BoolVal(False))
    for a, b in zip(out_idx, out_idx[1:]):
        ka, kb = key(elems[a]), key(elems[b])
        if ka[0] == 'nil' and kb[0] != 'nil': conds.append((z3.BoolVal(False), f'nil (input #{a}) sorted before a non-nil (input #{b})'))
        elif ka[0] == kb[0] == 'int':
            conds.append((ka[1] <= kb[1], f'#{a} > #{b} but sorted before it'))
            if a > b: conds.append((ka[1] != kb[1], f'equal keys #{b}, #{a} swapped (sort must be stable)'))
        elif ka[0] == kb[0] == 'str':
            conds.append((z3.ULE(ka[1], kb[1]), f'#{a} > #{b} but sorted before it'))
            if a > b: conds.append((ka[1] != kb[1], f'equal keys #{b}, #{a} swapped (sort must be stable)'))
        elif ka[0] == kb[0] == 'nil' and a > b:
            conds.append((z3.BoolVal(False), f'nils #{b}, #{a} swapped (sort must be stable)'))
    return conds


def py_sort(vals, prop):
    """reference: stable; nil/missing keys last; incomparable neighbours stay in place (comparator says Equal) -- only used for replay of
    arrays whose non-nil keys are mutually comparable"""
    def k(v):
        x = v.get('p') if (prop is not None and isinstance(v, dict)) else (v if prop is None else None)
        return x
    present = [v for v in vals if k(v) is not None]; absent = [v for v in vals if k(v) is None]
    try:
        return sorted(present, key=k) + absent
    except TypeError:
        return None


def ob_sort(chk, P, n_max):
    with chk.obligation('sort/arrays', 'sort (with and without a property) returns a permutation of its input, non-decreasing for mutually comparable keys, nil and missing keys last, equal keys in input order (stable); '
                        'elements of mutually incomparable kinds never make it fail or panic',
                        {'arrays': f'0..{n_max} elements; kinds enumerated over nil, integer (any i64), boolean, one-character string; with property: objects whose property is any i64 / nil / false / missing',
                         'sort_by': "std's small-slice algorithm (stable insertion sort, n <= 20) is a model driven by the real comparator closure"}) as ob:
        ex = Executor(P, models_with([])); ex.seed = chk.seed; ex.max_steps = 200000
        ob.stubs += ['std slice::sort_by: model of insertion_sort_shift_left for n <= 20 (mirsym/models/core.py), the comparator closure is the real MIR']
        for prop, pool in ((None, ['nil', 'int', 'str', 'bool']), ('p', ['obj:int', 'obj:nil', 'obj:missing', 'obj:false'])):
            for n in range(n_max + 1):
                for kinds in kinds_product(pool, n):
                    if prop is None and n == n_max and len(set(kinds)) > 2: continue          # keep the largest size to two kinds at a time
                    st = State(); elems = mk_elems(st, kinds)
                    for s2, kind, val in run_filter(ex, P, 'SortFilter', prop_args(prop), st, array_value(elems)):
                        ob.paths += 1; ob.reached()
                        def report(role, what, m):
                            vals = [e.concrete(m) for e in elems]
                            exp = py_sort(vals, prop)
                            sc = {'kind': 'template', 'parser': 'stdlib', 'template': replay_tpl('sort' + (": 'p'" if prop else '')), 'globals': {'a': vals}}
                            if 'panic' in role or 'fails' in role: conf = lambda r: r.get('outcome') != 'ok'
                            else: conf = lambda r, e=exp: r.get('outcome') != 'ok' or (e is not None and r.get('output') != fmt_list(e))
                            ob.violation(role, f'{what}: {py_json(vals)} | sort' + (": 'p'" if prop else ''), {'array': vals}, sc, conf)
                        if kind != 'ret' or val.variant != 'Ok':
                            report('sort/panic' if kind == 'panic' else 'sort/fails', f'sort ends with {kind} {val}', ob.decide(ex, s2.conds, z3.BoolVal(True))); continue
                        out = result_array(s2, val)
                        keys = [repr(x) for x in out] if out is not None else None
                        if keys is None or Counter(keys) != Counter(e.key for e in elems):
                            report('sort/not-a-permutation', f'sort returns {out}', ob.decide(ex, s2.conds, z3.BoolVal(True))); continue
                        # map outputs back to input positions (first unused input with the same content)
                        used = set(); out_idx = []
                        for k_ in keys:
                            j = next(i for i, e in enumerate(elems) if e.key == k_ and i not in used); used.add(j); out_idx.append(j)
                        if s2.env.get('unstable_sort'):
                            # the filter sorts with an algorithm that does not promise stability; small slices happen to come out stable, so confirm on a long array
                            big = [{'id': i, 'p': i % 3} for i in range(45)] if prop else None
                            if prop:
                                exp = sorted(big, key=lambda d: d['p'])
                                ob.violation('sort/unstable-algorithm', "sort: 'p' uses an unstable sort: equal keys may be reordered on long arrays", {'array': '45 objects with keys i % 3'},
                                             {'kind': 'template', 'parser': 'stdlib', 'template': replay_tpl("sort: 'p'"), 'globals': {'a': big}}, lambda r, e=exp: r.get('outcome') != 'ok' or r.get('output') != fmt_list(e))
                            else:
                                ob.inconclusive('sort without a property uses an unstable sort; instability is not observable on equal scalars')
                            continue
                        for cond, why in sort_key_conds(elems, out_idx, prop):
                            m = ob.decide(ex, s2.conds, z3.Not(cond))
                            if m is not None:
                                report('sort/wrong-order', f'sort: {why}', m); break
            ob.sample({'property': prop})
        ob.absorb(ex)


def ob_sort_natural(chk, P, n_max):
    with chk.obligation('sort_natural/arrays', 'sort_natural returns a permutation ordered by the lower-cased text of the elements, nil last, stable; never fails because of mixed kinds',
                        {'arrays': f'0..{n_max} elements; kinds enumerated over nil, one-character ASCII string, integer'}) as ob:
        ex = Executor(P, models_with([])); ex.seed = chk.seed; ex.max_steps = 200000
        for n in range(n_max + 1):
            for kinds in kinds_product(['nil', 'str'], n):
                st = State(); elems = mk_elems(st, kinds)
                for s2, kind, val in run_filter(ex, P, 'SortNaturalFilter', prop_args(None), st, array_value(elems)):
                    ob.paths += 1; ob.reached()
                    def report(role, what, m):
                        vals = [e.concrete(m) for e in elems]
                        present = [v for v in vals if v is not None]
                        exp = sorted(present, key=lambda s: s.lower()) + [None] * (len(vals) - len(present))
                        ob.violation(role, f'{what}: {py_json(vals)} | sort_natural', {'array': vals}, {'kind': 'template', 'parser': 'stdlib', 'template': replay_tpl('sort_natural'), 'globals': {'a': vals}},
                                     lambda r, e=exp: r.get('outcome') != 'ok' or r.get('output') != fmt_list(e))
                    if kind != 'ret' or val.variant != 'Ok':
                        report('sort_natural/fails', f'sort_natural ends with {kind} {val}', ob.decide(ex, s2.conds, z3.BoolVal(True))); continue
                    out = result_array(s2, val)
                    keys = [repr(x) for x in out] if out is not None else None
                    if keys is None or Counter(keys) != Counter(e.key for e in elems):
                        report('sort_natural/not-a-permutation', f'sort_natural returns {out}', ob.decide(ex, s2.conds, z3.BoolVal(True))); continue
                    used = set(); out_idx = []
                    for k_ in keys:
                        j = next(i for i, e in enumerate(elems) if e.key == k_ and i not in used); used.add(j); out_idx.append(j)
                    for a, b in zip(out_idx, out_idx[1:]):
                        ea, eb = elems[a], elems[b]
                        if ea.kind == 'nil' and eb.kind != 'nil': cond = z3.BoolVal(False)
                        elif ea.kind == eb.kind == 'str':
                            la, lb = lower_expr(ea.c), lower_expr(eb.c)
                            cond = z3.And(z3.ULE(la, lb), z3.Implies(la == lb, z3.BoolVal(a < b)))
                        elif ea.kind == eb.kind == 'nil': cond = z3.BoolVal(a < b)
                        else: continue
                        m = ob.decide(ex, s2.conds, z3.Not(cond))
                        if m is not None:
                            report('sort_natural/wrong-order', f'sort_natural puts #{a} before #{b}', m); break
            ob.sample({'len': n})
        ob.absorb(ex)


# ---------------------------------------------------------------- uniq / compact / reverse / concat / first / last
def liquid_eq(ea, eb):
    """z3 Bool: the two elements are equal values (kinds nil/int/bool/str as built here; nil == false per the value model's truthiness rule)"""
    if ea.kind == eb.kind:
        return {'nil': lambda: z3.BoolVal(True), 'int': lambda: ea.x == eb.x, 'bool': lambda: ea.b == eb.b, 'str': lambda: ea.c == eb.c}[ea.kind]()
    kinds = {ea.kind, eb.kind}
    if kinds == {'nil', 'bool'}: return z3.Not(ea.b if ea.kind == 'bool' else eb.b)
    if 'bool' in kinds and kinds & {'int', 'str'}: return (ea.b if ea.kind == 'bool' else eb.b)      # a scalar compared with a boolean: equal to true, unequal to false
    return z3.BoolVal(False)


def ob_uniq(chk, P, n_max):
    with chk.obligation('uniq/arrays', 'uniq keeps, in order, exactly the elements that are not equal to an earlier kept one', {'arrays': f'0..{n_max} elements over nil, integer (any i64), one-character string'}) as ob:
        ex = Executor(P, models_with([])); ex.seed = chk.seed; ex.max_steps = 200000
        for n in range(n_max + 1):
            for kinds in kinds_product(['nil', 'int', 'str'], n):
                st = State(); elems = mk_elems(st, kinds)
                for s2, kind, val in run_filter(ex, P, 'UniqFilter', None, st, array_value(elems)):
                    ob.paths += 1; ob.reached()
                    def report(role, what, m):
                        vals = [e.concrete(m) for e in elems]
                        exp = []
                        for v in vals:
                            if not any(type(v) == type(w) and v == w for w in exp): exp.append(v)
                        ob.violation(role, f'{what}: {py_json(vals)} | uniq', {'array': vals}, {'kind': 'template', 'parser': 'stdlib', 'template': replay_tpl('uniq'), 'globals': {'a': vals}},
                                     lambda r, e=exp: r.get('outcome') != 'ok' or r.get('output') != fmt_list(e))
                    out = result_array(s2, val) if kind == 'ret' else None
                    if out is None:
                        report('uniq/fails', f'uniq ends with {kind} {val}', ob.decide(ex, s2.conds, z3.BoolVal(True))); continue
                    keys = [repr(x) for x in out]
                    # kept indices: greedy in-order matching
                    kept = []; pos = 0
                    okp = True
                    for k_ in keys:
                        j = next((i for i in range(pos, n) if elems[i].key == k_), None)
                        if j is None: okp = False; break
                        kept.append(j); pos = j + 1
                    if not okp:
                        report('uniq/invents-or-reorders', f'uniq returns {out}', ob.decide(ex, s2.conds, z3.BoolVal(True))); continue
                    conds = []
                    for i in range(n):
                        earlier = [j for j in kept if j < i]
                        dup = z3.Or(*[liquid_eq(elems[j], elems[i]) for j in earlier]) if earlier else z3.BoolVal(False)
                        conds.append(z3.Not(dup) if i in kept else dup)
                    m = ob.decide(ex, s2.conds, z3.Not(z3.And(*conds)) if conds else z3.BoolVal(False))
                    if m is not None: report('uniq/wrong-selection', f'uniq keeps inputs {kept}', m)
            ob.sample({'len': n})
        ob.absorb(ex)


def ob_simple_array_filters(chk, P, n_max):
    with chk.obligation('compact-reverse-concat-first-last/arrays', 'compact removes exactly the nils (or the objects whose property is nil or missing), reverse returns the elements in reverse order, '
                        "concat returns the input followed by the argument, first/last return the first/last element or nil for an empty array",
                        {'arrays': f'0..{n_max} elements over nil, integer, one-character string (compact with property: objects with an integer / nil / missing / false property)'}) as ob:
        ex = Executor(P, models_with([])); ex.seed = chk.seed; ex.max_steps = 200000
        def run_case(name, filt, args, elems, st, expect, tpl_filter, extra_globals=None):
            for s2, kind, val in run_filter(ex, P, filt, args, st, array_value(elems)):
                ob.paths += 1; ob.reached()
                bad = None
                if kind != 'ret' or val.variant != 'Ok': bad = f'ends with {kind} {val}'
                else:
                    if name in ('first', 'last'):
                        got = [repr(s2.deref_all(val.items[0]))]
                    else:
                        out = result_array(s2, val); got = [repr(x) for x in out] if out is not None else None
                    if got != [repr(x) for x in expect]: bad = f'returns {got}'
                ob.decide(ex, s2.conds, z3.BoolVal(bad is not None))
                if bad:
                    m = ob.decide(ex, s2.conds, z3.BoolVal(True))
                    vals = [e.concrete(m) for e in elems]
                    g = {'a': vals}; g.update(extra_globals(m) if extra_globals else {})
                    exp = py_expect(name, vals, g, tpl_filter)
                    ob.violation(f'{name}/wrong-result', f'{name} {bad}: {py_json(vals)}', {'array': vals, 'expected': exp}, {'kind': 'template', 'parser': 'stdlib', 'template': replay_tpl(tpl_filter) if name not in ('first', 'last') else "[{{ a | " + tpl_filter + " }}]", 'globals': g},
                                 lambda r, e=exp: r.get('outcome') != 'ok' or r.get('output') != e)
        for n in range(n_max + 1):
            for kinds in kinds_product(['nil', 'int', 'str'], n):
                st = State(); elems = mk_elems(st, kinds)
                run_case('compact', 'CompactFilter', prop_args(None), elems, st.clone(), [e.value for e in elems if e.kind != 'nil'], 'compact')
                run_case('reverse', 'ReverseFilter', None, elems, st.clone(), [e.value for e in reversed(elems)], 'reverse')
                run_case('first', 'FirstFilter', None, elems, st.clone(), [elems[0].value if elems else VALUE_NIL], 'first')
                run_case('last', 'LastFilter', None, elems, st.clone(), [elems[-1].value if elems else VALUE_NIL], 'last')
                for m_ in range(0, 3):
                    other = [Elem(10 + j, 'int', st) for j in range(m_)]
                    cargs = Adt('ConcatArgs', None, [expr_stub(array_value(other), 'array')], ['array'])
                    run_case('concat', 'ConcatFilter', cargs, elems, st.clone(), [e.value for e in elems] + [o.value for o in other], 'concat: b',
                             lambda m, other=other: {'b': [o.concrete(m) for o in other]})
            for kinds in kinds_product(['obj:int', 'obj:nil', 'obj:missing', 'obj:false'], n):
                st = State(); elems = mk_elems(st, kinds)
                run_case('compact', 'CompactFilter', prop_args('p'), elems, st.clone(), [e.value for e in elems if e.prop_kind in ('int', 'false')], "compact: 'p'")
            ob.sample({'len': n})
        ob.absorb(ex)


def ob_map_where_join(chk, P, n_max):
    with chk.obligation('map-where-join/arrays', "map returns, in order, the property of exactly the elements that are objects having it (nil and false included, missing skipped); where returns, in order, exactly the objects "
                        "whose property is truthy (no target) or equal to the target (a target that is present and nil selects the nil and false properties); join concatenates the elements' text with the separator between consecutive elements",
                        {'arrays': f'0..{n_max} elements; map/where: objects whose property is any i64 / nil / false / missing (map also: integers); join: one-character strings, empty strings and nils, separator of 0..2 characters',
                         'target': 'absent or any i64'}) as ob:
        ex = Executor(P, models_with([])); ex.seed = chk.seed; ex.max_steps = 200000
        t = z3.BitVec('target', 64)
        def run_case(name, filt, args, elems, st, expect_fn, tpl_filter, extra_globals=None):
            for s2, kind, val in run_filter(ex, P, filt, args, st, array_value(elems)):
                ob.paths += 1; ob.reached()
                if kind != 'ret' or val.variant != 'Ok':
                    bad_cond = z3.BoolVal(True); got = f'{kind} {val}'
                else:
                    out = result_array(s2, val)
                    got = [repr(x) for x in out] if out is not None else repr(val)
                    bad_cond = expect_fn(got)
                m = ob.decide(ex, s2.conds, bad_cond)
                if m is not None:
                    vals = [e.concrete(m) for e in elems]
                    g = {'a': vals}; g.update(extra_globals(m) if extra_globals else {})
                    exp = py_expect(name, vals, g, tpl_filter)
                    ob.violation(f'{name}/wrong-result', f'{name} returns {got}: {py_json(vals)} with {g}', {'array': vals, 'expected': exp},
                                 {'kind': 'template', 'parser': 'stdlib', 'template': replay_tpl(tpl_filter), 'globals': g}, lambda r, e=exp: r.get('outcome') != 'ok' or r.get('output') != e)
        pool = ['obj:int', 'obj:nil', 'obj:missing', 'obj:false']
        for n in range(n_max + 1):
            for kinds in kinds_product(pool + ['int'], n):
                st = State(); elems = mk_elems(st, kinds)
                def prop_value(e):
                    return value_scalar(scalar_int(Int(e.p, 'i64'))) if e.prop_kind == 'int' else VALUE_NIL if e.prop_kind == 'nil' else value_scalar(scalar_bool(Bool(False)))
                want = [repr(prop_value(e)) for e in elems if e.kind == 'obj' and e.prop_kind != 'missing']
                margs = Adt('MapArgs', None, [expr_stub(str_value('p'), 'property')], ['property'])
                run_case('map', 'MapFilter', margs, elems, st.clone(), lambda got, want=want: z3.BoolVal(got != want), "map: 'p'")
                # a property NAME that the path syntax would answer synthetically (size / first / last): no element has it, so nothing is selected
                if n <= 2:
                    for pname in ('size', 'first'):
                        margs2 = Adt('MapArgs', None, [expr_stub(str_value(pname), 'property')], ['property'])
                        run_case('map', 'MapFilter', margs2, elems, st.clone(), lambda got: z3.BoolVal(got != []), f"map: '{pname}'")
            for kinds in kinds_product(pool, n):
                st = State(); elems = mk_elems(st, kinds)
                wargs = Adt('WhereArgs', None, [expr_stub(str_value('p'), 'property'), NONE], ['property', 'target_value'])
                want = [e.key for e in elems if e.prop_kind == 'int']
                run_case('where', 'WhereFilter', wargs, elems, st.clone(), lambda got, want=want: z3.BoolVal(got != want), "where: 'p'")
                wargs2 = Adt('WhereArgs', None, [expr_stub(str_value('p'), 'property'), Some(expr_stub(value_scalar(scalar_int(Int(t, 'i64'))), 'target'))], ['property', 'target_value'])
                def expect_eq(got, elems=elems):
                    # the result must be exactly the objects whose integer property equals the target: compare against every subset
                    ints = [e for e in elems if e.prop_kind == 'int']
                    alts = []
                    for mask in itertools.product((False, True), repeat=len(ints)):
                        sel = [e.key for e, mk_ in zip(ints, mask) if mk_]
                        if got == sel: alts.append(z3.And(*[(e.p == t) if mk_ else (e.p != t) for e, mk_ in zip(ints, mask)]) if ints else z3.BoolVal(True))
                    return z3.Not(z3.Or(*alts)) if alts else z3.BoolVal(True)
                run_case('where-eq', 'WhereFilter', wargs2, elems, st.clone(), expect_eq, "where: 'p', t", lambda m: {'t': m.eval(t, model_completion=True).as_signed_long()})
                # a target that is PRESENT and nil is not an absent target: exactly the objects whose property equals nil (nil itself, and false by the value model's truth rule)
                wargs3 = Adt('WhereArgs', None, [expr_stub(str_value('p'), 'property'), Some(expr_stub(VALUE_NIL, 'target'))], ['property', 'target_value'])
                want_nil = [e.key for e in elems if e.prop_kind in ('nil', 'false')]
                run_case('where-nil', 'WhereFilter', wargs3, elems, st.clone(), lambda got, want=want_nil: z3.BoolVal(got != want), "where: 'p', t", lambda m: {'t': None})
            for kinds in kinds_product(['str', 'nil', 'estr'], n):
                for sep_n in range(3):
                    st = State(); elems = mk_elems(st, kinds)
                    sep = [z3.BitVec(f'sep{i}', 32) for i in range(sep_n)]
                    for c in sep: st.assume(z3.And(z3.UGE(c, 32), z3.ULE(c, 126)))
                    jargs = Adt('JoinArgs', None, [Some(expr_stub(str_value(sep), 'separator'))], ['separator'])
                    want = []
                    for i, e in enumerate(elems):
                        if i: want += sep
                        if e.kind == 'str': want.append(e.c)      # nil and the empty string contribute no characters, but their separators stay
                    for s2, kind, val in run_filter(ex, P, 'JoinFilter', jargs, st, array_value(elems)):
                        ob.paths += 1; ob.reached()
                        from checks.C13 import result_string
                        res = result_string(s2, val) if kind == 'ret' else None
                        m = ob.decide(ex, s2.conds, z3.Not(eq_chars(res, want)) if res is not None else z3.BoolVal(True))
                        if m is not None:
                            vals = [e.concrete(m) for e in elems]; sv = ''.join(chr(m.eval(c, model_completion=True).as_long()) for c in sep)
                            texts = [v or '' for v in vals]
                            ob.violation('join/wrong-result', f'join returns {val}: {py_json(vals)} | join: {sv!r}', {'array': vals, 'separator': sv},
                                         {'kind': 'template', 'parser': 'stdlib', 'template': "[{{ a | join: s }}]", 'globals': {'a': vals, 's': sv}}, lambda r, e='[' + sv.join(texts) + ']': r.get('outcome') != 'ok' or r.get('output') != e)
            ob.sample({'len': n})
        ob.absorb(ex)


def ob_sort_comparator(chk, P, full=False):
    with chk.obligation('sort/comparator-total-order', "the comparator sort hands to the standard library (nil_safe_compare(..).unwrap_or(Equal), the real body) is a total preorder on every triple of elements: "
                        "a <= b and b <= c imply a <= c. std's sort_by is allowed to panic ('user-provided comparison function does not correctly implement a total order', arrays of more than 20 elements) "
                        'or to return any order when it is not, so a violation on a triple is confirmed natively by sorting 60-element arrays drawn from the three values',
                        {'triples': 'every combination of kinds over nil, integer (any i64), boolean, one-character string, plus float (any finite f64) in five combinations (quick) / all 125 combinations (thorough); contents symbolic',
                         'outside': 'NaN (cannot be written in template data), arrays and objects as elements'}) as ob:
        import random
        ex = Executor(P, models_with([])); ex.seed = chk.seed; ex.max_steps = 50000
        fn = P.find(r'^fn (?:\w+::)*filters::array::nil_safe_compare\(', 'lib')
        def cmp3(st, x, y):
            for s2, kind, val in ex.run(fn, [st.ref(x.value), st.ref(y.value)], st):
                if kind != 'ret':
                    yield s2, None; continue
                if val.variant == 'None': yield s2, 0
                else:
                    o = s2.deref_all(val.items[0])
                    yield s2, {'Less': -1, 'Equal': 0, 'Greater': 1}[o.variant]
        triples = list(itertools.product(['nil', 'int', 'float', 'bool', 'str'], repeat=3)) if full else \
            list(itertools.product(['nil', 'int', 'bool', 'str'], repeat=3)) + [('int', 'float', 'int'), ('float', 'int', 'float'), ('float', 'float', 'float'), ('int', 'float', 'str'), ('float', 'str', 'int')]
        for kinds in triples:
            st = State(); a, b, c = mk_elems(st, kinds)
            for s1, ab in cmp3(st, a, b):
                for s2, bc in cmp3(s1.clone(), b, c):
                    for s3, ac in cmp3(s2.clone(), a, c):
                        ob.paths += 1; ob.reached()
                        if None in (ab, bc, ac): bad = 'the comparator panics'
                        elif ab <= 0 and bc <= 0 and ac > 0: bad = f'a <= b ({ab}), b <= c ({bc}) but a > c'
                        elif ab >= 0 and bc >= 0 and ac < 0: bad = f'a >= b ({ab}), b >= c ({bc}) but a < c'
                        else: bad = None
                        m = ob.decide(ex, s3.conds, z3.BoolVal(bad is not None))
                        if m is None: continue
                        vals = [e.concrete(m) for e in (a, b, c)]
                        present = {k for k in kinds if k != 'nil'}
                        if present <= {'int', 'float'} and present == {'int', 'float'}: cls = 'integer-float-rounding'
                        elif len(present - {'float'} | ({'int'} if 'float' in present else set())) > 1: cls = 'mutually-incomparable-kinds'
                        else: cls = 'comparable-kinds'
                        role = 'sort/panic/comparator-not-a-total-order/' + cls
                        for seed in range(4):
                            rnd = random.Random(seed); arr = [rnd.choice(vals) for _ in range(60)]
                            ob.violation(role, f'sort comparator is not transitive on {py_json(vals)}: {bad}; sorting a 60-element array of these values', {'triple': vals, 'array': arr},
                                         {'kind': 'template', 'parser': 'stdlib', 'template': "{{ a | sort | join: ',' }}", 'globals': {'a': arr}}, lambda r: r.get('outcome') == 'panic')
            ob.sample({'kinds': list(kinds)})
        ob.absorb(ex)


def py_slice_list(vals, off, ln):
    n = len(vals)
    if ln < 1: return None
    if off < 0: off += n
    if off < 0 or off > n: return []
    return vals[off:off + ln]


def ob_slice_arrays(chk, P, n_max):
    with chk.obligation('slice/arrays', 'slice on an array returns the contiguous run of at most `length` elements starting at index `offset` (negative offsets count from the end, out-of-range starts '
                        'give the empty array), i.e. it agrees with indexing; length < 1 is an error; no panic for any offset/length',
                        {'arrays': f'0..{n_max} elements over integer (any i64) and nil', 'offset': 'any i64', 'length': 'absent or any i64'}) as ob:
        ex = Executor(P, models_with([])); ex.seed = chk.seed; ex.max_steps = 100000
        fn = P.find_method('SliceFilter', 'evaluate', 'Filter', 'lib')
        for n in range(n_max + 1):
            for has_len in (False, True):
                st = State(); elems = mk_elems(st, ['int' if i % 3 != 2 else 'nil' for i in range(n)])
                # a nil element is tagged by its position through distinct neighbours; integer elements are distinct symbols
                off = z3.BitVec('off', 64); ln = z3.BitVec('len', 64)
                args = Adt('SliceArgs', None, [expr_stub(value_scalar(scalar_int(Int(off, 'i64'))), 'offset'),
                                               Some(expr_stub(value_scalar(scalar_int(Int(ln, 'i64'))), 'length')) if has_len else NONE], ['offset', 'length'])
                for s2, kind, val in ex.run(fn, [st.ref(Adt('SliceFilter', None, [args], ['args'])), st.ref(array_value(elems)), st.ref(Opaque(('RT',)))], st):
                    ob.paths += 1; ob.reached()
                    def report(role, what, m):
                        vals = [e.concrete(m) for e in elems]; o = m.eval(off, model_completion=True).as_signed_long(); l = m.eval(ln, model_completion=True).as_signed_long() if has_len else None
                        exp = py_slice_list(vals, o, 1 if l is None else l)
                        sc = {'kind': 'template', 'parser': 'stdlib', 'template': replay_tpl('slice: o' + (', l' if has_len else '')), 'globals': {'a': vals, 'o': o, 'l': l}}
                        ob.violation(role, f'{what}: {py_json(vals)} | slice: {o}' + (f', {l}' if has_len else ''), {'array': vals, 'offset': o, 'length': l, 'expected': exp}, sc,
                                     lambda r, e=exp: (r.get('outcome') != 'err') if e is None else (r.get('outcome') != 'ok' or r.get('output') != fmt_list(e)))
                    if kind == 'panic':
                        report('slice/panic', f'slice panics ({val})', ob.decide(ex, s2.conds, z3.BoolVal(True))); continue
                    lnv = ln if has_len else z3.BitVecVal(1, 64)
                    out = result_array(s2, val) if kind == 'ret' else None
                    if out is None:
                        post = lnv < 1 if (kind == 'ret' and val.variant == 'Err') else z3.BoolVal(False)
                    else:
                        got = [repr(x) for x in out]; keys = [e.key for e in elems]
                        good = []
                        for a in range(n + 1):
                            for k in range(0, n - a + 1):
                                if got != keys[a:a + k]: continue
                                if n == 0: start_ok = (off == 0)
                                elif a == n: start_ok = (off == n)
                                else: start_ok = z3.Or(off == a, off == a - n)
                                cnt_ok = (lnv == k) if k < n - a else (lnv >= n - a)
                                if k == 0 and n - a > 0: cnt_ok = z3.BoolVal(False)
                                good.append(z3.And(start_ok, cnt_ok, lnv >= 1))
                        if not got: good.append(z3.And(z3.Or(off > n, off < -n), lnv >= 1))
                        post = z3.Or(*good) if good else z3.BoolVal(False)
                    m = ob.decide(ex, s2.conds, z3.Not(post))
                    if m is not None: report('slice/wrong-piece', f'slice returns {out if out is not None else val}', m)
                ob.sample({'len': n, 'has_length': has_len})
        ob.absorb(ex)


def py_expect(name, vals, g, tpl_filter):
    if name == 'compact':
        if "'p'" in tpl_filter: out = [v for v in vals if isinstance(v, dict) and v.get('p') is not None]
        else: out = [v for v in vals if v is not None]
    elif name == 'reverse': out = list(reversed(vals))
    elif name == 'concat': out = list(vals) + list(g.get('b', []))
    elif name == 'map':
        key = tpl_filter.split("'")[1] if "'" in tpl_filter else 'p'
        out = [v[key] for v in vals if isinstance(v, dict) and key in v]
    elif name == 'where': out = [v for v in vals if isinstance(v, dict) and v.get('p') not in (None, False)]
    elif name == 'where-nil': out = [v for v in vals if isinstance(v, dict) and 'p' in v and (v['p'] is None or v['p'] is False)]
    elif name == 'where-eq': out = [v for v in vals if isinstance(v, dict) and type(v.get('p')) is int and v.get('p') == g.get('t')]
    elif name in ('first', 'last'):
        return '[' + (render_of((vals[0] if name == 'first' else vals[-1])) if vals else '') + ']'
    return fmt_list(out)


def run(chk):
    P = chk.program(('core', 'lib'))
    quick = chk.tier == 'quick'
    n = 4 if quick else 5
    ob_sort(chk, P, n)
    ob_sort_comparator(chk, P, full=not quick)
    ob_sort_natural(chk, P, n)
    ob_uniq(chk, P, n)
    ob_simple_array_filters(chk, P, 3 if quick else 4)
    ob_map_where_join(chk, P, 3 if quick else 4)
    ob_slice_arrays(chk, P, 4 if quick else 6)
