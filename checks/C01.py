"""C01 -- parsing is total: any text yields a template or an error, never a crash."""
import z3
from pegsmt.obligations import *
from mirsym.exec import Executor, State, Unsupported
from mirsym.values import *
from checks.common import *

I64_MIN, I64_MAX = -(1 << 63), (1 << 63) - 1


def ob_lax_total(chk, rules, gh, N):
    with chk.obligation('grammar/LaxLiquidFile-total', 'the lax top-level rule consumes every input up to end of input (so the two `expect`s in parser::parse cannot fail), '
                        'whatever mixture of delimiters, trim markers, quotes, stray braces and non-ASCII text it contains', {'input': f'every string of up to {N} code points'}) as ob:
        ob.engine = 'E3-pegsmt'; ob.functions['grammar.pest'] = gh
        m = Matcher(rules, N)
        res = m.rule('LaxLiquidFile')
        ob.paths = len(res); ob.reached()
        mo = solve(ob, m.base + [z3.Not(full(m, res))], 300)
        if mo is not None:
            w = witness(m, mo)
            ob.violation('LaxLiquidFile/rejects-input', f'lax rule does not consume {w!r}', {'input': w}, {'kind': 'template', 'template': w}, lambda r: r.get('outcome') in ('panic', 'crash', 'timeout'))
        # vacuity twin: the strict rule is NOT total
        twin = solve(ob, m.base + [z3.Not(full(m, m.rule('LiquidFile')))], 300)
        if twin is None:
            ob.inconclusive('vacuity twin failed: the strict LiquidFile rule came out total, the encoding must be wrong')
        ob.sample({'N': N, 'strict_rule_counterexample': witness(m, twin) if twin is not None else None})


def ob_literals(chk, rules, gh):
    with chk.obligation('grammar/literal-texts', 'every text the grammar accepts as a literal is convertible: FloatLiteral texts are in Rust\'s f64 grammar, BooleanLiteral texts are "true"/"false", '
                        'StringLiteral texts have two one-byte quotes around them; IntegerLiteral texts beyond the 64-bit range exist (they must not crash the parser: see parse_literal)',
                        {'input': 'every string of up to 22 code points'}) as ob:
        ob.engine = 'E3-pegsmt'; ob.functions['grammar.pest'] = gh
        m = Matcher(rules, 22)
        ob.reached()
        # float
        fl = m.match(('ref', 'FloatLiteral'), 0, True); rf = m.match(('ref', 'RustFloat'), 0, True)
        mo = solve(ob, m.base + [full(m, fl), z3.Not(full(m, rf))])
        ob.paths += 1
        if mo is not None:
            w = witness(m, mo)
            ob.violation('FloatLiteral/not-parseable', f'FloatLiteral accepts {w!r}, which str::parse::<f64> rejects', {'text': w}, {'kind': 'template', 'template': '{{ ' + w + ' }}'}, lambda r: r.get('outcome') == 'panic')
        # bool
        bl = m.match(('ref', 'BooleanLiteral'), 0, True)
        is_tf = z3.Or(z3.And(m.L == 4, *[m.c[i] == ord(ch) for i, ch in enumerate('true')]), z3.And(m.L == 5, *[m.c[i] == ord(ch) for i, ch in enumerate('false')]))
        mo = solve(ob, m.base + [full(m, bl), z3.Not(is_tf)])
        ob.paths += 1
        if mo is not None:
            w = witness(m, mo)
            ob.violation('BooleanLiteral/not-parseable', f'BooleanLiteral accepts {w!r}', {'text': w}, {'kind': 'template', 'template': '{{ ' + w + ' }}'}, lambda r: r.get('outcome') == 'panic')
        # string: >= 2 chars, first == last in {' "}, both one byte
        sl = m.match(('ref', 'StringLiteral'), 0, True)
        for e, c in sl.items():
            ok = z3.BoolVal(False)
            if e >= 2: ok = z3.And(m.c[0] == m.c[e - 1], z3.Or(m.c[0] == 0x27, m.c[0] == 0x22))
            mo = solve(ob, m.base + [c, z3.Not(ok)])
            ob.paths += 1
            if mo is not None:
                w = witness(m, mo)
                ob.violation('StringLiteral/quotes', f'StringLiteral matched {w[:e]!r}', {'text': w}, {'kind': 'template', 'template': '{{ ' + w[:e] + ' }}'}, lambda r: r.get('outcome') == 'panic')
        ob.sample({'rules': ['FloatLiteral', 'BooleanLiteral', 'StringLiteral']})


def digits_value(chars):
    """value of a digit string as a 128-bit vector (20 digits < 2^67)"""
    v = z3.BitVecVal(0, 128)
    for c in chars:
        v = v * 10 + (z3.ZeroExt(96, c) - 48)
    return v


def ob_parse_literal(chk, P):
    with chk.obligation('parse_literal/integers', 'an integer literal of any length (sign optional) converts to the integer it spells when that fits in 64 bits and otherwise to an error or a float -- '
                        'never a panic, never another integer', {'text': 'sign in {none, +, -} x 1..20 digits, every digit symbolic'}) as ob:
        from mirsym.models import strings as S
        ex = Executor(P, models_with([])); ex.seed = chk.seed
        fn = P.find(r'^fn (?:\w+::)*parse_literal\(', 'core')
        ob.stubs += ['pest Pair: abstract (as_rule/into_inner/next/as_str), the literal text is a string of symbolic digits']
        for sign in ('', '+', '-'):
            for nd in list(range(1, 21)):
                st = State()
                ds = [z3.BitVec(f'd{i}', 32) for i in range(nd)]
                for d in ds: st.assume(z3.And(z3.UGE(d, 48), z3.ULE(d, 57)))
                text = StrV(([ord(sign)] if sign else []) + ds, 'str')
                inner = pair_stub('IntegerLiteral', text)
                lit = pair_stub('Literal', None, [inner])
                val_z = -digits_value(ds) if sign == '-' else digits_value(ds)
                for s2, kind, val in ex.run(fn, [lit], st):
                    ob.paths += 1; ob.reached()
                    def concrete_text(mo):
                        return sign + ''.join(chr(mo.eval(d, model_completion=True).as_long()) for d in ds)
                    if kind == 'panic':
                        mo = ob.decide(ex, s2.conds, z3.BoolVal(True)); t = concrete_text(mo)
                        ob.violation('parse_literal/integer/panic', f'the literal {t} makes the parser panic ({val})', {'text': t}, {'kind': 'template', 'template': '{{ ' + t + ' }}'}, lambda r: r.get('outcome') == 'panic')
                        continue
                    inner_v = val.items[0].items[0] if isinstance(val, Adt) and val.variant == 'Scalar' else None
                    fits = z3.And(val_z >= z3.BitVecVal(I64_MIN, 128), val_z <= z3.BitVecVal(I64_MAX, 128))
                    if inner_v is not None and inner_v.variant == 'Integer':
                        r = inner_v.items[0].e
                        post = z3.And(fits, z3.SignExt(64, r) == val_z)
                    elif inner_v is not None and inner_v.variant == 'Float':
                        post = z3.Not(fits)
                    else:
                        post = z3.BoolVal(False)
                    mo = ob.decide(ex, s2.conds, z3.Not(post))
                    if mo is not None:
                        t = concrete_text(mo)
                        exp = str(int(t)) if I64_MIN <= int(t) <= I64_MAX else None
                        ob.violation('parse_literal/integer/wrong-value', f'the literal {t} denotes {val}', {'text': t}, {'kind': 'template', 'template': '{{ ' + t + ' }}'},
                                     lambda r, e=exp: (r.get('output') != e) if e is not None else False)
            ob.sample({'sign': sign, 'digits': '1..20'})
        ob.absorb(ex)


def ob_parse_literal_strings(chk, P):
    with chk.obligation('parse_literal/strings', "a string literal denotes exactly the text between its two delimiting quotes: characters of the other quote style, spaces and non-ASCII characters inside are kept; no panic",
                        {'text': "quote in {', \"} + 0..3 characters (any Unicode scalar value except the delimiting quote, as the grammar guarantees) + the same quote"}) as ob:
        from checks.C13 import eq_chars
        from mirsym.models.strings import valid_char
        ex = Executor(P, models_with([])); ex.seed = chk.seed
        fn = P.find(r'^fn (?:\w+::)*parse_literal\(', 'core')
        for q in ("'", '"'):
            for n in range(4):
                st = State()
                cs = [z3.BitVec(f'c{i}', 32) for i in range(n)]
                for c in cs: st.assume(z3.And(valid_char(c), c != ord(q)))
                text = StrV([ord(q)] + cs + [ord(q)], 'str')
                lit = pair_stub('Literal', None, [pair_stub('StringLiteral', text)])
                for s2, kind, val in ex.run(fn, [lit], st):
                    ob.paths += 1; ob.reached()
                    def report(role, what, mo):
                        body = ''.join(chr(mo.eval(c, model_completion=True).as_long()) for c in cs)
                        ob.violation(role, f'{what}: literal {q}{body}{q}', {'text': q + body + q}, {'kind': 'template', 'template': '[{{ ' + q + body + q + ' }}]'},
                                     lambda r, e='[' + body + ']': r.get('outcome') != 'ok' or r.get('output') != e)
                    if kind == 'panic':
                        report('parse_literal/string/panic', f'parse_literal panics ({val})', ob.decide(ex, s2.conds, z3.BoolVal(True))); continue
                    got = None
                    if isinstance(val, Adt) and val.variant == 'Scalar':
                        inner = val.items[0].items[0]
                        if inner.variant == 'Str': got = list(s2.deref_all(inner.items[0]).chars)
                    mo = ob.decide(ex, s2.conds, z3.Not(eq_chars(got, cs)) if got is not None else z3.BoolVal(True))
                    if mo is not None:
                        shown = ''.join(chr(mo.eval(c, model_completion=True).as_long()) if not isinstance(c, int) else chr(c) for c in got) if got is not None else repr(val)
                        report('parse_literal/string/wrong-value', f'denotes {shown!r}', mo)
            ob.sample({'quote': q})
        ob.absorb(ex)


def pair_stub(rule, text=None, children=()):
    def handler(ctx, me, args, st):
        m = method_of(ctx.callee)
        if m == 'as_rule': return ret(st, Adt('Rule', rule, []))
        if m == 'as_str': return ret(st, st.ref(text if text is not None else StrV('', 'str')))
        if m == 'into_inner':
            from mirsym.models.iters import mk_list_iter
            return ret(st, mk_list_iter(list(children)))
        return None
    return Abs(f'pair:{rule}', handler, rule)


def run(chk):
    rules, gh = load()
    ob_lax_total(chk, rules, gh, 12 if chk.tier == 'quick' else 18)
    ob_literals(chk, rules, gh)
    P = chk.program(('core', 'lib'))
    ob_parse_literal(chk, P)
    ob_parse_literal_strings(chk, P)
    ob_token_helpers(chk, P)
    ob_block_structure(chk, P, 3 if chk.tier == 'quick' else 4)
    ob_stdlib_blocks(chk, P, 3 if chk.tier == 'quick' else 4)
    ob_include_arguments(chk, P, 5 if chk.tier == 'quick' else 6)
    ob_invalid_token_text(chk, P)
    chk.trusted |= {'pest implements PEG semantics as documented', 'pegsmt encoder'}


# ============================================================================ block structure: real TagBlock / Tag::parse_pair / comment / raw over element streams
import itertools
from checks.pmodel import *

BLOCK_ALPHABET = ['raw', 'expr', 'invalid', 'assign', 'if', 'endif', 'endif_arg', 'else', 'comment', 'endcomment', 'endcomment_arg', 'raw_tag', 'endraw', 'endraw_arg', 'unknown']


def ob_block_structure(chk, P, n):
    with chk.obligation('parse/block-structure', 'parsing a stream of top-level elements (text, output tags, tags, blocks, invalid tokens) with the real block machinery never panics and returns a template '
                        'exactly when the blocks are balanced and known; unclosed or mis-nested blocks, stray end tags, unknown tags and invalid tokens are errors',
                        {'streams': f'every sequence of up to {n} elements over {BLOCK_ALPHABET} (then end of input)', 'nesting': 'if / comment / raw blocks nested through the real TagBlock',
                         'plugins': 'real CommentBlock and RawBlock; abstract well-behaved block `if`; abstract tags (may reject their arguments)'}) as ob:
        ex = Executor(P, models_with(parser_stubs() + registers_models())); ex.seed = chk.seed; ex.max_steps = 60000
        ob.stubs += ['pest Pair/Span/Position stubs over element streams of the shape the grammar guarantees (E3)', 'Exp::parse, InvalidLiquidToken::parse, pest error construction: outcome stubs']
        for ln in range(0, n + 1):
            for kinds in itertools.product(BLOCK_ALPHABET, repeat=ln):
                want = py_reference(list(kinds))
                st = State()
                for s2, kind, val in run_parse(ex, P, st, list(kinds)):
                    ob.paths += 1; ob.reached()
                    bad = None
                    if kind == 'panic': bad = f'panics: {val}'
                    elif want == 'err' and val[0] != 'err': bad = 'accepted, expected an error'
                    elif want != 'err' and val[0] == 'err' and not s2.env.get('stub_failed'): bad = 'rejected although every block is balanced'
                    elif want != 'err' and val[0] == 'ok' and len(val[1]) != len(want): bad = f'{len(val[1])} top-level renderables, expected {len(want)}'
                    if bad:
                        src = ''.join(ELEMENTS[k][1] for k in kinds).replace('{%if x%}', '{% if x %}').replace('{{x}}', '{{ 1 }}')
                        sc = {'kind': 'template', 'template': src}
                        if kind == 'panic': conf = lambda r: r.get('outcome') in ('panic', 'crash')
                        elif want == 'err': conf = lambda r: r.get('stage') != 'parse' or r.get('outcome') != 'err'
                        else: conf = lambda r: r.get('stage') == 'parse'
                        role = 'parse/panic/' + ('unclosed-inside-comment' if 'comment' in kinds else 'other') if kind == 'panic' else 'parse/accepts-unbalanced' if want == 'err' else 'parse/rejects-balanced'
                        ob.violation(role, f'{src!r}: {bad}', {'elements': list(kinds)}, sc, conf)
            ob.sample({'stream_len': ln})
        ob.absorb(ex)


# ============================================================================ token helpers: what a tag argument is accepted as
def choice(ex, st, name, n):
    """generator (st, k): a solver-chosen shape parameter 0..n-1, decided once per path"""
    key = ('choice', name)
    if key in st.env:
        yield st, st.env[key]; return
    v = z3.Int('shape_' + name)
    for k in range(n):
        s2 = st.clone(); s2.assume(v == k); s2.env[key] = k
        yield s2, k


def shape_pair(kind):
    """Pair stub whose rule and children are shape parameters chosen by the solver:
    token := FilterChain(Value(Literal | Variable(Identifier index{0..2})) filter{0..2}) | Range(Value Value) | Assign"""
    def h(ctx, me, args, st):
        m = method_of(ctx.callee)
        ex = ctx.ex
        if m == 'clone': return ret(st, me)
        if m == 'as_str': return ret(st, st.ref(StrV('tok', 'str')))
        if m == 'as_span': return ret(st, mk_span('tok', 0, 3))
        def g():
            if kind == 'token':
                for s2, k in choice(ex, st, 'top', 3):
                    rule = ['FilterChain', 'Range', 'Assign'][k]
                    if m == 'as_rule': yield s2, 'ret', Adt('Rule', rule, [])
                    elif m == 'into_inner':
                        if rule == 'FilterChain':
                            for s3, nf in choice(ex, s2, 'nfilters', 3):
                                yield s3, 'ret', mk_list_iter([shape_pair('value')] + [shape_pair('filter')] * nf)
                        elif rule == 'Range': yield s2, 'ret', mk_list_iter([shape_pair('value'), shape_pair('value')])
                        else: yield s2, 'ret', mk_list_iter([])
            elif kind == 'value':
                if m == 'as_rule': yield st, 'ret', Adt('Rule', 'Value', [])
                elif m == 'into_inner': yield st, 'ret', mk_list_iter([shape_pair('inner')])
            elif kind == 'inner':
                for s2, k in choice(ex, st, 'vkind', 2):
                    if m == 'as_rule': yield s2, 'ret', Adt('Rule', ['Literal', 'Variable'][k], [])
                    elif m == 'into_inner':
                        if k == 0: yield s2, 'ret', mk_list_iter([shape_pair('leaf')])
                        else:
                            for s3, ni in choice(ex, s2, 'nindexes', 3):
                                yield s3, 'ret', mk_list_iter([shape_pair('leaf')] + [shape_pair('value')] * ni)
            else:
                if m == 'as_rule': yield st, 'ret', Adt('Rule', 'Identifier' if kind == 'leaf' else 'Filter', [])
                elif m == 'into_inner': yield st, 'ret', mk_list_iter([])
        if m in ('as_rule', 'into_inner'): return g()
        return None
    return Abs('pair:' + kind, h, ('shape', kind))


TOKEN_HELPERS = {
    # helper: (accepts(shape) , template that must be rejected when the helper accepts too much)
    'expect_filter_chain': (lambda t: t['top'] == 0, None),
    'expect_value': (lambda t: t['top'] == 0 and t['nfilters'] == 0, "{% for i in a | reverse %}{% endfor %}"),
    'expect_variable': (lambda t: t['top'] == 0 and t['nfilters'] == 0 and t['vkind'] == 1, None),
    'expect_identifier': (lambda t: t['top'] == 0 and t['nfilters'] == 0 and t['vkind'] == 1 and t['nindexes'] == 0, "{% capture a.b %}x{% endcapture %}"),
    'expect_literal': (lambda t: t['top'] == 0 and t['nfilters'] == 0 and t['vkind'] == 0, "{% cycle a | upcase: 'x', 'y' %}"),
    'expect_range': (lambda t: t['top'] == 1, None),
}


def ob_token_helpers(chk, P):
    with chk.obligation('tokens/classification', 'TagToken::expect_* accept exactly the argument shapes they name: a value is a filter chain WITHOUT filters, a variable is such a value that is a variable, '
                        'an identifier is a variable without indexes, a literal is a literal, a range is a range; everything else is handed back as a failed match (which tags turn into an error); no panic',
                        {'token shapes': 'FilterChain(Value(Literal | Variable(Identifier, 0..2 indexes)), 0..2 filters) | Range | a symbol; shape parameters are solver-chosen',
                         'helpers': ', '.join(TOKEN_HELPERS)}) as ob:
        def stub_ok(tag):
            return lambda ctx, args, st: ret(st, Opaque((tag,)))
        stubs = [(r'^(?:parser::)?(?:parser::)?parse_value$', stub_ok('value'), 'stub:parse_value'), (r'^(?:parser::)?(?:parser::)?parse_variable_pair$', stub_ok('variable'), 'stub:parse_variable_pair'),
                 (r'^(?:parser::)?(?:parser::)?parse_literal$', stub_ok('literal'), 'stub:parse_literal'),
                 (r'^(?:parser::)?(?:parser::)?parse_filter_chain$', lambda ctx, args, st: ret(st, Ok(Opaque(('chain',)))), 'stub:parse_filter_chain')]
        ex = Executor(P, models_with(stubs + parser_stubs())); ex.seed = chk.seed
        ob.stubs += ['pest Pair stubs with solver-chosen shape', 'parse_value / parse_variable_pair / parse_literal / parse_filter_chain: opaque results (covered by parse_literal/integers and C04/C07 obligations)']
        for helper, (accepts, tpl) in TOKEN_HELPERS.items():
            fn = P.find_method('TagToken', helper, None, 'core')
            st = State()
            tok = Adt('TagToken', None, [shape_pair('token'), VecV([], 'Vec')], ['token', 'expected'])
            argv = [tok] + ([st.ref(Opaque(('LANG',)))] if helper == 'expect_filter_chain' else [])
            for s2, kind, val in ex.run(fn, argv, st):
                ob.paths += 1; ob.reached()
                m = ob.decide(ex, s2.conds, z3.BoolVal(True))
                shape = {k[1]: v for k, v in s2.env.items() if isinstance(k, tuple) and k[0] == 'choice'}
                t = {'top': shape.get('top', -1), 'nfilters': shape.get('nfilters', 0), 'vkind': shape.get('vkind', -1), 'nindexes': shape.get('nindexes', 0)}
                bad = None
                if kind == 'panic': bad = f'panics: {val}'
                else:
                    matched = val.variant == 'Matches'
                    # parameters the helper never looked at are unconstrained: accepting is wrong if SOME completion of the shape must be refused
                    unseen = [k for k in ('nfilters', 'vkind', 'nindexes') if k not in shape and t['top'] == 0]
                    completions = [dict(t, **dict(zip(unseen, vals))) for vals in itertools.product(*[range(3 if u != 'vkind' else 2) for u in unseen])] if unseen else [t]
                    if matched and not all(accepts(c) for c in completions): bad = f'accepts a token of shape {shape} (unexamined: {unseen})'
                    elif not matched and all(accepts(c) for c in completions): bad = f'refuses a token of shape {shape}'
                if bad:
                    sc = {'kind': 'template', 'template': tpl or "{% for i in a | reverse %}{% endfor %}"}
                    ob.violation(f'tokens/{helper}/' + ('panic' if kind == 'panic' else 'accepts-too-much' if 'accepts' in bad else 'refuses'), f'TagToken::{helper} {bad}', {'shape': shape}, sc,
                                 lambda r: r.get('stage') != 'parse' or r.get('outcome') != 'err')
            ob.sample({'helper': helper})
        ob.absorb(ex)


# ============================================================================ the real stdlib block parsers over element streams
STDLIB_BLOCKS = [
    # (tag name, struct, start-tag arguments, inner tags)
    ('if', 'IfBlock', [('x', 'var')], [('else', []), ('elsif', [('y', 'var')])]),
    ('unless', 'UnlessBlock', [('x', 'var')], [('else', [])]),
    ('for', 'ForBlock', [('i', 'var'), ('in', 'var'), ('a', 'var')], [('else', [])]),
    ('tablerow', 'TableRowBlock', [('i', 'var'), ('in', 'var'), ('a', 'var')], []),
    ('case', 'CaseBlock', [('x', 'var')], [('when', [('1', 'lit')]), ('else', [])]),
    ('capture', 'CaptureBlock', [('v', 'var')], []),
    ('ifchanged', 'IfChangedBlock', [], []),
]


def blocks_reference(kinds, inner_names):
    """mandatory outcomes for a stream that starts with the block's start tag: 'err' (must be rejected), 'ok' (must be accepted unless a stub rejects), None (either)"""
    if any(k in ('invalid', 'unknown', 'end_arg') or k.endswith('_arg') for k in kinds): return 'err'      # every element is parsed (no comment/raw here), so these always surface
    depth = 0; closed_at = None
    for i, k in enumerate(kinds):
        if k == 'start': depth += 1
        elif k == 'end':
            if depth == 0: return 'err'                                              # stray end tag at top level: unknown tag
            depth -= 1
        elif (k in inner_names or k.endswith('_arg')) and depth == 0: return 'err'   # else/when/elsif outside a block: unknown tag
    if depth != 0: return 'err'                                                      # unclosed block
    if all(k in ('start', 'end', 'raw', 'assign') for k in kinds): return 'ok'
    return None


def ob_stdlib_blocks(chk, P, n):
    with chk.obligation('parse/stdlib-blocks', 'the real parsers of if, unless, for, tablerow, case, capture and ifchanged (with the real TagBlock, TagTokenIter and TagToken code) never panic on any stream of elements '
                        'following their start tag; an unclosed block, an end tag with arguments, a stray end/else/when/elsif tag, an unknown tag and an invalid token are errors; a block holding only text and tags, properly closed, parses',
                        {'streams': f'start tag + every sequence of up to {n} elements over [raw, assign, invalid, unknown, start (nesting), end, end with arguments, the inner tags of the block] then end of input',
                         'arguments': 'well-formed one-word arguments as the Pair trees pest builds for them'}) as ob:
        def stub_ok(tag):
            return lambda ctx, args, st: ret(st, Opaque((tag,)))
        stubs = [(r'^(?:parser::)?(?:parser::)?parse_value$', stub_ok('value'), 'stub:parse_value'), (r'^(?:parser::)?(?:parser::)?parse_variable_pair$', stub_ok('variable'), 'stub:parse_variable_pair'),
                 (r'^(?:parser::)?(?:parser::)?parse_literal$', stub_ok('literal'), 'stub:parse_literal')]
        ex = Executor(P, models_with(stubs + parser_stubs() + registers_models())); ex.seed = chk.seed; ex.max_steps = 80000
        ob.stubs += ['pest Pair/Span/Position stubs over element streams of the shape the grammar guarantees (E3)', 'parse_value / parse_variable_pair / parse_literal: opaque results', 'pest error construction: opaque error']
        for name, struct, start_args, inner in STDLIB_BLOCKS:
            elements = block_elements(name, start_args, inner)
            inner_names = [i for i, _ in inner]
            alphabet = ['raw', 'assign', 'invalid', 'unknown', 'start', 'end', 'end_arg'] + inner_names + [i + '_arg' for i, a in inner if not a]
            for ln in range(0, n + 1):
                for rest in itertools.product(alphabet, repeat=ln):
                    kinds = ['start'] + list(rest)
                    want = blocks_reference(kinds, inner_names)
                    st = State()
                    for s2, kind, val in run_parse2(ex, P, st, kinds, elements, name, struct):
                        ob.paths += 1; ob.reached()
                        bad = None
                        if kind == 'panic': bad = f'panics: {val}'
                        elif want == 'err' and val[0] != 'err': bad = 'accepted, expected an error'
                        elif want == 'ok' and val[0] == 'err' and not s2.env.get('stub_failed'): bad = 'rejected although the block is well formed'
                        if bad:
                            src = ''.join(elements[k][1] for k in kinds).replace('{%', '{% ').replace('%}', ' %}')
                            sc = {'kind': 'template', 'template': src}
                            if kind == 'panic': conf = lambda r: r.get('outcome') in ('panic', 'crash')
                            elif want == 'err': conf = lambda r: r.get('stage') != 'parse' or r.get('outcome') != 'err'
                            else: conf = lambda r: r.get('stage') == 'parse'
                            role = f'parse/{name}/' + ('panic' if kind == 'panic' else 'accepts-malformed' if want == 'err' else 'rejects-well-formed')
                            ob.violation(role, f'{src!r}: {bad}', {'elements': kinds}, sc, conf)
            ob.sample({'block': name})
        ob.absorb(ex)


# ============================================================================ argument lists of the include tag
def include_reference(toks):
    """toks: kinds after the tag name. Grammar: name (id ':' value (',' id ':' value)* ','?)? -- anything else is an error"""
    if not toks or toks[0] not in ('str', 'var', 'lit'): return 'err'
    i = 1
    while i < len(toks):
        if toks[i] != 'var': return 'err'
        if i + 2 >= len(toks) + 0 and i + 2 > len(toks) - 1 + 0: pass
        if i + 1 >= len(toks) or toks[i + 1] != 'Colon': return 'err'
        if i + 2 >= len(toks) or toks[i + 2] not in ('str', 'var', 'lit'): return 'err'
        i += 3
        if i >= len(toks): return 'ok'
        if toks[i] != 'Comma': return 'err'
        i += 1
    return 'ok'


def ob_include_arguments(chk, P, n):
    with chk.obligation('parse/include-arguments', "the argument list of include is `name (id: value (, id: value)* ,?)?`: every other token sequence -- a stray token after an argument, a missing colon or value, "
                        "two commas -- is rejected with an error; no panic",
                        {'tokens': f"the partial name followed by every sequence of up to {n} tokens over [identifier, integer, string, ':', ',']"}) as ob:
        def stub_ok(tag):
            return lambda ctx, args, st: ret(st, Opaque((tag,)))
        stubs = [(r'^(?:parser::)?(?:parser::)?parse_value$', stub_ok('value'), 'stub:parse_value'), (r'^(?:parser::)?(?:parser::)?parse_variable_pair$', stub_ok('variable'), 'stub:parse_variable_pair'),
                 (r'^(?:parser::)?(?:parser::)?parse_literal$', stub_ok('literal'), 'stub:parse_literal')]
        ex = Executor(P, models_with(stubs + parser_stubs() + registers_models())); ex.seed = chk.seed; ex.max_steps = 80000
        P.prefer_paths = ['stdlib/']          # the stdlib IncludeTag (jekyll has a type of the same name)
        TEXT = {'var': 'x', 'lit': '1', 'str': "'s'", 'Colon': ':', 'Comma': ','}
        for ln in range(0, n + 1):
            for rest in itertools.product(['var', 'lit', 'str', 'Colon', 'Comma'], repeat=ln):
                toks = ['str'] + list(rest)
                want = include_reference(toks)
                text = "{%include " + ' '.join(("'p'" if i == 0 else TEXT[k]) for i, k in enumerate(toks)) + "%}"
                elements = {'inc': ('Tag', text, 'include', [(("'p'" if i == 0 else TEXT[k]), k) for i, k in enumerate(toks)])}
                st = State()
                for s2, kind, val in run_parse2(ex, P, st, ['inc'], elements, None, None, real_tags={'include': 'IncludeTag'}):
                    ob.paths += 1; ob.reached()
                    bad = None
                    if kind == 'panic': bad = f'panics: {val}'
                    elif want == 'err' and val[0] != 'err': bad = 'accepted, expected an error'
                    elif want == 'ok' and val[0] == 'err': bad = 'rejected although well formed'
                    if bad:
                        src = text.replace('{%', '{% ').replace('%}', ' %}')
                        sc = {'kind': 'template', 'template': src, 'partials': {'p': 'P', 's': 'S'}, 'globals': {'x': 'p'}}
                        conf = (lambda r: r.get('outcome') in ('panic', 'crash')) if kind == 'panic' else (lambda r: r.get('stage') != 'parse' or r.get('outcome') != 'err') if want == 'err' else (lambda r: r.get('stage') == 'parse')
                        ob.violation('parse/include/' + ('panic' if kind == 'panic' else 'accepts-malformed' if want == 'err' else 'rejects-well-formed'), f'{src!r}: {bad}', {'tokens': toks}, sc, conf)
            ob.sample({'tokens': ln})
        ob.absorb(ex)


# ============================================================================ the text an invalid token is re-parsed from
def ob_invalid_token_text(chk, P):
    """InvalidLiquidToken::parse_pair rebuilds `the text from the start of the token's line to the end of the input` and re-parses it strictly to
    word the error.  The re-parse (pest) is not executable here: it is a stub that fails when the rebuilt text is exactly that suffix of the input
    (which contains the invalid token) and may succeed or fail when the text is anything else (a character column used as a byte offset cuts the
    prefix short, and the shortened text can parse).  Whatever the re-parse says, parse_pair must end with an error value, never a panic."""
    with chk.obligation('parse_pair/rebuilt-text', "an invalid token always ends in an error value: building the text for the strict re-parse never panics, and when that text is not the original input "
                        "(so that it may parse) a successful re-parse is an error too, not a panic",
                        {'input': "[one symbolic character + newline]? + 0..2 symbolic characters (any Unicode scalar value except line breaks) + the invalid token '{' + '{ x' "}) as ob:
        from mirsym.models.strings import valid_char, byte_len
        from checks.C13 import eq_chars
        captured = {}
        def m_strict_parse(ctx, args, st, holder=captured):
            s = st.deref_all(args[1])
            got = list(s.chars) if isinstance(s, StrV) and s.facts is None else None
            exact = eq_chars(got, holder['want']) if got is not None else z3.BoolVal(False)
            perr = Adt('PestError', None, [Opaque(('variant',)), Opaque(('location',)), Adt('LineColLocation', 'Pos', [Tup([Int(1, 'usize'), Int(1, 'usize')])]),
                                           NONE, StrV('', 'String'), NONE, NONE])
            def g():
                for s1, same in ctx.ex.fork_bool(st, exact):
                    log_call(s1, 'reparse', ('exact' if same else 'different', got))
                    yield s1, 'ret', Err(perr)
                    if not same:
                        s2 = s1.clone(); log_call(s2, 'reparse-ok', True)
                        yield s2, 'ret', Ok(Opaque(('pairs',)))      # a text that is not the input may well parse
            return g()
        def sym_pos(src, i):
            def h(ctx, me, args, st):
                m = method_of(ctx.callee)
                line_start = max([k + 1 for k in range(i) if src[k] == 10] + [0])
                line_end = min([k + 1 for k in range(i, len(src)) if src[k] == 10] + [len(src)])
                if m == 'line_col': return ret(st, Tup([Int(1 + sum(1 for k in range(i) if src[k] == 10), 'usize'), Int(i - line_start + 1, 'usize')]))
                if m == 'line_of': return ret(st, st.ref(StrV(src[line_start:line_end], 'str')))
                if m == 'span':
                    other = st.deref_all(args[1])
                    return ret(st, sym_span(src, i, other.data[1]))
                if m == 'pos': return ret(st, byte_len(StrV(src[:i], 'str')))
                if m == 'clone': return ret(st, me)
                return None
            return Abs('pos', h, ('pos', i))
        def sym_span(src, a, b):
            def h(ctx, me, args, st):
                m = method_of(ctx.callee)
                if m == 'start_pos': return ret(st, sym_pos(src, a))
                if m == 'end_pos': return ret(st, sym_pos(src, b))
                if m == 'as_str': return ret(st, st.ref(StrV(src[a:b], 'str')))
                if m == 'get_input': return ret(st, st.ref(StrV(src, 'str')))
                if m == 'clone': return ret(st, me)
                return None
            return Abs('span', h, ('span', a, b))
        def sym_pair(src, a, b):
            def h(ctx, me, args, st):
                m = method_of(ctx.callee)
                if m == 'as_rule': return ret(st, Adt('Rule', 'InvalidLiquid', []))
                if m == 'as_span': return ret(st, sym_span(src, a, b))
                if m == 'as_str': return ret(st, st.ref(StrV(src[a:b], 'str')))
                if m == 'clone': return ret(st, me)
                return None
            return Abs('pair:InvalidLiquid', h, ('pair', 'InvalidLiquid', a, b))
        def m_position_new(ctx, args, st, holder=captured):
            # pest::Position::new(input, pos): Some(position) when pos is a character boundary of input; only `input.len()` is asked for here
            src = holder['src']
            n = args[1]
            total = byte_len(StrV(src, 'str'))
            same = z3.simplify(n.e == total.e)
            if not z3.is_true(same): raise Unsupported(f'Position::new at {n!r}')
            return ret(st, Some(sym_pos(src, len(src))))
        stubs = [(r'^<(?:\w+::)*LiquidParser as Parser<(?:\w+::)*Rule>>::parse$', m_strict_parse, 'stub:LiquidParser::parse (captures the text; the pest parse itself is not executed)'),
                 (r'^pest::Position::<\'_>::new$', m_position_new, 'stub:pest::Position::new(input, input.len())')]
        ex = Executor(P, models_with(stubs + parser_stubs())); ex.seed = chk.seed; ex.max_steps = 40000
        ob.stubs += ['pest Pair/Span/Position over a source of symbolic characters: line_col counts characters, line_of / as_str / get_input return the corresponding texts']
        fn = P.find(r'^fn (?:\w+::)*<impl at crates/core/src/parser/parser.rs:\d+:\d+: \d+:\d+>::parse_pair\(_1: InvalidLiquidToken', 'core')
        for first_line in (0, 1):
            for k in range(3):
                st = State()
                l1 = [z3.BitVec('l1', 32)] if first_line else []
                pre = [z3.BitVec(f'c{i}', 32) for i in range(k)]
                for c in l1 + pre: st.assume(z3.And(valid_char(c), c != 10, c != 13))
                src = (l1 + [10] if first_line else []) + pre + [ord('{'), ord('{'), ord(' '), ord('x')]
                tok_at = len(src) - 4
                captured['src'] = src
                line_start = len(l1) + 1 if first_line else 0
                want = src[line_start:]
                captured['want'] = want
                token = Adt('InvalidLiquidToken', None, [sym_pair(src, tok_at, tok_at + 1)], ['element'])
                for s2, kind, val in ex.run(fn, [token, st.ref(mk_list_iter([]), True)], st):
                    ob.paths += 1; ob.reached()
                    def report(role, what, m):
                        text = ''.join(chr(c) if isinstance(c, int) else chr(m.eval(c, model_completion=True).as_long()) for c in src)
                        # the wrong prefix matters when the cut-off text happens to parse: put a complete output tag and an opening quote on the line
                        # (five 2-byte characters move the cut five bytes to the left, into the string literal of the first tag)
                        demo = "\u00e9" * 5 + "{{ 'q' }}{{ ' }}"
                        if 'rebuilt-text-parses' not in role: demo = text          # a panic while building the text shows on the witness itself
                        ob.violation(role, f'{what}: input {text!r}', {'input': text}, {'kind': 'template', 'template': demo}, lambda r: r.get('outcome') in ('panic', 'crash'))
                    calls_ = [c[1] for c in calls(s2, 'reparse')]
                    differs = bool(calls_) and calls_[0][0] == 'different'
                    if kind == 'panic':
                        m = ob.decide(ex, s2.conds, z3.BoolVal(True))
                        ma = ob.decide(ex, s2.conds + [z3.ULT(c, 128) for c in l1 + pre], z3.BoolVal(True))
                        role = 'parse_pair/panic' + ('/when-the-rebuilt-text-parses' if calls(s2, 'reparse-ok') else '') + ('' if ma is not None else '/only-with-multibyte-characters')
                        report(role, f'parse_pair panics ({val})' + (f'; the rebuilt text {calls_[0][1]} is not the input' if differs else ''), ma if ma is not None else m); continue
                    if kind != 'ret' or not (isinstance(val, Adt) and val.variant == 'Err'):
                        report('parse_pair/no-error', f'parse_pair ends with {kind} {val}', ob.decide(ex, s2.conds, z3.BoolVal(True))); continue
                    ob.decide(ex, s2.conds, z3.BoolVal(False))
                ob.sample({'first_line': first_line, 'prefix': k})
        ob.absorb(ex)
