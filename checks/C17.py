"""C17 -- dates: comparison is chronological regardless of offset (Kani), and strftime directives mean what they say (E2).

strftime() is executed from MIR on format strings '%' flags* width? directive with symbolic flags, a symbolic width digit and
a timestamp whose accessors (year, month, ..., offset) return symbolic values within the ranges the `time` crate documents.
The output (a string whose digits are expressions of the field values) is compared with a declarative reference of each
directive (Ruby strftime semantics as documented in strftime.rs and the property)."""
import itertools
import z3
from mirsym.exec import Executor, State, Unsupported
from mirsym.values import *
from mirsym.models.timem import symenum
from mirsym.models.strings import ch_expr, valid_char
from checks.common import *
from checks.C13 import eq_chars
from vlib import kani_runner
from checks.kani_specs import C17_SPECS

FIELDS = {
    # accessor: (rust type, lo, hi)
    'year': ('i32', 1, 9999), 'day': ('u8', 1, 31), 'hour': ('u8', 0, 23), 'minute': ('u8', 0, 59), 'second': ('u8', 0, 59), 'nanosecond': ('u32', 0, 999_999_999),
    'ordinal': ('u16', 1, 366), 'unix_timestamp': ('i64', -99_999_999_999, 99_999_999_999), 'sunday_based_week': ('u8', 0, 53), 'monday_based_week': ('u8', 0, 53),
    'month': ('u8', 1, 12), 'weekday': ('u8', 0, 6), 'iso_year': ('i32', 1, 9999), 'iso_week': ('u8', 1, 53),
    'off_h': ('i8', -25, 25), 'off_m': ('i8', -59, 59), 'off_s': ('i8', -59, 59),
}
MONTHS = ['January', 'February', 'March', 'April', 'May', 'June', 'July', 'August', 'September', 'October', 'November', 'December']
DAYS = ['Monday', 'Tuesday', 'Wednesday', 'Thursday', 'Friday', 'Saturday', 'Sunday']


def fvar(name):
    ty = FIELDS[name][0]
    return z3.BitVec('ts_' + name, INT_TYPES[ty][0])


def fval(name, W=None):
    """the field as a signed expression of W bits (32 for everything but the unix timestamp)"""
    ty = FIELDS[name][0]; bits, sg = INT_TYPES[ty]
    if W is None: W = 64 if bits == 64 else 32
    v = fvar(name)
    if bits == W: return v
    return z3.SignExt(W - bits, v) if sg else z3.ZeroExt(W - bits, v)


def field_constraints():
    cs = []
    for n, (ty, lo, hi) in FIELDS.items():
        v = fval(n); cs.append(z3.And(v >= lo, v <= hi))
    # an offset has one sign: hours, minutes and seconds are all <= 0 or all >= 0
    h, m, s = fval('off_h'), fval('off_m'), fval('off_s')
    cs.append(z3.Or(z3.And(h >= 0, m >= 0, s >= 0), z3.And(h <= 0, m <= 0, s <= 0)))
    return cs


_PINS = {}


def ts_object():
    def get(st, name):
        log_call(st, 'ts', name)
        if name in _PINS:          # a pinned field is handed to the code as the constant it is assumed to be (the path condition carries field == constant)
            return Int(z3.BitVecVal(_PINS[name], INT_TYPES[FIELDS[name][0]][0]), FIELDS[name][0])
        return Int(fvar(name), FIELDS[name][0])
    def off_handler(ctx, me, args, st):
        m = method_of(ctx.callee)
        h, mi, s = fval('off_h'), fval('off_m'), fval('off_s')
        if m == 'is_negative': return ret(st, Bool(z3.Or(h < 0, mi < 0, s < 0)))
        if m == 'whole_hours': return ret(st, get(st, 'off_h'))
        if m == 'minutes_past_hour': return ret(st, get(st, 'off_m'))
        if m == 'seconds_past_minute': return ret(st, get(st, 'off_s'))
        return None
    def handler(ctx, me, args, st):
        m = method_of(ctx.callee)
        if m in ('year', 'day', 'hour', 'minute', 'second', 'nanosecond', 'ordinal', 'unix_timestamp', 'sunday_based_week', 'monday_based_week'):
            return ret(st, get(st, m))
        if m == 'month': return ret(st, symenum('Month', get(st, 'month')))
        if m == 'weekday': return ret(st, symenum('Weekday', get(st, 'weekday')))
        if m == 'to_iso_week_date': return ret(st, Tup([get(st, 'iso_year'), get(st, 'iso_week'), symenum('Weekday', get(st, 'weekday'))]))
        if m == 'offset': return ret(st, Abs('utcoffset', off_handler))
        return None
    return Abs('timestamp', handler)


# ---------------------------------------------------------------- declarative reference
def c32(e):
    return e if e.size() == 32 else z3.Extract(31, 0, e)


def dec_rows(val, lo, hi):
    """[(cond, negative, digit chars)] for a 64-bit signed expression within [lo, hi]"""
    rows = []
    maxd = len(str(max(abs(lo), abs(hi))))
    for neg in ((False, True) if lo < 0 else (False,)):
        mag = -val if neg else val
        for d in range(1, maxd + 1):
            cond = z3.And((val < 0) if neg else (val >= 0), mag >= (10 ** (d - 1) if d > 1 else 0), mag < 10 ** d)
            digs = [c32(z3.URem(z3.UDiv(mag, z3.BitVecVal(10 ** k, mag.size())), z3.BitVecVal(10, mag.size()))) + 48 for k in range(d - 1, -1, -1)]
            rows.append((cond, neg, digs))
    return rows


NUMERIC = {
    # directive: (value expr builder, lo, hi, default width, default space padding?)
    'Y': (lambda: fval('year'), 1, 9999, 4, False), 'C': (lambda: z3.UDiv(fval('year'), z3.BitVecVal(100, 32)), 0, 99, 2, False), 'y': (lambda: z3.URem(fval('year'), z3.BitVecVal(100, 32)), 0, 99, 2, False),
    'm': (lambda: fval('month'), 1, 12, 2, False), 'd': (lambda: fval('day'), 1, 31, 2, False), 'e': (lambda: fval('day'), 1, 31, 2, True),
    'w': (lambda: z3.URem(fval('weekday') + 1, z3.BitVecVal(7, 32)), 0, 6, 0, False), 'u': (lambda: fval('weekday') + 1, 1, 7, 0, False),
    'U': (lambda: fval('sunday_based_week'), 0, 53, 2, False), 'W': (lambda: fval('monday_based_week'), 0, 53, 2, False),
    'G': (lambda: fval('iso_year'), 1, 9999, 4, False), 'g': (lambda: z3.URem(fval('iso_year'), z3.BitVecVal(100, 32)), 0, 99, 2, False), 'V': (lambda: fval('iso_week'), 1, 53, 2, False),
    'j': (lambda: fval('ordinal'), 1, 366, 3, False), 'H': (lambda: fval('hour'), 0, 23, 2, False), 'k': (lambda: fval('hour'), 0, 23, 2, True),
    'I': (lambda: h12(), 1, 12, 2, False), 'l': (lambda: h12(), 1, 12, 2, True), 'M': (lambda: fval('minute'), 0, 59, 2, False), 'S': (lambda: fval('second'), 0, 59, 2, False),
    's': (lambda: fval('unix_timestamp'), -99_999_999_999, 99_999_999_999, 0, False),
}


def h12():
    h = fval('hour')
    return z3.If(z3.URem(h, 12) == 0, z3.BitVecVal(12, 32), z3.URem(h, 12))


def lit(s): return [ord(c) for c in s]


def name_rows(var, names, cut=None):
    return [(fval(var) == i + (1 if var == 'month' else 0), lit(n[:cut] if cut else n)) for i, n in enumerate(names)]


def _prune(rows):
    """drop the rows of a reference whose condition is false under the pinned fields (exact: the pins are assumptions of the run)"""
    if not _PINS or rows is None: return rows
    sub = [(fvar(n), z3.BitVecVal(v, fvar(n).size())) for n, v in _PINS.items()]
    return [(c, chars) for c, chars in rows if not z3.is_false(z3.simplify(z3.substitute(c, *sub)))]


def reference(directive, flags, width):
    """[(cond, expected chars)] or None when the reference does not cover this combination.
    flags: list of concrete flag chars in order; width: None or a z3 64-bit expression (1..99) or int"""
    no_pad = '-' in flags
    style = 'default'
    for f in flags:
        if f == '_': style = 'space'
        elif f == '0': style = 'zero'
    casing = 'default'
    for f in flags:
        if f == '^': casing = 'upper'
        elif f == '#': casing = 'change'
    def padded(body_len, padchar, w_default, count_rows):
        pass
    widths = [None] if width is None else list(range(1, 20))
    rows = []
    def with_width(f):
        """f(w:int or None) -> [(cond, chars)]; conjoin with width == w"""
        if width is None: return f(None)
        out = []
        for w in range(1, 20):
            for c, chars in f(w): out.append((z3.And(width == w, c), chars))
        return out
    if directive in NUMERIC:
        mk, lo, hi, defw, space_default = NUMERIC[directive]
        val = mk()
        sp = (style == 'space') or (style == 'default' and space_default)
        def f(w):
            out = []
            for cond, neg, digs in dec_rows(val, lo, hi):
                sign = lit('-') if neg else []
                if no_pad: out.append((cond, sign + digs)); continue
                tw = w if w is not None else defw + (1 if neg else 0)
                pad = max(tw - len(sign) - len(digs), 0)
                out.append((cond, ([32] * pad + sign + digs) if sp else (sign + [48] * pad + digs)))
            return out
        return with_width(f)
    if directive in 'aAbBh':
        base = name_rows('weekday', DAYS, 3) if directive == 'a' else name_rows('weekday', DAYS) if directive == 'A' else name_rows('month', MONTHS, 3) if directive in 'bh' else name_rows('month', MONTHS)
        def f(w):
            out = []
            for cond, chars in base:
                s = [ord(chr(c).upper()) for c in chars] if casing != 'default' else chars
                pad = 0 if (w is None or no_pad) else max(w - len(s), 0)
                out.append((cond, [48 if style == 'zero' else 32] * pad + s))
            return out
        return with_width(f)
    if directive in 'pP':
        if (directive == 'P' and casing == 'change'): return None
        upper = (directive == 'p' and casing != 'change') or (directive == 'P' and casing == 'upper')
        am = fval('hour') < 12
        def f(w):
            out = []
            for cond, s in ((am, 'AM' if upper else 'am'), (z3.Not(am), 'PM' if upper else 'pm')):
                pad = 0 if (w is None or no_pad) else max(w - 2, 0)
                out.append((cond, [48 if style == 'zero' else 32] * pad + lit(s)))
            return out
        return with_width(f)
    if directive in '%nt':
        ch = {'%': '%', 'n': '\n', 't': '\t'}[directive]
        def f(w):
            pad = 0 if (w is None or no_pad) else max(w - 1, 0)
            return [(z3.BoolVal(True), [48 if style == 'zero' else 32] * pad + lit(ch))]
        return with_width(f)
    if directive in 'LN':
        nanos = fval('nanosecond')
        def f(w):
            n = w if w is not None else (3 if directive == 'L' else 9)
            # the leading n digits of the 9-digit nanosecond: the decimal digits of floor(nanos / 10^(9-n)), zero-padded to n; beyond 9 digits zeros follow
            q = z3.UDiv(nanos, z3.BitVecVal(10 ** (9 - n), 32)) if n < 9 else nanos
            k = min(n, 9)
            digs = [z3.URem(z3.UDiv(q, z3.BitVecVal(10 ** j, 32)), z3.BitVecVal(10, 32)) + 48 for j in range(k - 1, -1, -1)]
            return [(z3.BoolVal(True), digs + [48] * max(n - 9, 0))]
        return with_width(f)
    if directive in ('z', ':z', '::z', 'Z'):
        h, m, s = fval('off_h'), fval('off_m'), fval('off_s')
        neg = z3.Or(h < 0, m < 0, s < 0)
        def two(v): return [z3.URem(z3.UDiv(v, z3.BitVecVal(10, 32)), z3.BitVecVal(10, 32)) + 48, z3.URem(v, z3.BitVecVal(10, 32)) + 48]
        ah, am, as_ = z3.If(h < 0, -h, h), z3.If(m < 0, -m, m), z3.If(s < 0, -s, s)
        def f(w):
            tail = (lit(':') if directive != 'z' else []) + two(am) + ((lit(':') + two(as_)) if directive == '::z' else [])
            body_len = 1 + 2 + len(tail)
            pad = 0 if w is None else max(w - body_len, 0)
            if style != 'space':        # `-` is not honoured by z (documented in the code); zero padding sits between the sign and the hours
                return [(neg, lit('-') + [48] * pad + two(ah) + tail), (z3.Not(neg), lit('+') + [48] * pad + two(ah) + tail)]
            # `_`: the sign of the OFFSET (not of the hour field: -00:30 is negative), hours without a leading zero, blanks in front up to the requested width
            rows = []
            for sg, sc in ((neg, '-'), (z3.Not(neg), '+')):
                rows.append((z3.And(sg, z3.UGE(ah, 10)), [32] * max(pad - 1, 0) + lit(sc) + two(ah) + tail))
                rows.append((z3.And(sg, z3.ULT(ah, 10)), [32] * pad + lit(sc) + [z3.URem(ah, z3.BitVecVal(10, 32)) + 48] + tail))
            return rows
        return with_width(f)
    COMPOSITE = {'F': ['Y', '-', 'm', '-', 'd'], 'R': ['H', ':', 'M'], 'T': ['H', ':', 'M', ':', 'S'], 'X': ['H', ':', 'M', ':', 'S'], 'D': ['m', '/', 'd', '/', 'y'], 'x': ['m', '/', 'd', '/', 'y'],
                 'r': ['I', ':', 'M', ':', 'S', ' ', 'p'], 'c': ['a', ' ', 'b', ' ', 'e', ' ', 'H', ':', 'M', ':', 'S', ' ', 'Y'], 'v': ['e', '-', '^b', '-', 'Y']}
    if directive in COMPOSITE:
        if any(f in '-_' for f in flags): return None
        parts = []
        for p in COMPOSITE[directive]:
            if p in '-:/ ' and len(p) == 1: parts.append([(z3.BoolVal(True), lit(p))])
            elif p == '^b': parts.append(_prune(reference('b', ['^'], None)))
            else: parts.append(_prune(reference(p, [], None)))
        combos = []
        for combo in itertools.product(*parts):
            cond = z3.And(*[c for c, _ in combo]); chars = [x for _, cs_ in combo for x in cs_]
            if casing != 'default': chars = [(ord(chr(x).upper()) if isinstance(x, int) else x) for x in chars]
            combos.append((cond, chars))
        nominal = {'F': 10, 'R': 5, 'T': 8, 'X': 8, 'D': 8, 'x': 8, 'r': 11, 'c': 24, 'v': 11}[directive]
        def f(w):
            pad = 0 if w is None else max(w - nominal, 0)
            return [(c, [48 if style == 'zero' else 32] * pad + chars) for c, chars in combos]
        return with_width(f)
    return None


KNOWN = list('YCymdewuUWGgVjHkIlMSsbhBaApPFvRDxTXrc%ntLNzZ') + [':z', '::z']
FLAGS = '-_0^#'


def fmt_shapes(tier):
    """(flag count, width kind) combinations"""
    if tier == 'quick': return [(0, None), (0, 'digit'), (1, None), (1, 'digit')]
    return [(0, None), (0, 'digit'), (0, 'teen'), (1, None), (1, 'digit'), (2, None)]


def run_strftime(ex, P, st, fmt_chars_):
    fn = P.find(r'^fn strftime\(', 'core')
    yield from ex.run(fn, [ts_object(), st.ref(StrV(fmt_chars_, 'str'))], st)


def model_fmt(m, chars):
    return ''.join(chr(c) if isinstance(c, int) else chr(m.eval(c, model_completion=True).as_long()) for c in chars)


def model_fields(m):
    out = {}
    for n, (ty, lo, hi) in FIELDS.items():
        v = m.eval(fvar(n), model_completion=True)
        out[n] = v.as_signed_long() if INT_TYPES[ty][1] else v.as_long()
    return out


CANONICAL = [dict(year=2022, month=1, day=2, hour=12, minute=0, second=0, nanosecond=5_000_000, off_h=0, off_m=0),
             dict(year=2024, month=2, day=29, hour=0, minute=5, second=9, nanosecond=1, off_h=-5, off_m=-30),
             dict(year=2023, month=12, day=31, hour=23, minute=59, second=59, nanosecond=999_999_999, off_h=14, off_m=0),
             dict(year=1969, month=7, day=20, hour=13, minute=7, second=3, nanosecond=120_000, off_h=5, off_m=45)]


def expected_from_fields(directive, flags, width, fields):
    """evaluate the declarative reference on concrete (native) field values"""
    rows = reference(directive, flags, z3.BitVecVal(width, 32) if width is not None else None)
    if rows is None: return None
    sub = []
    for n in FIELDS:
        key = {'off_h': 'off_h', 'off_m': 'off_m', 'off_s': 'off_s'}.get(n, n)
        if key in fields:
            sub.append((fvar(n), z3.BitVecVal(int(fields[key]), fvar(n).size())))
    for cond, chars in rows:
        c = z3.simplify(z3.substitute(cond, *sub))
        if z3.is_true(c):
            out = ''
            for x in chars:
                if isinstance(x, int): out += chr(x)
                else: out += chr(z3.simplify(z3.substitute(x, *sub)).as_long())
            return out
    return None


def ob_directives(chk, P, only=None, name='strftime/directives', pins=None):
    """only: None (all directives, tier-dependent shapes) or [(directive, nflags, wkind, flag characters)] for a targeted run"""
    quick = chk.tier == 'quick'
    with chk.obligation(name, 'every known directive prints the documented value of its field: numeric directives as decimal numbers with the documented default width and padding '
                        '(zero, or space for %e %k %l), `-` removes padding, `_`/`0` choose the padding character, an explicit width overrides the default; names and AM/PM honour ^ and #; '
                        '%L/%N print the leading digits of the 9-digit nanosecond; %z family prints sign, hours, minutes(, seconds); composites equal their expansion; no panic',
                        {'format': "'%' + flags from -_0^# (solver-chosen; quick: 0..1, thorough: 0..2, two flags only without width) + no width | one symbolic digit 1-9 | (thorough, no flags) 1 + a symbolic digit, + each of the known directives",
                         'timestamp': 'every accessor returns any value in its documented range (year 1..9999, |unix timestamp| < 10^11, offsets within +-25:59:59); relations between fields are not assumed'}) as ob:
        ex = Executor(P, models_with([])); ex.seed = chk.seed; ex.max_steps = 200000
        ob.stubs += ['time::OffsetDateTime accessors: symbolic values within documented ranges (abstract timestamp)', 'time::Weekday / Month: enums with a symbolic discriminant']
        ob.assumptions += ['field ranges as documented by the time crate; fields are independent symbolic values (over-approximation of real timestamps), violations are confirmed on real timestamps natively']
        cases = only if only is not None else [(d, nf, wk, FLAGS) for d in KNOWN for nf, wk in fmt_shapes(chk.tier)]
        for directive, nflags, wkind, flagset in cases:
            if True:
                if only is None and directive in 'cvr' and quick and (nflags, wkind) != (0, None): continue      # many fields: only the plain form in the quick tier
                if only is None and directive in 'YGygC' and quick and wkind is not None: continue              # 64-bit year arithmetic: explicit widths only in the thorough tier
                if only is None and directive in 'sc' and quick: continue                                       # up to 11-digit timestamps / 7 fields: thorough tier
                st = State()
                for c in field_constraints(): st.assume(c)
                _PINS.clear(); _PINS.update(pins or {})
                for pn, pv in (pins or {}).items(): st.assume(fval(pn) == pv)
                fl = [z3.BitVec(f'flag{i}', 32) for i in range(nflags)]
                for f in fl: st.assume(z3.Or(*[f == ord(x) for x in flagset]))
                wd = z3.BitVec('wdigit', 32)
                wchars = []; width = None
                if wkind == 'digit':
                    st.assume(z3.And(z3.UGE(wd, 49), z3.ULE(wd, 57))); wchars = [wd]; width = wd - 48
                elif wkind == 'teen':
                    st.assume(z3.And(z3.UGE(wd, 48), z3.ULE(wd, 57))); wchars = [ord('1'), wd]; width = wd - 48 + 10
                fmt = [ord('%')] + fl + wchars + lit(directive)
                refcache = {}
                for s2, kind, val in run_strftime(ex, P, st, fmt):
                    ob.paths += 1; ob.reached()
                    m0 = ob.decide(ex, s2.conds, z3.BoolVal(True))
                    flags = [chr(m0.eval(f, model_completion=True).as_long()) for f in fl]      # flags are path-concrete (the parser branched on them)
                    def report(role, what, m):
                        fs = model_fmt(m, fmt); fields = model_fields(m)
                        wv = (m.eval(width, model_completion=True).as_long() if width is not None else None)
                        flg = [chr(m.eval(f, model_completion=True).as_long()) for f in fl]
                        def conf(r, flg=flg, wv=wv):
                            if r.get('outcome') == 'panic': return True
                            if r.get('outcome') != 'ok': return True
                            exp = expected_from_fields(directive, flg, wv, r.get('fields', {}))
                            return exp is not None and r.get('output') != exp
                        sc0 = dict(kind='strftime', fmt=fs, **{k: fields[k] for k in ('year', 'month', 'day', 'hour', 'minute', 'second', 'nanosecond', 'off_h', 'off_m', 'off_s')})
                        ob.violation(role, f'{what}: format {fs!r} with {fields}', {'format': fs, 'fields': fields}, sc0, conf)
                        for cf in CANONICAL:       # the abstract fields are independent; also try real calendar dates that separate look-alike fields
                            ob.violation(role, f'{what}: format {fs!r} (canonical date {cf["year"]}-{cf["month"]}-{cf["day"]})', {'format': fs, 'fields': cf}, dict(kind='strftime', fmt=fs, **cf), conf)
                    if kind == 'panic':
                        report(f'strftime/%{directive}/panic', f'strftime panics ({val})', m0); continue
                    if val.variant != 'Ok':
                        report(f'strftime/%{directive}/error', f'strftime fails on a well-formed format: {val}', m0); continue
                    res = list(s2.deref_all(val.items[0]).chars)
                    key = tuple(flags)
                    if key not in refcache: refcache[key] = reference(directive, flags, width)
                    rows = refcache[key]
                    if rows is None:
                        ob.decide(ex, s2.conds, z3.BoolVal(False)); continue
                    good = [z3.And(c, eq_chars(res, chars)) for c, chars in rows if len(chars) == len(res)]
                    m = ob.decide(ex, s2.conds, z3.Not(z3.Or(*good)) if good else z3.BoolVal(True))
                    if m is not None:
                        report(f'strftime/%{directive}/wrong-output', f'strftime prints {model_fmt(m, res)!r}', m)
            ob.sample({'directive': directive})
        ob.absorb(ex)


def ob_unknown_and_errors(chk, P):
    with chk.obligation('strftime/unknown-and-malformed', "text outside directives is copied; an unknown directive is echoed unchanged ('%' through the unknown character); a format that ends inside a directive "
                        "('%', '%5', '%-', '%E') is an error; nothing panics, whatever characters surround or follow the '%'",
                        {'format': "c0 '%' f? c1 c2 with c0, c1, c2 any Unicode scalar value (or absent) and f an optional flag", 'timestamp': 'abstract, as in strftime/directives'}) as ob:
        ex = Executor(P, models_with([])); ex.seed = chk.seed; ex.max_steps = 200000
        known_first = set(ord(k[0]) for k in KNOWN) | set(ord(c) for c in 'EO:') | set(ord(c) for c in FLAGS) | set(range(48, 58))
        for pre, nflag, post in itertools.product((0, 1), (0, 1), (0, 1, 2)):
            st = State()
            for c in field_constraints(): st.assume(c)
            cs_pre = [z3.BitVec(f'p{i}', 32) for i in range(pre)]
            fl = [z3.BitVec(f'flag{i}', 32) for i in range(nflag)]
            cs_post = [z3.BitVec(f'q{i}', 32) for i in range(post)]
            for c in cs_pre + cs_post: st.assume(valid_char(c))
            for c in cs_pre: st.assume(c != ord('%'))
            for f in fl: st.assume(z3.Or(*[f == ord(x) for x in FLAGS]))
            if cs_post: st.assume(z3.And(*[cs_post[0] != k for k in sorted(known_first)]))      # known directives: see strftime/directives
            fmt = cs_pre + [ord('%')] + fl + cs_post
            for s2, kind, val in run_strftime(ex, P, st, fmt):
                ob.paths += 1; ob.reached()
                def report(role, what, m):
                    fs = model_fmt(m, fmt)
                    ob.violation(role, f'{what}: format {fs!r}', {'format': fs}, dict(kind='strftime', fmt=fs, **CANONICAL[0]),
                                 (lambda r: r.get('outcome') == 'panic') if 'panic' in role else (lambda r: r.get('outcome') != 'err') if 'accepted' in role else (lambda r, fs=fs: r.get('outcome') != 'ok' or r.get('output') != fs))
                if kind == 'panic':
                    m = ob.decide(ex, s2.conds, z3.BoolVal(True))
                    # prefer an ASCII witness; a panic that needs a multi-byte character is a different role
                    ma = ob.decide(ex, s2.conds + [z3.ULT(c, 128) for c in cs_pre + cs_post], z3.BoolVal(True))
                    report('strftime/panic' + ('' if ma is not None else '/multi-byte-character-after-%'), f'strftime panics ({val})', ma if ma is not None else m); continue
                if post == 0:
                    # the format ends right after '%' (and flags): must be an error
                    if val.variant != 'Err': report('strftime/malformed-accepted', f'strftime accepts a format that ends inside a directive: {val}', ob.decide(ex, s2.conds, z3.BoolVal(True)))
                    else: ob.decide(ex, s2.conds, z3.BoolVal(False))
                    continue
                # echo: when the character after the flags is not a known directive/modifier/digit, the output is the format itself
                unknown = z3.And(*[cs_post[0] != k for k in sorted(known_first)])
                if val.variant == 'Ok':
                    res = list(s2.deref_all(val.items[0]).chars)
                    exp = fmt if post == 1 else None
                    if post == 2:
                        # second trailing char: literal unless it is '%' (which would start a new, unfinished directive -> error)
                        exp = fmt
                        unknown = z3.And(unknown, cs_post[1] != ord('%'))
                    m = ob.decide(ex, s2.conds, z3.And(unknown, z3.Not(eq_chars(res, exp))))
                    if m is not None: report('strftime/unknown-not-echoed', f'strftime prints {model_fmt(m, res)!r}', m)
                else:
                    m = ob.decide(ex, s2.conds, unknown if post == 1 else z3.And(unknown, cs_post[1] != ord('%')))
                    if m is not None: report('strftime/unknown-rejected', f'strftime fails: {val}', m)
            ob.sample({'shape': (pre, nflag, post)})
        ob.absorb(ex)


def ob_display_subsecond(chk, P):
    with chk.obligation('DateTime::fmt/sub-second', 'the default printed form of a date-time carries its sub-second part exactly when that part is not zero (so that printing and parsing back denotes the same instant): '
                        'the format with [subsecond] is chosen iff nanosecond != 0', {'nanosecond': 'any value 0..999999999 (millisecond and microsecond accessors are its quotients)'}) as ob:
        ex = Executor(P, models_with([])); ex.seed = chk.seed
        fn = P.find(r'^fn datetime::<impl at crates/core/src/model/scalar/datetime.rs:\d+:1: \d+:\d+>::fmt\(_1: &datetime::DateTime, _2: &mut Formatter', 'core')     # the hand-written impl (derives start in column 5)
        nanos = fvar('nanosecond')
        def ts_handler(ctx, me, args, st):
            m = method_of(ctx.callee)
            if m == 'nanosecond': return ret(st, Int(nanos, 'u32'))
            if m == 'microsecond': return ret(st, Int(z3.UDiv(nanos, z3.BitVecVal(1000, 32)), 'u32'))
            if m == 'millisecond': return ret(st, Int(z3.Extract(15, 0, z3.UDiv(nanos, z3.BitVecVal(1_000_000, 32))), 'u16'))
            if m == 'format':
                f = st.deref_all(args[1])
                log_call(st, 'format', f.tag if isinstance(f, Opaque) else repr(f))
                return ret(st, Ok(StrV('printed', 'String')))
            return None
        def fm_handler(ctx, me, args, st):
            if method_of(ctx.callee) in ('write_fmt', 'write_str'): return ret(st, Ok(UNIT))
            return None
        # the two format descriptions are opaque tokens (their contents belong to the time crate); which one is passed to format() is what is checked
        from mirsym.models import CONST_MODELS
        CONST_MODELS['model::scalar::datetime::DATE_TIME_FORMAT'] = lambda st_: Opaque(('FORMAT', 'plain'))
        CONST_MODELS['model::scalar::datetime::DATE_TIME_FORMAT_SUBSEC'] = lambda st_: Opaque(('FORMAT', 'SUBSEC'))
        st = State(); st.assume(z3.ULE(nanos, 999_999_999))
        dt = st.ref(Adt('DateTime', None, [Abs('timestamp', ts_handler)], ['inner']))
        for s2, kind, val in ex.run(fn, [dt, st.ref(Abs('formatter', fm_handler), True)], st):
            ob.paths += 1; ob.reached()
            used = [c[1] for c in calls(s2, 'format')]
            subsec = bool(used) and 'SUBSEC' in repr(used[0])
            bad = (nanos == 0) if subsec else (nanos != 0)
            if kind != 'ret' or len(used) != 1: bad = z3.BoolVal(True)
            m = ob.decide(ex, s2.conds, bad)
            if m is not None:
                nv = m.eval(nanos, model_completion=True).as_long()
                ob.violation('display/sub-second-' + ('dropped' if not subsec else 'spurious'), f'DateTime with nanosecond {nv} is printed with format {used}', {'nanosecond': nv},
                             dict(kind='datetime_roundtrip', nanosecond=nv), lambda r: r.get('outcome') != 'ok' or not r.get('same'))
        ob.absorb(ex)


def run(chk):
    P = chk.program(('core',))
    ob_display_subsecond(chk, P)
    ob_unknown_and_errors(chk, P)
    ob_directives(chk, P)
    if chk.tier == 'quick':
        # flags and widths on the composite directives (thorough: part of the full sweep with all fields symbolic); numeric fields pinned so that the names and the flag handling are what varies
        ob_directives(chk, P, only=[(d, nf, wk, '^#0') for d in 'cvr' for nf, wk in ((1, None), (1, 'digit'))] + [('c', 0, None, '^#')], name='strftime/composites-flags',
                      pins={'year': 2022, 'day': 3, 'hour': 7, 'minute': 56, 'second': 37})
    kani_runner.obligations(chk, C17_SPECS, chk.tier)
