"""C17 -- dates: comparison is chronological regardless of offset (facet; strftime facets: see DESIGN.md)."""
from vlib import kani_runner
from checks.kani_specs import C17_SPECS


def run(chk):
    kani_runner.obligations(chk, C17_SPECS, chk.tier)
