"""C15 -- arithmetic filters are exact or fail; they never wrap or crash."""
import math, re
import z3
from mirsym.exec import Executor, State, Unsupported
from mirsym.values import *
from checks.common import *

F64 = z3.Float64()
RNE = z3.RNE()
I64_MIN, I64_MAX = -(1 << 63), (1 << 63) - 1


class Operand:
    """one abstract scalar operand: kind + the symbolic integer / float it denotes"""

    def __init__(self, name, kind):
        self.name, self.kind = name, kind
        self.i = z3.BitVec(name + '_i', 64)
        self.f = z3.FP(name + '_f', F64)
        self.as_int = None    # z3 BV if `to_integer` is Some
        self.as_flt = None    # z3 FP if `to_float` is Some
        if kind == 'int':
            self.as_int = self.i; self.as_flt = z3.fpSignedToFP(RNE, self.i, F64)
            self.value = value_scalar(scalar_int(Int(self.i, 'i64')))
        elif kind == 'float':
            self.as_flt = self.f
            self.value = value_scalar(scalar_float(Float(self.f)))
        elif kind in ('str_int', 'str_float', 'str_nan'):
            # numeric string: parse::<i64>/<f64> results are symbolic; an integer-looking string also parses as the same float
            if kind == 'str_int':
                self.as_int = self.i; self.as_flt = z3.fpSignedToFP(RNE, self.i, F64)
                facts = {'name': name, 'parse_i64': Ok(Int(self.i, 'i64')), 'parse_f64': Ok(Float(self.as_flt))}
            elif kind == 'str_float':
                self.as_flt = self.f
                facts = {'name': name, 'parse_i64': Err(Opaque(('ParseIntError',))), 'parse_f64': Ok(Float(self.f))}
            else:
                facts = {'name': name, 'parse_i64': Err(Opaque(('ParseIntError',))), 'parse_f64': Err(Opaque(('ParseFloatError',)))}
            self.value = value_scalar(Adt('ScalarCow', None, [Adt('ScalarCowEnum', 'Str', [StrV((), 'KStringCow', facts)])]))
        elif kind == 'bool':
            self.value = value_scalar(scalar_bool(Bool(z3.Bool(name + '_b'))))
        elif kind == 'nil':
            self.value = VALUE_NIL
        else:
            raise ValueError(kind)

    def concrete(self, m):
        """python value for the replay scenario"""
        if self.kind == 'int': return m.eval(self.i, model_completion=True).as_signed_long()
        if self.kind == 'float': return fp_to_py(m.eval(self.f, model_completion=True))
        if self.kind == 'str_int': return str(m.eval(self.i, model_completion=True).as_signed_long())
        if self.kind == 'str_float':
            v = fp_to_py(m.eval(self.f, model_completion=True))
            return repr(v) if not (math.isinf(v) or math.isnan(v)) else ('inf' if v > 0 else '-inf' if v < 0 else 'NaN')
        if self.kind == 'str_nan': return 'abc'
        if self.kind == 'bool': return bool(z3.is_true(m.eval(z3.Bool(self.name + '_b'), model_completion=True)))
        return None


def fp_to_py(v):
    return fp_to_float(v)


def expr_stub(value):
    def handler(ctx, me, args, st):
        if method_of(ctx.callee) in ('evaluate', 'try_evaluate'):
            return ret(st, Ok(Adt('ValueCow', 'Owned', [value])))
        return None
    return Abs('expression', handler)


def result_of(val):
    """-> ('int', BV) | ('float', FP) | ('err',) | ('other', repr)"""
    if val.variant == 'Err': return ('err',)
    v = val.items[0]
    if isinstance(v, Adt) and v.ty == 'Value' and v.variant == 'Scalar':
        inner = v.items[0].items[0]
        if inner.variant == 'Integer': return ('int', inner.items[0].e)
        if inner.variant == 'Float': return ('float', inner.items[0].e)
    return ('other', repr(v))


def wide(x): return z3.SignExt(64, x)


def fits(w): return z3.And(w >= z3.BitVecVal(I64_MIN, 128), w <= z3.BitVecVal(I64_MAX, 128))


BIN = {
    'plus': ('PlusFilter', 'PlusArgs', lambda a, b: wide(a) + wide(b), lambda x, y: z3.fpAdd(RNE, x, y)),
    'minus': ('MinusFilter', 'MinusArgs', lambda a, b: wide(a) - wide(b), lambda x, y: z3.fpSub(RNE, x, y)),
    'times': ('TimesFilter', 'TimesArgs', lambda a, b: wide(a) * wide(b), lambda x, y: z3.fpMul(RNE, x, y)),
    'at_least': ('AtLeastFilter', 'AtLeastArgs', lambda a, b: z3.If(wide(a) >= wide(b), wide(a), wide(b)), None),
    'at_most': ('AtMostFilter', 'AtMostArgs', lambda a, b: z3.If(wide(a) <= wide(b), wide(a), wide(b)), None),
    'divided_by': ('DividedByFilter', 'DividedByArgs', None, lambda x, y: z3.fpDiv(RNE, x, y)),
    'modulo': ('ModuloFilter', 'ModuloArgs', None, None),
}
KINDS = ('int', 'float', 'str_int', 'str_float', 'str_nan', 'bool', 'nil')


def fmax(x, y): return z3.If(z3.fpIsNaN(x), y, z3.If(z3.fpIsNaN(y), x, z3.If(z3.fpGT(x, y), x, y)))


def fmin(x, y): return z3.If(z3.fpIsNaN(x), y, z3.If(z3.fpIsNaN(y), x, z3.If(z3.fpLT(x, y), x, y)))


def py_expected(name, a, b):
    """independent reference for the replay: python big ints / IEEE doubles. returns ('int', n) | ('float', x) | ('err',) | ('either-err-or-float', x)"""
    def num(v):
        if isinstance(v, bool) or v is None: return None, None
        if isinstance(v, int): return v, float(v)
        if isinstance(v, float): return None, v
        if isinstance(v, str):
            i = int(v) if re.match(r'^[+-]?\d+$', v) and I64_MIN <= int(v) <= I64_MAX else None
            try: f = float(v) if re.match(r'^[+-]?(?:inf|infinity|nan|(?:\d+\.?\d*|\.\d+)(?:[eE][+-]?\d+)?)$', v, re.I) else None
            except ValueError: f = None
            return i, f
        return None, None
    ai, af = num(a); bi, bf = num(b) if name != 'abs' else (0, 0.0)
    if name == 'abs':
        if ai is not None: return ('int', abs(ai)) if abs(ai) <= I64_MAX else ('either-err-or-float', float(abs(ai)))
        return ('float', abs(af)) if af is not None else ('err',)
    if name in ('divided_by', 'modulo'):
        if bi is not None and bi == 0: return ('err',)
        if bi is None and bf is not None and bf == 0.0: return ('err',)
    if ai is not None and bi is not None:
        if name == 'plus': r = ai + bi
        elif name == 'minus': r = ai - bi
        elif name == 'times': r = ai * bi
        elif name == 'at_least': r = max(ai, bi)
        elif name == 'at_most': r = min(ai, bi)
        elif name == 'divided_by': r = abs(ai) // abs(bi) * (1 if (ai >= 0) == (bi >= 0) else -1)
        elif name == 'modulo': r = (abs(ai) % abs(bi)) * (1 if ai >= 0 else -1)
        if I64_MIN <= r <= I64_MAX: return ('int', r)
        return ('either-err-or-float', float(r))
    if af is not None and bf is not None:
        try:
            if name == 'plus': r = af + bf
            elif name == 'minus': r = af - bf
            elif name == 'times': r = af * bf
            elif name == 'at_least': r = bf if math.isnan(af) else af if math.isnan(bf) else max(af, bf)
            elif name == 'at_most': r = bf if math.isnan(af) else af if math.isnan(bf) else min(af, bf)
            elif name == 'divided_by': r = af / bf if bf != 0 else (float('nan') if af == 0 or math.isnan(af) else math.copysign(float('inf'), af) * math.copysign(1, bf))
            elif name == 'modulo': r = math.fmod(af, bf) if not (math.isinf(af) or bf == 0) else float('nan')
        except OverflowError:
            r = float('inf')
        return ('float', r)
    return ('err',)


def native_matches(res, exp):
    """does the native result agree with the python reference?"""
    if res.get('outcome') == 'panic' or res.get('outcome') in ('crash', 'timeout'): return False
    if exp[0] == 'err': return res.get('outcome') == 'err'
    if exp[0] == 'either-err-or-float' and res.get('outcome') == 'err': return True
    if res.get('outcome') != 'ok': return False
    out = res.get('output', '')
    if exp[0] == 'int':
        return out == str(exp[1])
    try:
        got = float(out.replace('NaN', 'nan'))
    except ValueError:
        return False
    e = exp[1]
    if math.isnan(e): return math.isnan(got)
    return got == e and (e != 0 or math.copysign(1, got) == math.copysign(1, e))


def ob_binary(chk, P, name):
    filt, argsty, int_spec, flt_spec = BIN[name]
    with chk.obligation(f'{name}/evaluate', f'{name}: integer result exact when it fits (else error or IEEE double), float path = IEEE result of the same operation, '
                        'non-numbers rejected, zero divisor rejected, no panic, no wrapped value',
                        {'input,operand': 'every kind in {i64, f64, integer-string, float-string, non-numeric string, bool, nil} x all 2^64 values each'}) as ob:
        fn = P.find_method(filt, 'evaluate', 'Filter', 'lib')
        ex = Executor(P, ALL_MODELS_()); ex.seed = chk.seed
        ob.stubs += ['operand Expression::evaluate: returns the abstract operand value', 'str::parse::<i64|f64>: symbolic results (an integer-looking string also parses as the same float)']
        ob.assumptions += ['error-message construction neither panics nor has effects (context/trace closures not executed)']
        for ka in KINDS:
            for kb in KINDS:
                a = Operand('a', ka); b = Operand('b', kb)
                st = State()
                self_ = st.ref(Adt(filt, None, [Adt(argsty, None, [expr_stub(b.value)])]))
                inp = st.ref(a.value)
                rt = st.ref(Opaque(('RUNTIME',)))
                for s2, kind_, val in ex.run(fn, [self_, inp, rt], st):
                    ob.paths += 1; ob.reached()
                    def witness(m):
                        av, bv = a.concrete(m), b.concrete(m)
                        return av, bv
                    def report(role, what, m):
                        av, bv = witness(m)
                        exp = py_expected(name, av, bv)
                        sc = {'kind': 'template', 'template': '{{ a | ' + name + ': b }}', 'globals': {'a': av, 'b': bv}}
                        if any(isinstance(x, float) and (math.isnan(x) or math.isinf(x)) for x in (av, bv)):
                            sc = None   # JSON cannot carry NaN/inf as numbers
                        ob.violation(role, f'{what}: {av!r} | {name}: {bv!r}', {'input': repr(av), 'operand': repr(bv), 'kinds': [ka, kb], 'expected': repr(exp)},
                                     sc, lambda res, e=exp: not native_matches(res, e))
                    if kind_ == 'panic':
                        m = ob.decide(ex, s2.conds, z3.BoolVal(True))
                        cls = 'overflow' if 'overflow' in str(val) else ('div-zero' if 'zero' in str(val) else 'panic')
                        report(f'{name}/panic/{cls}/{ka}x{kb}' if cls == 'panic' else f'{name}/panic/{cls}', f'{name} panics ({val})', m)
                        continue
                    r = result_of(val)
                    # ---- specification
                    ai, bi, af, bf = a.as_int, b.as_int, a.as_flt, b.as_flt
                    ok = None
                    zero_div = None
                    if name in ('divided_by', 'modulo'):
                        if bi is not None: zero_div = (bi == 0)
                        elif bf is not None: zero_div = z3.fpIsZero(bf)
                    if ai is not None and bi is not None:
                        if name in ('divided_by', 'modulo'):
                            ovf = z3.And(ai == z3.BitVecVal(I64_MIN, 64), bi == z3.BitVecVal(-1, 64))
                            exact = (ai / bi) if name == 'divided_by' else z3.SRem(ai, bi)
                            if r[0] == 'int': ok = z3.And(bi != 0, z3.Or(z3.And(z3.Not(ovf), r[1] == exact), z3.And(ovf, name == 'modulo', r[1] == 0)))
                            elif r[0] == 'err': ok = z3.Or(bi == 0, ovf)
                            elif r[0] == 'float': ok = z3.And(ovf, r[1] == (z3.fpDiv(RNE, af, bf) if name == 'divided_by' else z3.FPVal(0.0, F64)))
                        else:
                            if name == 'times':
                                # 128-bit symbolic multiplication stalls the bit-blaster: state 'fits' with the overflow predicates instead
                                fit = z3.And(z3.BVMulNoOverflow(ai, bi, True), z3.BVMulNoUnderflow(ai, bi))
                                if r[0] == 'int': ok = z3.And(fit, r[1] == ai * bi)
                                elif r[0] == 'err': ok = z3.Not(fit)
                                elif r[0] == 'float': ok = z3.And(z3.Not(fit), r[1] == flt_spec(af, bf))
                                m = ob.decide(ex, s2.conds, z3.Not(ok))
                                if m is not None: report(f'{name}/wrong-result/{ka}x{kb}', f'{name} returns {r[0]}', m)
                                else: ob.sample({'kinds': [ka, kb], 'result_kind': r[0]})
                                continue
                            w = int_spec(ai, bi)
                            if r[0] == 'int': ok = z3.And(fits(w), wide(r[1]) == w)
                            elif r[0] == 'err': ok = z3.Not(fits(w))
                            elif r[0] == 'float':
                                fexp = flt_spec(af, bf) if flt_spec else (fmax(af, bf) if name == 'at_least' else fmin(af, bf))
                                ok = z3.And(z3.Not(fits(w)), r[1] == fexp)
                    elif af is not None and bf is not None:
                        if name == 'modulo':
                            from mirsym.models.nums import FMOD
                            fexp = FMOD(af, bf)
                        elif flt_spec: fexp = flt_spec(af, bf)
                        else: fexp = fmax(af, bf) if name == 'at_least' else fmin(af, bf)
                        if r[0] == 'float':
                            ok = (r[1] == fexp) if fexp is not None else z3.BoolVal(True)
                            if zero_div is not None: ok = z3.And(ok, z3.Not(zero_div))
                        elif r[0] == 'err': ok = zero_div if zero_div is not None else z3.BoolVal(False)
                        else: ok = z3.BoolVal(False)
                    else:
                        ok = z3.BoolVal(r[0] == 'err')
                    if ok is None: ok = z3.BoolVal(False)
                    m = ob.decide(ex, s2.conds, z3.Not(ok))
                    if m is not None:
                        got = r[0] if r[0] in ('err', 'other') else f'{r[0]} {m.eval(r[1], model_completion=True)}'
                        report(f'{name}/wrong-result/{ka}x{kb}', f'{name} returns {got}', m)
                    else:
                        ob.sample({'kinds': [ka, kb], 'result_kind': r[0]})
        ob.absorb(ex)


def ALL_MODELS_():
    from mirsym.models import ALL_MODELS
    return ALL_MODELS


def ob_abs(chk, P):
    with chk.obligation('abs/evaluate', 'abs: |x| exact for integers when it fits (else error or double), IEEE abs for floats, non-numbers rejected, no panic',
                        {'input': 'every kind x all values'}) as ob:
        fn = P.find_method('AbsFilter', 'evaluate', 'Filter', 'lib')
        ex = Executor(P, ALL_MODELS_()); ex.seed = chk.seed
        for ka in KINDS:
            a = Operand('a', ka)
            st = State()
            for s2, kind_, val in ex.run(fn, [st.ref(Adt('AbsFilter', None, [])), st.ref(a.value), st.ref(Opaque(('RUNTIME',)))], st):
                ob.paths += 1; ob.reached()
                def report(role, what, m):
                    av = a.concrete(m); exp = py_expected('abs', av, None)
                    sc = {'kind': 'template', 'template': '{{ a | abs }}', 'globals': {'a': av}}
                    if isinstance(av, float) and (math.isnan(av) or math.isinf(av)): sc = None
                    ob.violation(role, f'{what}: {av!r} | abs', {'input': repr(av), 'kind': ka, 'expected': repr(exp)}, sc, lambda res, e=exp: not native_matches(res, e))
                if kind_ == 'panic':
                    report('abs/panic/overflow' if 'overflow' in str(val) else f'abs/panic/{ka}', f'abs panics ({val})', ob.decide(ex, s2.conds, z3.BoolVal(True))); continue
                r = result_of(val)
                if a.as_int is not None:
                    mn = a.as_int == z3.BitVecVal(I64_MIN, 64)
                    if r[0] == 'int': ok = z3.And(z3.Not(mn), r[1] == z3.If(a.as_int < 0, -a.as_int, a.as_int))
                    elif r[0] == 'err': ok = mn
                    elif r[0] == 'float': ok = z3.And(mn, r[1] == z3.fpAbs(a.as_flt))
                    else: ok = z3.BoolVal(False)
                elif a.as_flt is not None:
                    ok = (r[1] == z3.fpAbs(a.as_flt)) if r[0] == 'float' else z3.BoolVal(False)
                else:
                    ok = z3.BoolVal(r[0] == 'err')
                m = ob.decide(ex, s2.conds, z3.Not(ok))
                if m is not None: report(f'abs/wrong-result/{ka}', f'abs returns {r[0]}', m)
                else: ob.sample({'kind': ka, 'result_kind': r[0]})
        ob.absorb(ex)


def ob_rounding(chk, P, name):
    filt = {'ceil': 'CeilFilter', 'floor': 'FloorFilter', 'round': 'RoundFilter'}[name]
    rm = {'ceil': z3.RTP(), 'floor': z3.RTN(), 'round': z3.RNA()}[name]
    with chk.obligation(f'{name}/evaluate', f'{name}: the neighbouring integer in the documented direction (round: ties away from zero) for every double with |x| < 2^63; '
                        'non-numbers rejected; no panic for any double' + ('; with n decimal places: (x*10^n).round()/10^n' if name == 'round' else ''),
                        {'input': 'every kind x all values', 'decimal places (round)': 'absent, -1, 0, 1, 2, 3'}) as ob:
        fn = P.find_method(filt, 'evaluate', 'Filter', 'lib')
        ex = Executor(P, ALL_MODELS_()); ex.seed = chk.seed
        places = [None] if name != 'round' else [None, -1, 0, 1, 2, 3]
        for ka in KINDS:
            for n in places:
                a = Operand('a', ka)
                st = State()
                if name == 'round':
                    argv = NONE if n is None else Some(expr_stub(value_scalar(scalar_int(n))))
                    self_ = st.ref(Adt(filt, None, [Adt('RoundArgs', None, [argv])]))
                else:
                    self_ = st.ref(Adt(filt, None, []))
                for s2, kind_, val in ex.run(fn, [self_, st.ref(a.value), st.ref(Opaque(('RUNTIME',)))], st):
                    ob.paths += 1; ob.reached()
                    def report(role, what, m):
                        av = a.concrete(m)
                        tpl = '{{ a | ' + name + (f': {n}' if n is not None else '') + ' }}'
                        sc = {'kind': 'template', 'template': tpl, 'globals': {'a': av}}
                        if isinstance(av, float) and (math.isnan(av) or math.isinf(av)): sc = None
                        def conf(res, av=av, n=n):
                            if res.get('outcome') != 'ok': return True
                            f = float(av) if not isinstance(av, str) else float(av)
                            if n is None or n <= 0:
                                e = math.ceil(f) if name == 'ceil' else math.floor(f) if name == 'floor' else (math.floor(abs(f) + 0.5) * (1 if f >= 0 else -1) if abs(f) < 2 ** 52 else int(f))
                                return res.get('output') != str(int(e))
                            return False
                        ob.violation(role, f'{what}: {av!r} | {name}' + (f': {n}' if n is not None else ''), {'input': repr(av), 'kind': ka, 'places': n}, sc, conf)
                    if kind_ == 'panic':
                        report(f'{name}/panic', f'{name} panics ({val})', ob.decide(ex, s2.conds, z3.BoolVal(True))); continue
                    r = result_of(val)
                    if a.as_flt is None:
                        ok = z3.BoolVal(r[0] == 'err')
                    else:
                        f = a.as_flt
                        lim = z3.FPVal(2.0 ** 63, F64)
                        inrange = z3.And(z3.Not(z3.fpIsNaN(f)), z3.fpLT(z3.fpAbs(f), lim))
                        if name == 'round' and n is not None and n > 0:
                            mul = z3.FPVal(10.0 ** n, F64)
                            exp = z3.fpDiv(RNE, z3.fpRoundToIntegral(z3.RNA(), z3.fpMul(RNE, f, mul)), mul)
                            ok = (r[1] == exp) if r[0] == 'float' else z3.BoolVal(False)
                        else:
                            # independent formulation: direct conversion to a signed 64-bit integer with the direction as rounding mode
                            exp = z3.fpToSBV(rm, f, z3.BitVecSort(64))
                            ok = z3.Implies(inrange, r[1] == exp) if r[0] == 'int' else z3.BoolVal(False)
                    m = ob.decide(ex, s2.conds, z3.Not(ok))
                    if m is not None: report(f'{name}/wrong-result/{ka}', f'{name} returns {r[0]}' + (f' {m.eval(r[1], model_completion=True)}' if len(r) > 1 and not isinstance(r[1], str) else ''), m)
                    else: ob.sample({'kind': ka, 'places': n, 'result_kind': r[0]})
        ob.absorb(ex)


def validate_translator(chk, P):
    """concrete operand pairs (those of the repo's unit tests in math.rs plus boundary values) through the interpreter and natively"""
    ex = Executor(P, ALL_MODELS_())
    cases = [('plus', 2, 1), ('plus', 21.5, 2.25), ('minus', 2, 1), ('minus', 21.5, 1.25), ('times', 2, 3), ('times', 8.5, 0.5), ('divided_by', 4, 2), ('divided_by', 5, 2),
             ('divided_by', 5.0, 2), ('divided_by', 7, -2), ('modulo', 3, 2), ('modulo', -7, 3), ('modulo', 3.0, 2.0), ('at_least', 4, 5), ('at_most', 4, 5), ('at_least', 4.5, 5),
             ('plus', 9223372036854775807, 1), ('times', 4611686018427387904, 2), ('divided_by', -9223372036854775808, -1), ('modulo', -9223372036854775808, -1), ('plus', '3', 4), ('plus', '3.5', 4)]
    for name, av, bv in cases:
        filt, argsty, _, _ = BIN[name]
        fn = P.find_method(filt, 'evaluate', 'Filter', 'lib')
        def mkval(v):
            if isinstance(v, int): return value_scalar(scalar_int(v))
            if isinstance(v, float): return value_scalar(scalar_float(Float(z3.FPVal(v, F64))))
            return value_scalar(scalar_str(v))
        st = State()
        outs = list(ex.run(fn, [st.ref(Adt(filt, None, [Adt(argsty, None, [expr_stub(mkval(bv))])])), st.ref(mkval(av)), st.ref(Opaque(('RUNTIME',)))], st))
        got = None
        if len(outs) == 1 and outs[0][1] == 'ret':
            r = result_of(outs[0][2])
            if r[0] == 'int': got = ('num', float(z3.simplify(r[1]).as_signed_long()))
            elif r[0] == 'float':
                fv = z3.simplify(r[1])
                got = ('num', fp_to_float(fv)) if z3.is_fp_value(fv) else ('float-term', str(fv))
            else: got = (r[0],)
        if got and got[0] == 'float-term':
            continue     # fmod is uninterpreted: nothing concrete to compare
        def view(res):
            if res.get('outcome') == 'err': return ('err',)
            if res.get('outcome') != 'ok': return (res.get('outcome'),)
            return ('num', float(res['output']))
        chk.validate(f'{av!r} | {name}: {bv!r}', got, {'kind': 'template', 'template': '{{ a | ' + name + ': b }}', 'globals': {'a': av, 'b': bv}}, view)


def run(chk):
    P = chk.program(('core', 'lib'))
    validate_translator(chk, P)
    for name in BIN:
        ob_binary(chk, P, name)
    ob_abs(chk, P)
    for name in ('ceil', 'floor', 'round'):
        ob_rounding(chk, P, name)
