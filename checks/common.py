"""helpers shared by checks"""
