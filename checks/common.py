"""Builders and environment stubs shared by the checks (abstract parent runtime, abstract data object, find stubs)."""
import re, itertools
import z3
from mirsym.exec import Executor, State, Unsupported
from mirsym.values import *
from mirsym.models import ALL_MODELS
from mirsym.models.core import ret, panic
from mirsym.models.maps import MapV, SetV
from mirsym.models.iters import mk_list_iter


def models_with(overrides):
    return [(re.compile(p, re.S), f, n) for p, f, n in overrides] + list(ALL_MODELS)


# ---------------------------------------------------------------- liquid values
def scalar_str(s):
    return Adt('ScalarCow', None, [Adt('ScalarCowEnum', 'Str', [StrV(s, 'KStringCow')])])


def scalar_int(e):
    return Adt('ScalarCow', None, [Adt('ScalarCowEnum', 'Integer', [e if isinstance(e, Int) else Int(e, 'i64')])])


def scalar_float(e):
    return Adt('ScalarCow', None, [Adt('ScalarCowEnum', 'Float', [e])])


def scalar_bool(e):
    return Adt('ScalarCow', None, [Adt('ScalarCowEnum', 'Bool', [e if isinstance(e, Bool) else Bool(e)])])


def value_scalar(sc):
    return Adt('Value', 'Scalar', [sc])


VALUE_NIL = Adt('Value', 'Nil', [])


def mk_path(st, keys):
    """&[ScalarCow] over string keys"""
    return st.ref(VecV([scalar_str(k) for k in keys], 'slice'))


def path_keys(st, pref):
    v = st.deref_all(pref)
    out = []
    for it in v.items:
        inner = it.items[0]
        if inner.variant == 'Str':
            out.append(inner.items[0].concrete())
        elif inner.variant == 'Integer':
            out.append(('int', str(inner.items[0])))
        else:
            out.append((inner.variant,))
    return tuple(out)


def method_of(callee):
    m = re.search(r'::(\w+)(?:::<.*>)?$', callee, re.S)
    return m.group(1) if m else callee


def log_call(st, who, what):
    st.env['calls'] = st.env.get('calls', ()) + ((who, what),)


def calls(st, who=None):
    return [c for c in st.env.get('calls', ()) if who is None or c[0] == who]


# ---------------------------------------------------------------- abstract parent runtime
class ParentEnv:
    """Abstract runtime satisfying Inv: get(p) Ok <=> try_get(p) Some (same value); roots = {k | try_get([k]) is Some};
    empty path -> missing.  Deeper paths resolve nondeterministically (one Bool per path), only below a root that resolves."""

    def __init__(self, roots, tag='P', index_mode='token'):
        self.roots = frozenset(roots); self.tag = tag
        self.has = {}
        self.index_mode = index_mode   # 'token': get_index returns an opaque token; 'symbolic': an optional symbolic integer counter

    def has_var(self, keys):
        if keys not in self.has:
            self.has[keys] = z3.Bool(f'{self.tag}_has_{"_".join(map(str, keys))}')
        return self.has[keys]

    def resolves(self, ex, st, keys):
        """generator (st, bool)"""
        if not keys or keys[0] not in self.roots:
            yield st, False
        elif len(keys) == 1:
            yield st, True
        else:
            yield from ex.fork_bool(st, self.has_var(keys))

    def value(self, keys):
        return Adt('ValueCow', 'Owned', [Abs('token', found_handler, (self.tag + 'VAL', keys))])

    def handler(self, ctx, me, args, st):
        m = method_of(ctx.callee)
        ex = ctx.ex
        if m in ('try_get', 'get'):
            keys = path_keys(st, args[1])
            log_call(st, self.tag, (m, keys))
            def g():
                for s2, ok in self.resolves(ex, st, keys):
                    if m == 'try_get':
                        yield s2, 'ret', (Some(self.value(keys)) if ok else NONE)
                    else:
                        yield s2, 'ret', (Ok(self.value(keys)) if ok else Err(Adt('LiquidError', None, [Opaque((self.tag + 'ERR', keys))])))
            return g()
        if m == 'roots':
            log_call(st, self.tag, ('roots',))
            return ret(st, SetV(self.roots))
        if m in ('set_global', 'set_index'):
            k = st.deref_all(args[1]).concrete()
            log_call(st, self.tag, (m, k, repr(args[2])))
            return ret(st, Some(Opaque((self.tag + '_' + m + '_old', k))))
        if m == 'get_index':
            k = st.deref_all(args[1]).concrete()
            log_call(st, self.tag, (m, k))
            if self.index_mode == 'symbolic':
                present = z3.Bool(f'{self.tag}_idx_{k}_present'); v = z3.BitVec(f'{self.tag}_idx_{k}', 64)
                def gi():
                    for s2, pr in ctx.ex.fork_bool(st, present):
                        if pr:
                            s2.assume(z3.And(v > -(1 << 62), v < (1 << 62)))
                            yield s2, 'ret', Some(Adt('ValueCow', 'Owned', [value_scalar(scalar_int(Int(v, 'i64')))]))
                        else:
                            yield s2, 'ret', NONE
                return gi()
            return ret(st, Some(Adt('ValueCow', 'Owned', [Opaque((self.tag + 'IDX', k))])))
        if m == 'registers':
            log_call(st, self.tag, ('registers',))
            return ret(st, st.ref(Opaque((self.tag + '_REGISTERS',))))
        if m == 'name':
            log_call(st, self.tag, ('name',))
            return ret(st, Some(st.ref(StrV(self.tag + 'name', 'str'))))
        if m == 'partials':
            log_call(st, self.tag, ('partials',))
            return ret(st, st.ref(Opaque((self.tag + '_PARTIALS',))))
        return None

    def abs(self):
        return Abs('parent:' + self.tag, self.handler)


# ---------------------------------------------------------------- abstract data object (ObjectView) with a concrete key set
class DataEnv:
    def __init__(self, keys, tag='D'):
        self.keys = tuple(keys); self.tag = tag

    def handler(self, ctx, me, args, st):
        m = method_of(ctx.callee)
        if m == 'contains_key':
            k = st.deref_all(args[1]).concrete()
            log_call(st, self.tag, (m, k))
            return ret(st, Bool(k in self.keys))
        if m == 'get':
            k = st.deref_all(args[1]).concrete()
            log_call(st, self.tag, (m, k))
            if k not in self.keys: return ret(st, NONE)
            # a bound name may be bound to nil: that is still a binding (solver-chosen per key)
            def g():
                for s2, isnil in ctx.ex.fork_bool(st, z3.Bool(f'{self.tag}_{k}_is_nil')):
                    yield s2, 'ret', Some(s2.ref(VALUE_NIL if isnil else Opaque((self.tag + 'VAL', k))))
            return g()
        if m == 'as_value':
            return ret(st, args[0])
        if m == 'keys':
            return ret(st, st.ref(mk_list_iter([StrV(k, 'KStringCow') for k in self.keys]), True))
        if m == 'size':
            return ret(st, Int(len(self.keys), 'i64'))
        return None

    def abs(self):
        return Abs('data:' + self.tag, self.handler, self)


# ---------------------------------------------------------------- find / try_find stubs (contract: find Ok <=> try_find Some, same value)
class FindEnv:
    def __init__(self):
        self.vars = {}

    def data_keys(self, st, vref):
        v = st.deref_all(vref)
        if isinstance(v, Abs) and isinstance(v.data, DataEnv): return v.data.keys, v.data.tag
        if isinstance(v, MapV): return v.keys, 'M'
        raise Unsupported(f'find stub on {v!r}')

    def found(self, ex, st, vref, keys):
        dk, tag = self.data_keys(st, vref)
        if not keys or keys[0] not in dk:
            yield st, False, tag
        elif len(keys) == 1:
            yield st, True, tag
        else:
            b = self.vars.setdefault((tag, keys), z3.Bool(f'F_{tag}_{"_".join(map(str, keys))}'))
            for s2, v in ex.fork_bool(st, b):
                yield s2, v, tag

    def models(self):
        def m_try_find(ctx, args, st):
            keys = path_keys(st, args[1])
            log_call(st, 'find', ('try_find', keys))
            def g():
                for s2, ok, tag in self.found(ctx.ex, st, args[0], keys):
                    yield s2, 'ret', (Some(Adt('ValueCow', 'Borrowed', [s2.ref(found_token(tag, keys))])) if ok else NONE)
            return g()
        def m_find(ctx, args, st):
            keys = path_keys(st, args[1])
            log_call(st, 'find', ('find', keys))
            def g():
                for s2, ok, tag in self.found(ctx.ex, st, args[0], keys):
                    yield s2, 'ret', (Ok(Adt('ValueCow', 'Borrowed', [s2.ref(found_token(tag, keys))])) if ok else Err(Adt('LiquidError', None, [Opaque(('FINDERR', tag, keys))])))
            return g()
        return [(r'^(?:liquid_core::)?(?:model::)?find::try_find$', m_try_find, 'stub:try_find(uninterpreted, contract find<=>try_find)'),
                (r'^(?:liquid_core::)?(?:model::)?find::find$', m_find, 'stub:find(uninterpreted, contract find<=>try_find)')]


def found_handler(ctx, me, args, st):
    m = method_of(ctx.callee)
    if m == 'to_value':
        return ret(st, Opaque(('VALUEOF', me.data)))
    if m in ('as_view', 'as_value'):
        return ret(st, args[0])
    return None


def found_token(tag, keys):
    return Abs('found', found_handler, ('FOUND', tag, keys))


def value_token(v):
    """canonical description of a ValueCow result built from stub tokens (ignores Owned/Borrowed, which is representation)"""
    if isinstance(v, Adt) and v.ty == 'ValueCow':
        return value_token(v.items[0])
    if isinstance(v, Ref):
        return ('ref', v.alloc, v.path)   # callers pass st-resolved values; see value_token_st
    if isinstance(v, Abs):
        return v.data
    if isinstance(v, Opaque):
        t = v.tag
        while isinstance(t, tuple) and t and t[0] == 'VALUEOF': t = t[1]
        return t
    return repr(v)


def value_token_st(st, v):
    while isinstance(v, Ref): v = st.deref(v)
    if isinstance(v, Adt) and v.ty == 'ValueCow':
        return value_token_st(st, v.items[0])
    return value_token(v)


# ---------------------------------------------------------------- output sink (io::Write) with a symbolic failure point
class SinkEnv:
    """`&mut dyn Write`: every write/write_all/write_fmt call is logged; the K-th call fails for a solver-chosen K
    (K = 0: never fails).  After the failure every further call is logged as 'AFTER-FAIL' (and fails too)."""

    def __init__(self, tag='W', may_fail=True, may_short=True):
        self.tag = tag; self.may_fail = may_fail; self.may_short = may_short
        self.K = z3.Int(f'{tag}_fail_at')

    def log(self, st):
        return st.env.get('sink:' + self.tag, ())

    def failed(self, st):
        return st.env.get('sinkfailed:' + self.tag, False)

    def write(self, ex, st, entry):
        """generator of (st, ok: bool)"""
        key = 'sink:' + self.tag
        n = len([e for e in st.env.get(key, ()) if e[0] != 'AFTER-FAIL']) + 1
        if self.failed(st):
            st.env[key] = st.env.get(key, ()) + (('AFTER-FAIL', entry),)
            yield st, False; return
        if not self.may_fail:
            st.env[key] = st.env.get(key, ()) + (('ok', entry),)
            yield st, True; return
        for s2, fails in ex.fork_bool(st, self.K == n):
            if fails:
                s2.env[key] = s2.env.get(key, ()) + (('FAIL', entry),)
                s2.env['sinkfailed:' + self.tag] = True
                yield s2, False
            else:
                s2.env[key] = s2.env.get(key, ()) + (('ok', entry),)
                yield s2, True

    def handler(self, ctx, me, args, st):
        from mirsym.models.fmt import render_parts
        m = method_of(ctx.callee)
        io_err = Err(Opaque(('io::Error', self.tag)))
        if m == 'write_fmt':
            entry = ('fmt', tuple(render_parts(st, args[1])))
        elif m in ('write_all', 'write'):
            b = st.deref_all(args[1])
            entry = ('bytes', repr(b))
        elif m == 'flush':
            return ret(st, Ok(UNIT))
        else:
            return None
        def g():
            # a previous short `write` is considered continued by any further call (content is not tracked)
            if st.env.get('short:' + self.tag) is not None:
                st.env['short:' + self.tag] = None
            for s2, ok in self.write(ctx.ex, st, entry):
                if m == 'write':
                    if not ok:
                        yield s2, 'ret', io_err; continue
                    # io::Write::write may accept only part of the buffer (documented contract): fork full / short
                    if self.may_short:
                        sv = z3.Bool(f'{self.tag}_short{len(self.log(s2))}')
                        for s3, short in ctx.ex.fork_bool(s2, sv):
                            if short:
                                s3.env['short:' + self.tag] = entry
                                yield s3, 'ret', Ok(Int(1, 'usize'))
                            else:
                                yield s3, 'ret', Ok(Int(z3.BitVec(f'{self.tag}_len{len(self.log(s3))}', 64), 'usize'))
                    else:
                        yield s2, 'ret', Ok(Int(z3.BitVec(f'{self.tag}_len{len(self.log(s2))}', 64), 'usize'))
                else:
                    yield s2, 'ret', (Ok(UNIT) if ok else io_err)
        return g()

    def short_pending(self, st):
        return st.env.get('short:' + self.tag)

    def abs(self):
        return Abs('sink:' + self.tag, self.handler, self)

    def text(self, st):
        """accepted output as a list of entries"""
        return [e[1] for e in self.log(st) if e[0] == 'ok']


# ---------------------------------------------------------------- registers / interrupt register
def interrupt_place(st, owner='P'):
    key = 'ireg:' + owner
    if key not in st.env:
        st.env[key] = st.alloc(Adt('InterruptRegister', None, [NONE], ['interrupt']))
    return Ref(st.env[key], (), True)


def interrupt_get(st, owner='P'):
    r = interrupt_place(st, owner)
    v = st.deref(r).items[0]
    return None if v.variant == 'None' else v.items[0].variant


def interrupt_set(st, what, owner='P'):
    r = interrupt_place(st, owner)
    st.store(r, Adt('InterruptRegister', None, [NONE if what is None else Some(Adt('Interrupt', what, []))], ['interrupt']))


REGISTER_DEFAULTS = {
    'CycleRegister': lambda: Adt('CycleRegister', None, [MapV((), (), 'HashMap')], ['cycles']),
    'ChangedRegister': lambda: Adt('ChangedRegister', None, [NONE], ['last_rendered']),
}


def registers_owner(st, regs_ref):
    regs = st.deref_all(regs_ref)
    if isinstance(regs, Opaque): return regs.tag[0].replace('_REGISTERS', '')
    if isinstance(regs, Adt) and regs.ty == 'Registers':
        r = regs_ref
        while isinstance(st.deref(r), Ref): r = st.deref(r)
        return f'@{r.alloc}{list(r.path)}'
    raise Unsupported(f'Registers::get_mut on {regs!r}')


def scope_registers_owner(ex, st, rt_ref, depth=0):
    """owner key of the registers a renderable reaches through the runtime it was handed (runs the real registers() chain)"""
    outs = list(ex.call('<dyn Runtime as Runtime>::registers', [rt_ref], st, depth))
    if len(outs) != 1 or outs[0][1] != 'ret': raise Unsupported('registers() did not return a single value')
    return registers_owner(outs[0][0], outs[0][2])


def registers_models():
    """Registers::get_mut::<T>() -> RefMut<T>: one place per (registers object, T); borrow-tracked like a RefCell"""
    from mirsym.models.core import panic as _panic
    def m_get_mut(ctx, args, st):
        owner = registers_owner(st, args[0])
        T = re.search(r'get_mut::<(.*)>$', ctx.callee, re.S).group(1).split('::')[-1]
        if T == 'InterruptRegister':
            place = interrupt_place(st, owner)
        else:
            key = f'reg:{owner}:{T}'
            if key not in st.env:
                if T not in REGISTER_DEFAULTS:
                    raise Unsupported(f'register {T} not provided by the obligation')
                st.env[key] = st.alloc(REGISTER_DEFAULTS[T]())
            place = Ref(st.env[key], (), True)
        bk = ('borrow', place.alloc, place.path)
        readers, writer = st.env.get(bk, (0, False))
        if writer or readers:
            return _panic(st, f'Registers::get_mut::<{T}>: already borrowed (BorrowMutError)')
        st.env[bk] = (0, True)
        return ret(st, Py('cellref', (place, True)))
    return [(r'^(?:liquid_core::)?(?:runtime::)?(?:runtime::)?Registers::get_mut::<', m_get_mut, 'model:Registers::get_mut (one RefCell-tracked place per register type)')]


# ---------------------------------------------------------------- abstract child renderable
def describe_scope(st, rt):
    """python description of the runtime a child was handed"""
    v = st.deref_all(rt)
    if isinstance(v, Abs): return ('abs', v.name)
    if isinstance(v, Adt) and v.ty in ('StackFrame', 'SandboxedStackFrame'):
        data = st.deref_all(v.items[2])
        d = {}
        if hasattr(data, 'keys') and hasattr(data, 'items'):
            for k, x in zip(data.keys, data.items):
                d[k] = describe_value(st, x)
        else:
            d = repr(data)
        return (v.ty, describe_scope(st, v.items[0]), tuple(sorted(d.items())) if isinstance(d, dict) else d)
    if isinstance(v, Adt) and v.ty in ('GlobalFrame', 'IndexFrame'):
        cell = v.items[1]
        mv = cell.items[0] if isinstance(cell, Adt) and cell.ty == 'RefCell' else cell
        return (v.ty, describe_scope(st, v.items[0]), tuple(mv.keys) if hasattr(mv, 'keys') else repr(mv))
    if isinstance(v, Adt) and v.ty == 'RuntimeCore':
        return ('RuntimeCore', describe_value(st, v.items[0]))
    if hasattr(v, 'keys') and hasattr(v, 'items'):
        return ('map', tuple(v.keys))
    return ('other', repr(v))


class SymField:
    """a symbolic field of a described record (kept as the executor value so that obligations can put it into a VC)"""
    def __init__(self, v): self.v = v
    def __repr__(self): return f'Sym({self.v!r})'
    def __eq__(self, o): return isinstance(o, SymField) and repr(o.v) == repr(self.v)
    def __hash__(self): return hash(repr(self.v))
    def __lt__(self, o): return repr(self) < repr(o)


def describe_value(st, x):
    v = st.deref_all(x)
    if isinstance(v, Adt) and v.names:
        out = []
        for n, f in zip(v.names, v.items):
            if isinstance(f, (Int, Bool)):
                c = f.concrete(); out.append((n, c if c is not None else SymField(f)))
            elif isinstance(f, Adt) and f.ty == 'Option':
                out.append((n, None if f.variant == 'None' else describe_value(st, f.items[0])))
            else:
                out.append((n, describe_value(st, f)))
        return (v.ty, tuple(out))
    if isinstance(v, Adt) and v.ty == 'ValueCow': return describe_value(st, v.items[0])
    if isinstance(v, Adt) and v.ty == 'Value' and v.variant == 'Scalar':
        inner = v.items[0].items[0]
        p = inner.items[0]
        if isinstance(p, (Int, Bool)): return (inner.variant, p.concrete() if p.concrete() is not None else str(p))
        if isinstance(p, StrV): return ('Str', p.concrete())
        return (inner.variant, repr(p))
    if isinstance(v, Abs): return ('abs', v.data if v.data is not None else v.name)
    if isinstance(v, Opaque): return ('tok', value_token(v))
    return repr(v)


class ChildEnv:
    """abstract renderable: when rendered it logs (name, writer, scope), then nondeterministically
       writes 0..max_writes times to the sink it was given, leaves any interrupt in the register, and returns Ok or Err.
       A child that sees its sink fail returns Err (the contract every real renderable is checked against in C10)."""

    def __init__(self, name, sink=None, max_writes=1, may_err=True, may_interrupt=True, owner='P'):
        self.name, self.sink, self.max_writes, self.may_err, self.may_interrupt, self.owner = name, sink, max_writes, may_err, may_interrupt, owner
        self.choice = z3.Int(f'child_{name}_choice')

    def handler(self, ctx, me, args, st):
        m = method_of(ctx.callee)
        if m != 'render_to': return None
        ex = ctx.ex
        nth = len([c for c in calls(st, 'child') if c[1][0] == self.name])
        log_call(st, 'child', (self.name, describe_scope(st, args[2]), repr(st.deref_all(args[1]))))
        def g():
            # 1. optional writes through the writer that was passed in
            def after_writes(s, wrote_ok):
                if not wrote_ok:
                    yield s, 'ret', Err(Adt('LiquidError', None, [Opaque(('msg', 'child saw sink failure'))])); return
                opts = [('ok', None)]
                if self.may_interrupt: opts += [('ok', 'Break'), ('ok', 'Continue')]
                if self.may_err: opts.append(('err', None))
                v = z3.Int(f'child_{self.name}_{nth}_outcome')
                for i, (res, intr) in enumerate(opts):
                    cond = (v == i)
                    s2 = s.clone() if i < len(opts) - 1 else s
                    s2.assume(cond)
                    s2.env['child_outcomes'] = s2.env.get('child_outcomes', ()) + ((self.name, nth, res, intr),)
                    if intr:
                        owner = self.owner
                        if owner == 'scope':
                            owner = scope_registers_owner(ex, s2, args[2], ctx.depth)
                            s2.env['interrupt_owners'] = s2.env.get('interrupt_owners', ()) + (owner,)
                        interrupt_set(s2, intr, owner)
                    yield s2, 'ret', (Ok(UNIT) if res == 'ok' else Err(Adt('LiquidError', None, [Opaque(('msg', f'child {self.name} failed'))])))
            w = st.deref_all(args[1])
            if self.max_writes and isinstance(w, VecV):
                # private buffer (capture / ifchanged): the child appends an opaque chunk, never fails
                wv = z3.Int(f'child_{self.name}_{nth}_writes')
                bref = args[1]
                while isinstance(st.deref(bref), Ref): bref = st.deref(bref)
                for s1, does in ex.fork_bool(st, wv == 1):
                    if does:
                        b = s1.deref(bref)
                        s1.store(bref, VecV(b.items + (Opaque(('chunk', self.name, nth)),), b.ty))
                    yield from after_writes(s1, True)
                return
            if self.max_writes and isinstance(w, Abs) and isinstance(w.data, SinkEnv):
                wv = z3.Int(f'child_{self.name}_{nth}_writes')
                for s1, does in ex.fork_bool(st, wv == 1):
                    if does:
                        for s2, ok in w.data.write(ex, s1, ('child', self.name, nth)):
                            yield from after_writes(s2, ok)
                    else:
                        yield from after_writes(s1, True)
            else:
                yield from after_writes(st, True)
        return g()

    def abs(self):
        return Abs('child:' + self.name, self.handler, self)


def mk_template(st, children):
    """a real liquid_core::Template whose elements are abstract children (Box<dyn Renderable>)"""
    return Adt('Template', None, [VecV([st.ref(c.abs(), True) for c in children])], ['elements'])


# ---------------------------------------------------------------- tag token stream (TagTokenIter / TagToken) stub
class TokenStream:
    """abstract token iterator: tokens are ('value', name) or ('word', text).  The grammar guarantees tokens are one of
    value / identifier / operator / punctuation words; token-level error construction returns an opaque error."""

    def __init__(self, tokens, sid='T'):
        self.tokens = list(tokens); self.sid = sid

    def pos(self, st): return st.env.get('tokpos:' + self.sid, 0)

    def token_abs(self, i):
        kind, text = self.tokens[i]
        def th(ctx, me, args, st):
            m = method_of(ctx.callee)
            if m == 'as_str':
                return ret(st, st.ref(StrV(text if kind == 'word' else f'<{text}>', 'str')))
            if m == 'expect_value':
                if kind == 'value':
                    return ret(st, Adt('TryMatchToken', 'Matches', [Abs('expr:' + text, EXPR_HANDLERS.get(text, _default_expr_handler), text)]))
                return ret(st, Adt('TryMatchToken', 'Fails', [me]))
            if m == 'expect_str':
                want = st.deref_all(args[1]).concrete()
                if kind == 'word' and text == want: return ret(st, Adt('TryMatchToken', 'Matches', [UNIT]))
                return ret(st, Adt('TryMatchToken', 'Fails', [me]))
            if m == 'expect_identifier':
                if kind == 'word' and text.isidentifier(): return ret(st, Adt('TryMatchToken', 'Matches', [st.ref(StrV(text, 'str'))]))
                return ret(st, Adt('TryMatchToken', 'Fails', [me]))
            if m in ('raise_error', 'raise_custom_error'):
                return ret(st, Adt('LiquidError', None, [Opaque(('msg', f'unexpected token {text}'))]))
            if m == 'expect_literal':
                if kind == 'value':
                    return ret(st, Adt('TryMatchToken', 'Matches', [value_scalar(scalar_str(text))]))
                return ret(st, Adt('TryMatchToken', 'Fails', [me]))
            if m in ('expect_variable', 'expect_range', 'expect_filter_chain'):
                return ret(st, Adt('TryMatchToken', 'Fails', [me]))
            return None
        return Abs(f'token:{self.sid}:{i}:{text}', th, (kind, text))

    def handler(self, ctx, me, args, st):
        m = method_of(ctx.callee)
        i = self.pos(st)
        if m == 'next':
            if i >= len(self.tokens): return ret(st, NONE)
            st.env['tokpos:' + self.sid] = i + 1
            return ret(st, Some(self.token_abs(i)))
        if m == 'expect_next':
            if i >= len(self.tokens): return ret(st, Err(Adt('LiquidError', None, [Opaque(('msg', 'unexpected end of tag'))])))
            st.env['tokpos:' + self.sid] = i + 1
            return ret(st, Ok(self.token_abs(i)))
        if m == 'expect_nothing':
            return ret(st, Ok(UNIT) if i >= len(self.tokens) else Err(Adt('LiquidError', None, [Opaque(('msg', 'trailing tokens'))])))
        if m == 'raise_error':
            return ret(st, Adt('LiquidError', None, [Opaque(('msg', 'token stream error'))]))
        return None

    def abs(self):
        return Abs('tokens:' + self.sid, self.handler, self)


EXPR_HANDLERS = {}


def _default_expr_handler(ctx, me, args, st):
    return None


def io_models():
    def m_sink(ctx, args, st):
        return ret(st, SinkEnv('NULLSINK', may_fail=False, may_short=False).abs())
    return [(r'^(?:std::io::)?sink$', m_sink, 'model:std::io::sink (discarding writer)')]


def fmt_log_matches(log, want):
    """log: accepted sink entries as produced by SinkEnv.text(); want: list of expected strings, one per write.
    Returns None if the shape cannot match, else a list of z3 constraints (symbolic integer placeholders == the expected numbers)."""
    import re as _re
    if len(log) != len(want): return None
    cons = []
    for e, w in zip(log, want):
        if e[0] != 'fmt': return None
        pat = ''; ints = []
        for p in e[1]:
            if isinstance(p, str): pat += _re.escape(p)
            elif isinstance(p, tuple) and p[0] == 'int': pat += r'(-?\d+)'; ints.append(p[1])
            else: return None
        m = _re.fullmatch(pat, w)
        if not m: return None
        for iv, g in zip(ints, m.groups()):
            cons.append(iv.e == z3.BitVecVal(int(g), iv.bits))
    return cons
