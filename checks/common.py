"""Builders and environment stubs shared by the checks (abstract parent runtime, abstract data object, find stubs)."""
import re, itertools
import z3
from mirsym.exec import Executor, State, Unsupported
from mirsym.values import *
from mirsym.models import ALL_MODELS
from mirsym.models.core import ret, panic
from mirsym.models.maps import MapV, SetV
from mirsym.models.iters import mk_list_iter


def models_with(overrides):
    return [(re.compile(p, re.S), f, n) for p, f, n in overrides] + list(ALL_MODELS)


# ---------------------------------------------------------------- liquid values
def scalar_str(s):
    return Adt('ScalarCow', None, [Adt('ScalarCowEnum', 'Str', [StrV(s, 'KStringCow')])])


def scalar_int(e):
    return Adt('ScalarCow', None, [Adt('ScalarCowEnum', 'Integer', [e if isinstance(e, Int) else Int(e, 'i64')])])


def scalar_float(e):
    return Adt('ScalarCow', None, [Adt('ScalarCowEnum', 'Float', [e])])


def scalar_bool(e):
    return Adt('ScalarCow', None, [Adt('ScalarCowEnum', 'Bool', [e if isinstance(e, Bool) else Bool(e)])])


def value_scalar(sc):
    return Adt('Value', 'Scalar', [sc])


VALUE_NIL = Adt('Value', 'Nil', [])


def mk_path(st, keys):
    """&[ScalarCow] over string keys"""
    return st.ref(VecV([scalar_str(k) for k in keys], 'slice'))


def path_keys(st, pref):
    v = st.deref_all(pref)
    out = []
    for it in v.items:
        inner = it.items[0]
        if inner.variant == 'Str':
            out.append(inner.items[0].concrete())
        elif inner.variant == 'Integer':
            out.append(('int', str(inner.items[0])))
        else:
            out.append((inner.variant,))
    return tuple(out)


def method_of(callee):
    m = re.search(r'::(\w+)(?:::<.*>)?$', callee, re.S)
    return m.group(1) if m else callee


def log_call(st, who, what):
    st.env['calls'] = st.env.get('calls', ()) + ((who, what),)


def calls(st, who=None):
    return [c for c in st.env.get('calls', ()) if who is None or c[0] == who]


# ---------------------------------------------------------------- abstract parent runtime
class ParentEnv:
    """Abstract runtime satisfying Inv: get(p) Ok <=> try_get(p) Some (same value); roots = {k | try_get([k]) is Some};
    empty path -> missing.  Deeper paths resolve nondeterministically (one Bool per path), only below a root that resolves."""

    def __init__(self, roots, tag='P'):
        self.roots = frozenset(roots); self.tag = tag
        self.has = {}

    def has_var(self, keys):
        if keys not in self.has:
            self.has[keys] = z3.Bool(f'{self.tag}_has_{"_".join(map(str, keys))}')
        return self.has[keys]

    def resolves(self, ex, st, keys):
        """generator (st, bool)"""
        if not keys or keys[0] not in self.roots:
            yield st, False
        elif len(keys) == 1:
            yield st, True
        else:
            yield from ex.fork_bool(st, self.has_var(keys))

    def value(self, keys):
        return Adt('ValueCow', 'Owned', [Opaque((self.tag + 'VAL', keys))])

    def handler(self, ctx, me, args, st):
        m = method_of(ctx.callee)
        ex = ctx.ex
        if m in ('try_get', 'get'):
            keys = path_keys(st, args[1])
            log_call(st, self.tag, (m, keys))
            def g():
                for s2, ok in self.resolves(ex, st, keys):
                    if m == 'try_get':
                        yield s2, 'ret', (Some(self.value(keys)) if ok else NONE)
                    else:
                        yield s2, 'ret', (Ok(self.value(keys)) if ok else Err(Adt('LiquidError', None, [Opaque((self.tag + 'ERR', keys))])))
            return g()
        if m == 'roots':
            log_call(st, self.tag, ('roots',))
            return ret(st, SetV(self.roots))
        if m in ('set_global', 'set_index'):
            k = st.deref_all(args[1]).concrete()
            log_call(st, self.tag, (m, k, repr(args[2])))
            return ret(st, Some(Opaque((self.tag + '_' + m + '_old', k))))
        if m == 'get_index':
            k = st.deref_all(args[1]).concrete()
            log_call(st, self.tag, (m, k))
            return ret(st, Some(Adt('ValueCow', 'Owned', [Opaque((self.tag + 'IDX', k))])))
        if m == 'registers':
            log_call(st, self.tag, ('registers',))
            return ret(st, st.ref(Opaque((self.tag + '_REGISTERS',))))
        if m == 'name':
            log_call(st, self.tag, ('name',))
            return ret(st, Some(st.ref(StrV(self.tag + 'name', 'str'))))
        if m == 'partials':
            log_call(st, self.tag, ('partials',))
            return ret(st, st.ref(Opaque((self.tag + '_PARTIALS',))))
        return None

    def abs(self):
        return Abs('parent:' + self.tag, self.handler)


# ---------------------------------------------------------------- abstract data object (ObjectView) with a concrete key set
class DataEnv:
    def __init__(self, keys, tag='D'):
        self.keys = tuple(keys); self.tag = tag

    def handler(self, ctx, me, args, st):
        m = method_of(ctx.callee)
        if m == 'contains_key':
            k = st.deref_all(args[1]).concrete()
            log_call(st, self.tag, (m, k))
            return ret(st, Bool(k in self.keys))
        if m == 'get':
            k = st.deref_all(args[1]).concrete()
            log_call(st, self.tag, (m, k))
            return ret(st, Some(st.ref(Opaque((self.tag + 'VAL', k)))) if k in self.keys else NONE)
        if m == 'as_value':
            return ret(st, args[0])
        if m == 'keys':
            return ret(st, st.ref(mk_list_iter([StrV(k, 'KStringCow') for k in self.keys]), True))
        if m == 'size':
            return ret(st, Int(len(self.keys), 'i64'))
        return None

    def abs(self):
        return Abs('data:' + self.tag, self.handler, self)


# ---------------------------------------------------------------- find / try_find stubs (contract: find Ok <=> try_find Some, same value)
class FindEnv:
    def __init__(self):
        self.vars = {}

    def data_keys(self, st, vref):
        v = st.deref_all(vref)
        if isinstance(v, Abs) and isinstance(v.data, DataEnv): return v.data.keys, v.data.tag
        if isinstance(v, MapV): return v.keys, 'M'
        raise Unsupported(f'find stub on {v!r}')

    def found(self, ex, st, vref, keys):
        dk, tag = self.data_keys(st, vref)
        if not keys or keys[0] not in dk:
            yield st, False, tag
        elif len(keys) == 1:
            yield st, True, tag
        else:
            b = self.vars.setdefault((tag, keys), z3.Bool(f'F_{tag}_{"_".join(map(str, keys))}'))
            for s2, v in ex.fork_bool(st, b):
                yield s2, v, tag

    def models(self):
        def m_try_find(ctx, args, st):
            keys = path_keys(st, args[1])
            log_call(st, 'find', ('try_find', keys))
            def g():
                for s2, ok, tag in self.found(ctx.ex, st, args[0], keys):
                    yield s2, 'ret', (Some(Adt('ValueCow', 'Borrowed', [s2.ref(found_token(tag, keys))])) if ok else NONE)
            return g()
        def m_find(ctx, args, st):
            keys = path_keys(st, args[1])
            log_call(st, 'find', ('find', keys))
            def g():
                for s2, ok, tag in self.found(ctx.ex, st, args[0], keys):
                    yield s2, 'ret', (Ok(Adt('ValueCow', 'Borrowed', [s2.ref(found_token(tag, keys))])) if ok else Err(Adt('LiquidError', None, [Opaque(('FINDERR', tag, keys))])))
            return g()
        return [(r'^(?:liquid_core::)?(?:model::)?find::try_find$', m_try_find, 'stub:try_find(uninterpreted, contract find<=>try_find)'),
                (r'^(?:liquid_core::)?(?:model::)?find::find$', m_find, 'stub:find(uninterpreted, contract find<=>try_find)')]


def found_handler(ctx, me, args, st):
    m = method_of(ctx.callee)
    if m == 'to_value':
        return ret(st, Opaque(('VALUEOF', me.data)))
    return None


def found_token(tag, keys):
    return Abs('found', found_handler, ('FOUND', tag, keys))


def value_token(v):
    """canonical description of a ValueCow result built from stub tokens (ignores Owned/Borrowed, which is representation)"""
    if isinstance(v, Adt) and v.ty == 'ValueCow':
        return value_token(v.items[0])
    if isinstance(v, Ref):
        return ('ref', v.alloc, v.path)   # callers pass st-resolved values; see value_token_st
    if isinstance(v, Abs):
        return v.data
    if isinstance(v, Opaque):
        t = v.tag
        while isinstance(t, tuple) and t and t[0] == 'VALUEOF': t = t[1]
        return t
    return repr(v)


def value_token_st(st, v):
    while isinstance(v, Ref): v = st.deref(v)
    if isinstance(v, Adt) and v.ty == 'ValueCow':
        return value_token_st(st, v.items[0])
    return value_token(v)
