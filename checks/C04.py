"""C04 -- scoping: innermost binding wins, assignments persist, caller data untouched."""
import itertools
import z3
from mirsym.exec import Executor, State, Unsupported
from mirsym.values import *
from mirsym.models.maps import MapV
from checks.common import *
from checks.renderables import expr_stub, cond_stub

VG = value_scalar(scalar_str('G')); VC = value_scalar(scalar_int(7)); VD = value_scalar(scalar_str('D')); VL = value_scalar(scalar_str('L'))


class FindByPlace(FindEnv):
    """find/try_find stubs that name the map (by place) that answered"""
    def data_keys(self, st, vref):
        r = vref
        while isinstance(st.deref(r), Ref): r = st.deref(r)
        v = st.deref(r)
        if isinstance(v, MapV): return v.keys, f'map@{r.alloc}{list(r.path)}'
        return super().data_keys(st, vref)


def build_runtime(ex, P, st, data_keys):
    """run the real RuntimeBuilder::build over caller data with the given keys; returns (rt_ref, places)"""
    fn = P.find_method('RuntimeBuilder', 'build', None, 'core')
    data = MapV(tuple(data_keys), tuple(VD for _ in data_keys), 'Object')
    dref = st.ref(data)
    outs = list(ex.run(fn, [Adt('RuntimeBuilder', None, [Some(dref), NONE], ['globals', 'partials'])], st))
    if len(outs) != 1 or outs[0][1] != 'ret':
        raise Unsupported(f'RuntimeBuilder::build did not return a single value: {[(k, str(v)[:80]) for _, k, v in outs]}')
    s2, _, rt = outs[0]
    return s2, s2.ref(rt), dref


def shape_of(st, rt_ref):
    return describe_scope(st, rt_ref)


def ob_build_shape(chk, P):
    with chk.obligation('RuntimeBuilder::build/layer-order', 'every render starts from Global layer over the caller\'s data over the counter layer over the core, all fresh and empty; '
                        'liquid::Template::render_to builds exactly that runtime and hands it, with the caller\'s writer, to the template',
                        {'caller data': 'abstract object (keys {}, {k})'}) as ob:
        ex = Executor(P, models_with(registers_models())); ex.seed = chk.seed
        for dk in ((), ('k',)):
            st = State()
            st, rt, dref = build_runtime(ex, P, st, dk)
            ob.paths += 1; ob.reached()
            shape = shape_of(st, rt)
            want = ('GlobalFrame', ('StackFrame', ('IndexFrame', ('RuntimeCore', "NullPartials"), ()), ('map', tuple(dk)) if False else None), ())
            ok = (shape[0] == 'GlobalFrame' and shape[2] == () and shape[1][0] == 'StackFrame' and shape[1][1][0] == 'IndexFrame' and shape[1][1][2] == ()
                  and shape[1][1][1][0] == 'RuntimeCore')
            data_ok = ok and st.deref(rt).items[0].items[2] == dref
            if not (ok and data_ok):
                sc = precedence_scenario(False, True, True, 0)
                ob.violation('build/layer-order', f'RuntimeBuilder::build produced {shape} instead of Global(Stack(Index(Core), caller data))', {'shape': repr(shape)}, sc, confirm_expect(sc))
            ob.sample({'caller_keys': dk, 'shape': repr(shape)[:200]})
        # liquid::Template::render_to
        fn = P.find_method('Template', 'render_to', None, 'liquid')
        st = State()
        seen = {}
        def probe_handler(ctx, me, args, s):
            if method_of(ctx.callee) != 'render_to': return None
            seen['scope'] = describe_scope(s, args[2]); seen['writer'] = repr(s.deref_all(args[1]))
            rtv = s.deref_all(args[2])
            seen['data_is_callers'] = (rtv.ty == 'GlobalFrame' and isinstance(rtv.items[0], Adt) and rtv.items[0].ty == 'StackFrame' and s.deref_all(rtv.items[0].items[2]) is s.deref_all(dref))
            return ret(s, Ok(UNIT))
        tpl = Adt('Template', None, [VecV([st.ref(Abs('probe', probe_handler), True)])], ['elements'])
        dref = st.ref(MapV(('k',), (VD,), 'Object'))
        writer = st.ref(SinkEnv('W', may_fail=False).abs(), True)
        self_ = st.ref(Adt('Template', None, [tpl, NONE], ['template', 'partials']))
        for s2, kind, val in ex.run(fn, [self_, writer, dref], st):
            ob.paths += 1
            sc = seen.get('scope')
            good = kind == 'ret' and val.variant == 'Ok' and sc and sc[0] == 'GlobalFrame' and sc[2] == () and sc[1][0] == 'StackFrame' and sc[1][1][0] == 'IndexFrame' and sc[1][1][2] == () \
                and seen.get('writer') == 'Abs(sink:W)' and seen.get('data_is_callers')
            if not good:
                scn = precedence_scenario(False, True, True, 0)
                ob.violation('Template::render_to/runtime', f'liquid::Template::render_to handed the template runtime {sc} / writer {seen.get("writer")} ({kind} {val})', {'seen': repr(seen)},
                             scn, confirm_expect(scn))
        ob.absorb(ex)


def py_precedence(in_global, in_data, in_counter, extra):
    """reference: what {{k}} prints"""
    if extra: return 'L'
    if in_global: return 'G'
    if in_data: return 'D'
    if in_counter: return '1'
    return None


def precedence_scenario(in_global, in_data, in_counter, extra):
    t = ''
    exp = ''
    if in_counter: t += '{% increment k %}'; exp += ('0' if True else '')
    if in_global: t += "{% assign k = 'G' %}"
    if extra:
        t += "{% for k in one %}[{{k}}]{% endfor %}"
        exp += '[L]'
    t += '<{{k}}>'
    want = py_precedence(in_global, in_data, in_counter, 0)
    sc = {'kind': 'template', 'template': t, 'globals': dict({'one': ['L']}, **({'k': 'D'} if in_data else {}))}
    sc['_expect'] = (exp + f'<{want}>') if want is not None else None
    return sc


def confirm_template(res, sc=None):
    return True


def confirm_expect(sc):
    exp = sc.get('_expect')
    def f(res):
        if exp is None: return res.get('outcome') != 'err'
        return res.get('outcome') != 'ok' or res.get('output') != exp
    return f


def ob_precedence(chk, P):
    with chk.obligation('build-stack/precedence', 'on the runtime built by RuntimeBuilder::build (+0..2 plain scopes for loop variables / include arguments) a name resolves to its innermost '
                        'binding: scope > assigned global > caller data > counter; get and try_get agree; set_global lands in the global layer, set_index in the counter layer, caller data untouched',
                        {'name': 'k', 'layers defining k': 'all 2^3 combinations x 0..2 extra scopes (each defining k or not)'}) as ob:
        fenv = FindByPlace()
        ex = Executor(P, models_with(fenv.models() + registers_models())); ex.seed = chk.seed
        ob.stubs += ['find/try_find: uninterpreted, result names the map (place) that answered']
        for in_global, in_data, in_counter in itertools.product((False, True), repeat=3):
            for extra in ([], [False], [True], [False, True], [True, False]):
                st = State()
                st, rt, dref = build_runtime(ex, P, st, ('k',) if in_data else ())
                rtv = st.deref(rt)
                gplace = f'map@{rt.alloc}{list(rt.path + (1, 0))}'
                iplace = f'map@{rt.alloc}{list(rt.path + (0, 0, 1, 0))}'
                dplace = f'map@{dref.alloc}{list(dref.path)}'
                f_si = P.find_method('GlobalFrame', 'set_index', 'Runtime', 'core'); f_sg = P.find_method('GlobalFrame', 'set_global', 'Runtime', 'core')
                f_new = P.find_method('StackFrame', 'new', None, 'core')
                top = rt; top_ty = 'GlobalFrame'
                states = [(st, top)]
                # pushes of plain scopes happen first (as a loop body / include would), then the assignments are made THROUGH the top scope
                scope_places = []
                for i, defines in enumerate(extra):
                    new_states = []
                    for (s, t) in states:
                        d = s.ref(MapV(('k',) if defines else (), (VL,) if defines else (), 'HashMap'))
                        for s2, kind, v in ex.run(f_new, [t, d], s):
                            if kind != 'ret': raise Unsupported('StackFrame::new panicked')
                            new_states.append((s2, s2.ref(v)))
                        scope_places.append((defines, f'map@{d.alloc}{list(d.path)}'))
                    states = new_states; top_ty = 'StackFrame'
                def through(s, t, meth, name, val):
                    fn = P.find_method(top_ty, meth, 'Runtime', 'core')
                    outs = list(ex.run(fn, [t, StrV(name, 'KString'), val], s))
                    if len(outs) != 1 or outs[0][1] != 'ret':
                        return None, outs
                    return outs[0][0], outs
                for (s, t) in states:
                    bad = None
                    if in_counter:
                        s, outs = through(s, t, 'set_index', 'k', VC)
                        if s is None: bad = f'set_index through the stack: {[(k, str(v)[:80]) for _, k, v in outs]}'
                    if bad is None and in_global:
                        s, outs = through(s, t, 'set_global', 'k', VG)
                        if s is None: bad = f'set_global through the stack: {[(k, str(v)[:80]) for _, k, v in outs]}'
                    inner = [p for (d, p) in scope_places if d]
                    expect_place = inner[-1] if inner else (gplace if in_global else dplace if in_data else iplace if in_counter else None)
                    sc = precedence_scenario(in_global, in_data, in_counter, 1 if inner else 0)
                    if bad is None:
                        # where did the assignments land?
                        g = s.read(rt.alloc, rt.path + (1, 0)); ix = s.read(rt.alloc, rt.path + (0, 0, 1, 0)); dd = s.deref(dref)
                        if tuple(g.keys) != (('k',) if in_global else ()): bad = f'global layer holds {g} after set_global={in_global}'
                        elif tuple(ix.keys) != (('k',) if in_counter else ()): bad = f'counter layer holds {ix} after set_index={in_counter}'
                        elif tuple(dd.keys) != (('k',) if in_data else ()): bad = f'caller data modified: {dd}'
                    if bad is None:
                        res = {}
                        for which in ('try_get', 'get'):
                            fn = P.find_method(top_ty, which, 'Runtime', 'core')
                            s3 = s.clone(); path = mk_path(s3, ('k',))
                            outs = list(ex.run(fn, [t, path], s3))
                            ob.paths += len(outs); ob.reached()
                            if len(outs) != 1 or outs[0][1] != 'ret':
                                bad = f'{which} -> {[(k, str(v)[:60]) for _, k, v in outs]}'; break
                            v = outs[0][2]
                            present = v.variant in ('Some', 'Ok')
                            tok = value_token_st(outs[0][0], v.items[0]) if present else None
                            res[which] = (present, tok)
                            if (expect_place is None) != (not present): bad = f'{which}(k) present={present}, expected binding in {expect_place}'; break
                            if present and not (isinstance(tok, tuple) and tok[0] == 'FOUND' and tok[1] == expect_place):
                                bad = f'{which}(k) answered from {tok}, expected the innermost binding {expect_place}'; break
                        if bad is None and res['get'] != res['try_get']: bad = f'get/try_get disagree: {res}'
                    if bad:
                        ob.violation('build-stack/precedence', f'{bad} [k in global={in_global} data={in_data} counter={in_counter} scopes={extra}]',
                                     {'global': in_global, 'data': in_data, 'counter': in_counter, 'scopes': extra}, sc, confirm_expect(sc))
                    else:
                        ob.sample({'global': in_global, 'data': in_data, 'counter': in_counter, 'scopes': extra, 'answered_by': expect_place})
        ob.absorb(ex)


def ob_tags(chk, P):
    with chk.obligation('assign/capture/increment/decrement', 'assign = evaluate then exactly one set_global(name, value), writes nothing; capture renders its body into a private buffer, writes nothing '
                        'to the outer sink and set_globals exactly the captured text; increment prints v then stores v+1, decrement stores and prints v-1, both through the counter layer only',
                        {'values': 'symbolic', 'body': 'abstract child (0..1 chunks, Ok/Err)'}) as ob:
        ex = Executor(P, models_with(registers_models())); ex.seed = chk.seed
        # ---- assign
        fn = P.find_method('Assign', 'render_to', 'Renderable', 'lib')
        st = State(); penv = ParentEnv((), index_mode='symbolic'); sink = SinkEnv('W', may_fail=False)
        v = z3.BitVec('assigned', 64)
        src = Adt('FilterChain', None, [expr_stub(value_scalar(scalar_int(Int(v, 'i64'))), 'src', True), VecV([])], ['entry', 'filters'])
        self_ = st.ref(Adt('Assign', None, [StrV('x', 'KString'), src], ['dst', 'src']))
        for s2, kind, val in ex.run(fn, [self_, st.ref(sink.abs(), True), st.ref(penv.abs())], st):
            ob.paths += 1; ob.reached()
            pc = [c[1] for c in calls(s2, 'P')]
            bad = None
            if kind == 'panic': bad = f'assign panics: {val}'
            elif sink.log(s2): bad = f'assign wrote to the output: {sink.log(s2)}'
            elif val.variant == 'Ok':
                if len(pc) != 1 or pc[0][0] != 'set_global' or pc[0][1] != 'x' or 'assigned' not in pc[0][2]: bad = f'assign must set_global(x, value) exactly once: {pc}'
            elif pc: bad = f'assign failed but touched the runtime: {pc}'
            if bad:
                sc = {'kind': 'template', 'template': "{% assign x = y %}[{{x}}]{% assign x = 2 %}[{{x}}]", 'globals': {'y': 5, 'x': 9}, '_expect': '[5][2]'}
                ob.violation('Assign::render_to', bad, {}, sc, confirm_expect(sc))
        # ---- capture
        fn = P.find_method('Capture', 'render_to', 'Renderable', 'lib')
        for nchildren in (1, 2):
            st = State(); penv = ParentEnv(()); sink = SinkEnv('W', may_fail=False)
            kids = [ChildEnv(f'cap{i}', sink, max_writes=1, may_interrupt=False) for i in range(nchildren)]
            self_ = st.ref(Adt('Capture', None, [StrV('v', 'KString'), mk_template(st, kids)], ['id', 'template']))
            for s2, kind, val in ex.run(fn, [self_, st.ref(sink.abs(), True), st.ref(penv.abs())], st):
                ob.paths += 1
                pc = [c[1] for c in calls(s2, 'P') if c[1][0] in ('set_global', 'set_index')]
                outs = s2.env.get('child_outcomes', ())
                bad = None
                if kind == 'panic': bad = f'capture panics: {val}'
                elif sink.log(s2): bad = f'capture wrote to the outer sink: {sink.log(s2)}'
                else:
                    failed = any(o[2] == 'err' for o in outs)
                    if failed:
                        if val.variant != 'Err' or pc: bad = f'body failed but capture returned {val.variant} / bound {pc}'
                    else:
                        chunks = [f"('chunk', '{o[0]}', {o[1]})" for o in outs]
                        wrote = [c[1] for c in calls(s2, 'child')]
                        if val.variant != 'Ok' or len(pc) != 1 or pc[0][0] != 'set_global' or pc[0][1] != 'v': bad = f'capture must set_global(v, text) exactly once: {pc}'
                        else:
                            # the bound text is built from exactly the chunks the body wrote, in order
                            txt = pc[0][2]
                            want = [f"('chunk', 'cap{i}', 0)" for i in range(nchildren) if z3.is_true(z3.simplify(z3.BoolVal(True)))]
                            written = [w for w in want if w in txt]
                            order = [txt.index(w) for w in written]
                            if order != sorted(order): bad = f'captured chunks out of order: {txt}'
                            # chunks written are decided by the children's write choices: every chunk in the text must be from this body
                            if txt.count("('chunk'") != len(written): bad = f'captured text has foreign chunks: {txt}'
                if bad:
                    sc = {'kind': 'template', 'template': "{% capture v %}a{{x}}b{% endcapture %}[{{v}}]{% capture w %}{% capture v %}in{% endcapture %}out{% endcapture %}[{{v}}|{{w}}]{% capture v %}{% if false %}never{% endif %}{% endcapture %}[{{v}}]",
                          'globals': {'x': 1}, '_expect': '[a1b][in|out][]'}
                    ob.violation('Capture::render_to', bad, {}, sc, confirm_expect(sc))
        # ---- increment / decrement
        for ty, delta_print, delta_store in (('Increment', 0, 1), ('Decrement', -1, -1)):
            fn = P.find_method(ty, 'render_to', 'Renderable', 'lib')
            st = State(); penv = ParentEnv((), index_mode='symbolic'); sink = SinkEnv('W', may_fail=False)
            self_ = st.ref(Adt(ty, None, [StrV('n', 'KString')], ['id']))
            for s2, kind, val in ex.run(fn, [self_, st.ref(sink.abs(), True), st.ref(penv.abs())], st):
                ob.paths += 1
                pc = [c[1] for c in calls(s2, 'P')]
                bad = None
                m = ob.decide(ex, s2.conds, z3.BoolVal(True))
                present = z3.is_true(m.eval(z3.Bool('P_idx_n_present'), model_completion=True))
                if kind == 'panic': bad = f'{ty} panics: {val}'
                else:
                    log = sink.log(s2)
                    cur = z3.BitVec('P_idx_n', 64) if present else z3.BitVecVal(0, 64)
                    sets = [c for c in pc if c[0] == 'set_index']; gl = [c for c in pc if c[0] == 'set_global']
                    other = [c for c in pc if c[0] not in ('set_index', 'get_index')]
                    if gl: bad = f'{ty} touched the global layer: {gl}'
                    elif other: bad = f'{ty} must read and write the counter layer only (get_index/set_index), but also called {other}'
                    elif [c for c in pc if c[0] == 'get_index'] != [('get_index', 'n')]: bad = f'{ty} must read its counter exactly once: {pc}'
                    elif len(sets) != 1 or sets[0][1] != 'n': bad = f'{ty} must store through set_index(n) exactly once: {pc}'
                    elif len(log) != 1 or log[0][0] != 'ok': bad = f'{ty} must write exactly once: {log}'
                    else:
                        # printed and stored values, symbolically
                        printed = log[0][1][1]; stored = sets[0][2]
                        pexp = z3.simplify(cur + delta_print); sexp = z3.simplify(cur + delta_store)
                        def mentions(text, e):
                            return (str(e) in text) or (z3.is_bv_value(e) and str(e.as_signed_long()) in text)
                        if not mentions(repr(printed), pexp): bad = f'{ty} printed {printed}, expected {pexp}'
                        elif not mentions(stored, sexp): bad = f'{ty} stored {stored}, expected {sexp}'
                if bad:
                    sc = {'kind': 'template', 'template': '{% increment n %},{% increment n %},{% decrement n %},{% decrement m %},{% decrement m %},{% increment m %}|{% assign v = 5 %}{% decrement v %},{% increment w %},{{v}},{{w}}',
                          'globals': {'w': 9}, '_expect': '0,1,1,-1,-2,-2|-1,0,5,9'}
                    ob.violation(f'{ty}::render_to', bad, {}, sc, confirm_expect(sc))
        ob.absorb(ex)


def run(chk):
    P = chk.program(('core', 'lib', 'liquid'))
    ob_build_shape(chk, P)
    ob_precedence(chk, P)
    ob_tags(chk, P)
    # the per-frame lookup algebra (own key first, otherwise the parent, with the same path) is what "layer precedence" rests on: shared with C18
    from checks import C18
    for ft in C18.FRAMES:
        C18.ob_lookup(chk, P, ft, 2)
