"""C12 -- all views and conversions of a datum agree (facets: forwarding impls, integer narrowing, Value accessors)."""
import z3
from mirsym.exec import Executor, State, Unsupported
from mirsym.values import *
from checks.common import *

METHODS = ['render', 'source', 'type_name', 'query_state', 'to_kstr', 'to_value', 'as_scalar', 'as_array', 'as_object', 'as_state', 'is_nil']


def inner_view():
    def handler(ctx, me, args, st):
        m = method_of(ctx.callee)
        if m in METHODS or m == 'as_debug':
            log_call(st, 'inner', (m, repr(args[1]) if len(args) > 1 else None))
            return ret(st, Opaque(('RET', m)))
        return None
    return Abs('inner-view', handler)


def view_method(P, selfty, mname):
    """the method an impl provides, or -- when the impl does not override it -- the trait's provided body, which is what callers get"""
    try:
        return P.find_method(selfty, mname, 'ValueView', 'core')
    except Unsupported as e:
        if ': 0 candidates' not in str(e): raise
        return P.find(r'^fn (?:\w+::)*ValueView::' + mname + r'\(', 'core')


def state_arg():
    return Adt('State', 'Truthy', [])


def ob_forwarding(chk, P):
    with chk.obligation('ValueView/forwarding', 'every ValueView method of &T, Option<T> (Some) and ValueCow (Borrowed/Owned) returns exactly what the same method returns on the wrapped view '
                        '(one call, same arguments); Option::None and answers like Value::Nil',
                        {'methods': ', '.join(METHODS), 'wrappers': '&T, Option<T>::Some, Option<T>::None, ValueCow::Borrowed, ValueCow::Owned'}) as ob:
        ex = Executor(P, models_with([])); ex.seed = chk.seed
        for wrapper, selfty in (('&T', '&V'), ('Some', 'Option'), ('None', 'Option'), ('Borrowed', 'ValueCow'), ('Owned', 'ValueCow')):
            for mname in METHODS:
                fn = view_method(P, selfty, mname)
                st = State()
                inner = inner_view()
                extra = [state_arg()] if mname == 'query_state' else []
                if wrapper == '&T': recv = st.ref(st.ref(inner))
                elif wrapper == 'Some': recv = st.ref(Some(inner))
                elif wrapper == 'None': recv = st.ref(NONE)
                elif wrapper == 'Borrowed': recv = st.ref(Adt('ValueCow', 'Borrowed', [st.ref(inner)]))
                else: recv = st.ref(Adt('ValueCow', 'Owned', [value_scalar(scalar_int(Int(z3.BitVec('ov', 64), 'i64')))]))
                outs = list(ex.run(fn, [recv] + extra, st))
                ob.paths += len(outs); ob.reached()
                bad = None
                if len(outs) != 1 or outs[0][1] != 'ret': bad = f'{[(k, str(v)[:60]) for _, k, v in outs]}'
                else:
                    s2, _, val = outs[0]
                    cl = [c[1] for c in calls(s2, 'inner')]
                    if wrapper in ('&T', 'Some', 'Borrowed'):
                        if value_token(val) != ('RET', mname) if isinstance(val, Opaque) else True: bad = f'returned {val!r}, expected the wrapped view\'s answer'
                        elif len(cl) != 1 or cl[0][0] != mname: bad = f'wrapped view was asked {cl}, expected exactly [{mname}]'
                        elif mname == 'query_state' and 'Truthy' not in (cl[0][1] or ''): bad = f'query_state forwarded with another state: {cl}'
                    else:
                        # compare with the same method run directly on Value::Nil / the owned Value
                        base = VALUE_NIL if wrapper == 'None' else value_scalar(scalar_int(Int(z3.BitVec('ov', 64), 'i64')))
                        f2 = P.find_method('Value', mname, 'ValueView', 'core') if mname not in ('is_nil',) or True else None
                        try:
                            f2 = P.find_method('Value', mname, 'ValueView', 'core')
                        except Unsupported:
                            f2 = P.find(r'^fn (?:\w+::)*ValueView::' + mname + r'\(', 'core')
                        st2 = State()
                        o2 = list(ex.run(f2, [st2.ref(base)] + extra, st2))
                        if len(o2) != 1 or o2[0][1] != 'ret': bad = f'reference run: {[(k, str(v)[:60]) for _, k, v in o2]}'
                        else:
                            a, b = describe_result(s2, val), describe_result(o2[0][0], o2[0][2])
                            if a != b: bad = f'{wrapper}: {a} but the plain value answers {b}'
                if bad:
                    sc = {'kind': 'views'}
                    ob.violation(f'forwarding/{wrapper}/{mname}', f'<{wrapper} as ValueView>::{mname}: {bad}', {'wrapper': wrapper, 'method': mname}, sc, lambda r: r.get('outcome') == 'violation')
            ob.sample({'wrapper': wrapper})
        ob.absorb(ex)


def describe_result(st, v):
    v2 = st.deref_all(v) if isinstance(v, Ref) else v
    if isinstance(v2, Adt) and v2.ty == 'Option':
        return ('None',) if v2.variant == 'None' else ('Some', describe_result(st, v2.items[0]))
    if isinstance(v2, (Int, Bool)): return str(v2)
    if isinstance(v2, StrV): return ('str', v2.concrete() if v2.concrete() is not None else repr(v2))
    if isinstance(v2, Adt): return (v2.ty, v2.variant, tuple(describe_result(st, x) for x in v2.items))
    return repr(v2)


INT_TYPES_SRC = ['i8', 'i16', 'i32', 'i64', 'u8', 'u16', 'u32', 'u64']


def ob_narrowing(chk, P):
    with chk.obligation('serde/integer-narrowing', 'serialising a Rust integer of any width into a liquid scalar or value yields the same integer, or an error when it does not fit in i64 -- never a different integer',
                        {'types': ', '.join(INT_TYPES_SRC), 'values': 'all values of each type', 'serializers': 'ScalarSerializer, ValueSerializer'}) as ob:
        ex = Executor(P, models_with([])); ex.seed = chk.seed
        for ser in ('ScalarSerializer', 'ValueSerializer'):
            for ty in INT_TYPES_SRC:
                fn = P.find_method(ser, 'serialize_' + ty, 'Serializer', 'core')
                bits, sg = INT_TYPES[ty]
                x = z3.BitVec('x', bits)
                st = State()
                for s2, kind, val in ex.run(fn, [Adt(ser, None, []), Int(x, ty)], st):
                    ob.paths += 1; ob.reached()
                    wide = z3.SignExt(128 - bits, x) if sg else z3.ZeroExt(128 - bits, x)
                    fits = z3.And(wide >= z3.BitVecVal(-(1 << 63), 128), wide <= z3.BitVecVal((1 << 63) - 1, 128))
                    if kind == 'panic': post = z3.BoolVal(False)
                    elif val.variant == 'Err': post = z3.Not(fits)
                    else:
                        v = val.items[0]
                        sc = v.items[0] if (isinstance(v, Adt) and v.ty == 'Value' and v.variant == 'Scalar') else v
                        inner = sc.items[0] if isinstance(sc, Adt) and sc.ty == 'ScalarCow' else None
                        if inner is not None and inner.variant == 'Integer':
                            post = z3.And(fits, z3.SignExt(64, inner.items[0].e) == wide)
                        elif inner is not None and inner.variant == 'Float':
                            post = z3.Not(fits)
                        else: post = z3.BoolVal(False)
                    m = ob.decide(ex, s2.conds, z3.Not(post))
                    if m is not None:
                        xv = m.eval(x, model_completion=True); xv = xv.as_signed_long() if sg else xv.as_long()
                        ob.violation(f'narrowing/{ser}/{ty}', f'{ser}::serialize_{ty}({xv}) -> {kind} {val}', {'type': ty, 'value': xv},
                                     {'kind': 'narrow', 'type': ty, 'value': str(xv), 'serializer': ser}, lambda r, xv=xv: r.get('outcome') == 'ok' and r.get('integer') not in (None, xv) or r.get('outcome') == 'panic' or (r.get('outcome') == 'ok' and r.get('is_err') == (-(1 << 63) <= xv <= (1 << 63) - 1)))
                ob.sample({'serializer': ser, 'type': ty})
        ob.absorb(ex)


STATES = ['Truthy', 'DefaultValue', 'Empty', 'Blank']


def ob_owned_agreement(chk, P):
    with chk.obligation('views/agree-with-owned-value', 'every concrete view of a datum (Rust integers, floats, booleans, the five string types, ScalarCow, Vec, Object/HashMap/BTreeMap, State) answers '
                        'query_state (truthy / default / empty / blank), type_name and is_nil exactly as the owned Value holding the same datum does, and its source()/render() are the same kind of printer',
                        {'scalars': 'every i64 / f64 / bool', 'strings': '0..2 characters, each any Unicode scalar value, as &str, String, KString, KStringCow, KStringRef', 'containers': '0..1 elements / entries'}) as ob:
        from checks.C13 import sym_string, str_value
        from mirsym.models.maps import MapV
        ex = Executor(P, models_with([])); ex.seed = chk.seed
        def cases():
            x = z3.BitVec('vx', 64); yield 'i64', 'i64', (lambda st: Int(x, 'i64')), (lambda st, v: value_scalar(scalar_int(Int(x, 'i64'))))
            f = z3.FP('vf', z3.Float64()); yield 'f64', 'f64', (lambda st: Float(f)), (lambda st, v: value_scalar(scalar_float(Float(f))))
            b = z3.Bool('vb'); yield 'bool', 'bool', (lambda st: Bool(b)), (lambda st, v: value_scalar(scalar_bool(Bool(b))))
            for ty in ('&str', 'String', 'KString', 'KStringCow', 'KStringRef'):
                for n in range(3):
                    yield f'{ty}/{n}', ty, (lambda st, n=n, ty=ty: StrV(sym_string(st, n), 'str' if ty == '&str' else ty)), (lambda st, v: str_value(list(v.chars)))
            el = value_scalar(scalar_int(Int(z3.BitVec('el', 64), 'i64')))
            for n in range(2):
                yield f'Vec/{n}', 'Vec', (lambda st, n=n: VecV([el] * n, 'Vec')), (lambda st, v: Adt('Value', 'Array', [VecV(list(v.items), 'Vec')]))
                for kind, ty in (('HashMap', 'HashMap'), ('BTreeMap', 'BTreeMap')):
                    yield f'{ty}/{n}', ty, (lambda st, n=n, kind=kind: MapV(('k',) * n, (el,) * n, kind)), (lambda st, v: Adt('Value', 'Object', [MapV(v.keys, v.items, 'Object')]))
            for sv in STATES:
                yield f'State::{sv}', 'State', (lambda st, sv=sv: Adt('State', sv, [])), (lambda st, v: Adt('Value', 'State', [v]))
        for name, selfty, mk_view, mk_owned in cases():
            for mname, extra_of in [('query_state', s_) for s_ in STATES] + [('type_name', None), ('is_nil', None), ('source', None), ('render', None)]:
                st = State()
                view = mk_view(st)
                owned = mk_owned(st, view)
                extra = [Adt('State', extra_of, [])] if extra_of else []
                try:
                    f1 = view_method(P, selfty, mname); f2 = view_method(P, 'Value', mname)
                except Unsupported as e:
                    if 'candidates' in str(e) and selfty in ('&str',):      # `impl ValueView for &str` is printed with a lifetime: look it up by its header text
                        raise
                    raise
                recv = st.ref(st.ref(view)) if selfty == '&str' else st.ref(view)
                o1 = list(ex.run(f1, [recv] + extra, st.clone()))
                for s1, k1, v1 in o1:
                    ob.paths += 1; ob.reached()
                    if k1 != 'ret':
                        ob.violation(f'views/{selfty}/{mname}/panic', f'<{selfty} as ValueView>::{mname} ends with {k1} {v1}', {'view': name}, {'kind': 'views'}, lambda r: r.get('outcome') == 'violation'); continue
                    for s2, k2, v2 in ex.run(f2, [s1.ref(owned)] + extra, s1.clone()):
                        ob.paths += 1
                        a, b = answer(s1, v1), answer(s2, v2)
                        if isinstance(a, z3.ExprRef) or isinstance(b, z3.ExprRef):
                            ea = a if isinstance(a, z3.ExprRef) else z3.BoolVal(a); eb = b if isinstance(b, z3.ExprRef) else z3.BoolVal(b)
                            m = ob.decide(ex, s2.conds, ea != eb)
                            bad = m is not None
                        else:
                            ob.decide(ex, s2.conds, z3.BoolVal(a != b)); bad = a != b; m = None
                        if bad:
                            what = f'<{selfty} as ValueView>::{mname}' + (f'({extra_of})' if extra_of else '') + f' on {name}: the view answers {a}, the owned value answers {b}'
                            sc = {'kind': 'views'}
                            if isinstance(view, StrV):          # string views: hand the solver's string to the native driver, which compares every string type with the owned value
                                mm = m if m is not None else ob.decide(ex, s2.conds, z3.BoolVal(True))
                                if mm is not None:
                                    txt = ''.join(chr(c) if isinstance(c, int) else chr(mm.eval(c, model_completion=True).as_long()) for c in view.chars)
                                    sc = {'kind': 'views', 'strings': [txt]}; what += f' (string {txt!r})'
                            ob.violation(f'views/{selfty}/{mname}' + (f'/{extra_of}' if extra_of else ''), what, {'view': name, 'method': mname, 'state': extra_of}, sc, lambda r: r.get('outcome') == 'violation')
            ob.sample({'view': name})
        ob.absorb(ex)


def answer(st, v):
    """comparable summary of a method result: bool expression / string / printer kind"""
    v2 = st.deref_all(v) if isinstance(v, Ref) else v
    if isinstance(v2, Bool):
        c = v2.concrete()
        return c if c is not None else v2.e
    if isinstance(v2, StrV): return v2.concrete()
    if isinstance(v2, Adt) and v2.ty == 'DisplayCow':
        inner = st.deref_all(v2.items[0]) if v2.items else None
        while isinstance(inner, Adt) and inner.ty in ('Box',): inner = st.deref_all(inner.items[0])
        return ('printer', printer_kind(inner))
    return repr(v2)


def printer_kind(inner):
    """ObjectSource/ObjectRender, ArraySource/ArrayRender, or 'scalar' for everything that prints a scalar"""
    if isinstance(inner, Adt) and inner.ty in ('ObjectSource', 'ObjectRender', 'ArraySource', 'ArrayRender'): return inner.ty
    if isinstance(inner, Adt) and inner.ty in ('StrDisplay', 'StrSource', 'ScalarDisplay', 'ScalarSource'): return inner.ty
    return type(inner).__name__ + ':' + (inner.ty if isinstance(inner, Adt) else '')


def ob_serde_facets(chk, P):
    with chk.obligation('serde/variant-naming-and-dispatch', "enum variants are keyed by the VARIANT name (never the enum's type name) by the value and object serializers; "
                        "ValueDeserializer::deserialize_any hands the visitor the kind the value has: an integer scalar as an integer (also when it would fit a float), "
                        "a non-integral number as a float, then bool, sequence, unit (strings: Cow<str> is flattened in the string model, not covered)",
                        {'serializers': 'ValueSerializer, ObjectSerializer: serialize_tuple_variant, serialize_struct_variant', 'values': 'any i64, any f64, any bool, array, nil'}) as ob:
        ex = Executor(P, models_with([])); ex.seed = chk.seed
        # ---- variant naming
        for ser in ('ValueSerializer', 'ObjectSerializer'):
            for meth in ('serialize_tuple_variant', 'serialize_struct_variant'):
                try:
                    fn = P.find_method(ser, meth, 'Serializer', 'core')
                except Unsupported as e:
                    ob.inconclusive(str(e)); continue
                st = State()
                argv = [Adt(ser, None, []), st.ref(StrV('EnumTypeName', 'str')), Int(3, 'u32'), st.ref(StrV('VariantName', 'str')), Int(2, 'usize')]
                for s2, kind, val in ex.run(fn, argv, st):
                    ob.paths += 1; ob.reached()
                    txt = repr(s2.deref_all(val.items[0])) if kind == 'ret' and isinstance(val, Adt) and val.variant == 'Ok' else f'{kind} {val}'
                    bad = ('VariantName' not in txt) or ('EnumTypeName' in txt)
                    ob.decide(ex, s2.conds, z3.BoolVal(bad))
                    if bad:
                        ob.violation(f'serde/{ser}/{meth}', f'{ser}::{meth}("EnumTypeName", 3, "VariantName", 2) builds {txt[:200]}', {}, {'kind': 'views'}, lambda r: r.get('outcome') == 'violation')
        # ---- deserialize_any dispatch
        try:
            fn = P.find_method('&mut ValueDeserializer', 'deserialize_any', 'Deserializer', 'core')
        except Unsupported:
            fn = P.find(r'^fn (?:\w+::)*<impl at crates/core/src/model/value/ser.rs:\d+:\d+: \d+:\d+>::deserialize_any', 'core')
        x = z3.BitVec('dx', 64); f = z3.FP('df', z3.Float64()); b = z3.Bool('db')
        def visitor():
            def h(ctx, me, args, st):
                m = method_of(ctx.callee)
                if m.startswith('visit_'):
                    log_call(st, 'visit', m)
                    return ret(st, Ok(Opaque(('visited', m))))
                return None
            return Abs('visitor', h)
        cases = [('integer', value_scalar(scalar_int(Int(x, 'i64'))), {'visit_i64'}), ('float', value_scalar(scalar_float(Float(f))), None), ('bool', value_scalar(scalar_bool(Bool(b))), {'visit_bool'}),
                 ('nil', VALUE_NIL, {'visit_unit', 'visit_none'}),
                 ('array', Adt('Value', 'Array', [VecV([], 'Vec')]), {'visit_seq'})]
        for name, v, want in cases:
            st = State()
            de = st.ref(Adt('ValueDeserializer', None, [st.ref(v)], ['input']), True)
            for s2, kind, val in ex.run(fn, [de, visitor()], st):
                ob.paths += 1; ob.reached()
                seen = [c[1] for c in calls(s2, 'visit')]
                if name == 'float':
                    # a float scalar is an integer for the value model exactly when it is integral and in range (to_integer); otherwise it must reach visit_f64
                    ok = len(seen) == 1 and seen[0] in ('visit_f64', 'visit_i64')
                    bad_c = z3.BoolVal(not ok)
                    if ok and seen[0] == 'visit_i64':
                        bad_c = z3.Not(z3.fpEQ(z3.fpRoundToIntegral(z3.RTZ(), f), f))      # handed over as an integer although it has a fractional part
                else:
                    bad_c = z3.BoolVal(not (kind == 'ret' and len(seen) == 1 and seen[0] in want))
                m = ob.decide(ex, s2.conds, bad_c)
                if m is not None:
                    ob.violation(f'serde/deserialize_any/{name}', f'deserialize_any on a {name} value called {seen} ({kind} {str(val)[:80]})', {'kind': name}, {'kind': 'views'}, lambda r: r.get('outcome') == 'violation')
        ob.absorb(ex)


DERIVED = {
    'ForloopObject': (r'::new\(_1: usize, _2: usize\) -> ForloopObject', 2,
                      "{% for x in (1..2) %}@{% for kv in forloop %}{{kv[0]}}={{kv[1]}},{% endfor %}|{{forloop.size}}|{{forloop.length}},{{forloop.parentloop}},{{forloop.index0}},{{forloop.index}},{{forloop.rindex0}},{{forloop.rindex}},{{forloop.first}},{{forloop.last}},;{% endfor %}",
                      lambda i, n: [('length', n), ('parentloop', ''), ('index0', i), ('index', i + 1), ('rindex0', n - i - 1), ('rindex', n - i), ('first', str(i == 0).lower()), ('last', str(i == n - 1).lower())]),
    'TableRowObject': (r'::new\(_1: usize, _2: usize, _3: usize, _4: usize\) -> TableRowObject', 4,
                       "{% tablerow x in (1..2) cols:2 %}@{% for kv in tablerow %}{{kv[0]}}={{kv[1]}},{% endfor %}|{{tablerow.size}}|{{tablerow.length}},{{tablerow.index0}},{{tablerow.index}},{{tablerow.rindex0}},{{tablerow.rindex}},{{tablerow.first}},{{tablerow.last}},{{tablerow.col0}},{{tablerow.col}},{{tablerow.col_first}},{{tablerow.col_last}},;{% endtablerow %}",
                       lambda i, n: [('length', n), ('index0', i), ('index', i + 1), ('rindex0', n - i - 1), ('rindex', n - i), ('first', str(i == 0).lower()), ('last', str(i == n - 1).lower()),
                                     ('col0', i), ('col', i + 1), ('col_first', str(i == 0).lower()), ('col_last', str(i == 1).lower())]),
}


def derived_expected(ty):
    _, _, _, rec = DERIVED[ty]
    out = ''
    for i in range(2):
        fields = rec(i, 2)
        body = '@' + ''.join(f'{k}={v},' for k, v in fields) + f'|{len(fields)}|' + ','.join(str(v) for _, v in fields) + ',;'
        out += (f'<tr class="row1">' if (ty == 'TableRowObject' and i == 0) else '') + (f'<td class="col{i + 1}">' + body + '</td>' if ty == 'TableRowObject' else body)
    return out + ('</tr>' if ty == 'TableRowObject' else '')


def derived_normalise(out):
    """the order in which a template iterates over an object is unspecified: sort the k=v items of every listing"""
    import re
    return re.sub(r'@((?:[^,|@]*,)+)\|', lambda m: '@' + ''.join(sorted(x + ',' for x in m.group(1)[:-1].split(','))) + '|', out or '')


def ob_derive(chk, P):
    from mirsym.models.iters import drain, iter_arg
    with chk.obligation('derive/object-view', 'the ObjectView/ValueView code the derive macros generate for the in-repository structs (forloop, tablerow records) maps every field NAME to exactly that field: '
                        'get(name) is the field called name and nothing for every other name, contains_key agrees with get, size is the number of fields, keys/values/iter list every field exactly once (iter pairs each name with its own field; the order is not part of the claim), '
                        'and the record answers as an object (as_object is itself, is_nil false, truthy)',
                        {'records': 'ForloopObject, TableRowObject with every field an independent symbolic value', 'names': 'every string of 0..12 symbolic characters (any Unicode scalar value)'}) as ob:
        from mirsym.models.strings import valid_char
        ex = Executor(P, ALL_MODELS); ex.seed = chk.seed; ex.max_steps = 100000
        ob.assumptions += ['only the instantiations of the derive macros that exist in the repository are executed (a derive on a user struct is outside)']
        for ty, (newpat, nargs, tpl, _) in DERIVED.items():
            fn_new = P.find(newpat, 'lib')
            shape = None
            for s2, k, v in ex.run(fn_new, [Int(z3.BitVecVal(a, 64), 'usize') for a in ((0, 2) if nargs == 2 else (0, 2, 0, 2))], State()):
                if k == 'ret': shape = v
            if shape is None: raise Unsupported(f'{ty}::new did not return')
            names = list(shape.names)
            items = []
            for j, it in enumerate(shape.items):
                if isinstance(it, Int): items.append(Int(z3.BitVec(f'f{j}', 64), it.ty))
                elif isinstance(it, Bool): items.append(Bool(z3.Bool(f'f{j}')))
                else: items.append(it)
            rec = Adt(ty, None, items, names)
            sc = {'kind': 'template', 'template': tpl}
            chk.validate(f'derive/{ty}/template-view', derived_normalise(derived_expected(ty)), sc, lambda res: derived_normalise(res.get('output')))
            conf = lambda r, e=derived_normalise(derived_expected(ty)): r.get('outcome') != 'ok' or derived_normalise(r.get('output')) != e
            def bad(role, what, witness):
                ob.violation(f'derive/{ty}/{role}', what, witness, sc, conf)
            m = {k: P.find_method(ty, k, 'ObjectView', 'lib') for k in ('get', 'contains_key', 'size', 'keys', 'values', 'iter')}
            maxlen = max(len(n) for n in names) + 1
            for ln in range(0, maxlen + 1):
                st = State(); cs = [z3.BitVec(f'n{i}', 32) for i in range(ln)]
                for c in cs: st.assume(valid_char(c))
                r_rec = st.ref(rec)
                for s2, k, v in ex.run(m['get'], [r_rec, st.ref(StrV(cs, 'str'))], st):
                    ob.paths += 1; ob.reached()
                    same = [j for j, n in enumerate(names) if len(n) == ln]
                    is_name = {j: (z3.And(*[c == ord(ch) for c, ch in zip(cs, names[j])]) if ln else z3.BoolVal(True)) for j in same}
                    if k != 'ret':
                        mm = ob.decide(ex, s2.conds, z3.BoolVal(True)); bad('get/panic', f'{ty}::get ends with {k} {v}', {}); continue
                    if v.variant == 'Some' and isinstance(v.items[0], Ref) and v.items[0].alloc == r_rec.alloc and len(v.items[0].path) == 1:
                        j = v.items[0].path[0]
                        post = is_name.get(j, z3.BoolVal(False))
                        desc = f'field #{j} ({names[j] if j < len(names) else "?"})'
                    elif v.variant == 'None':
                        post = z3.Not(z3.Or(*is_name.values())) if is_name else z3.BoolVal(True); desc = 'nothing'
                    else:
                        post = z3.BoolVal(False); desc = repr(v)
                    mm = ob.decide(ex, s2.conds, z3.Not(post))
                    if mm is not None:
                        nm = ''.join(chr(mm.eval(c, model_completion=True).as_long()) for c in cs)
                        bad('get/wrong-field', f'{ty}::get({nm!r}) answers with {desc}', {'name': nm})
                    # contains_key agrees with get on the same path
                    for s3, k3, v3 in ex.run(m['contains_key'], [r_rec, s2.ref(StrV(cs, 'str'))], s2.clone()):
                        ob.paths += 1
                        want = v.variant == 'Some'
                        ok = k3 == 'ret' and isinstance(v3, Bool)
                        mm = ob.decide(ex, s3.conds, z3.BoolVal(True) if not ok else (v3.e != z3.BoolVal(want)))
                        if mm is not None:
                            nm = ''.join(chr(mm.eval(c, model_completion=True).as_long()) for c in cs)
                            bad('contains_key/disagrees-with-get', f'{ty}::contains_key({nm!r}) is {v3} while get gives {desc}', {'name': nm})
            # size / keys / values / iter
            st = State(); r_rec = st.ref(rec)
            for s2, k, v in ex.run(m['size'], [r_rec], st.clone()):
                ob.paths += 1
                if not (k == 'ret' and isinstance(v, Int) and v.concrete() == len(names)): bad('size', f'{ty}::size is {v}, the record has {len(names)} fields', {})
            def listing(which):
                for s2, k, v in ex.run(m[which], [r_rec], st.clone()):
                    ob.paths += 1
                    if k != 'ret':
                        yield None; continue
                    d, _ = iter_arg(s2, v)
                    for s3, got in drain(ex, s2, d.data, 0):
                        yield s3, got
            for r in listing('keys'):
                got = None if r is None or isinstance(r[1], tuple) else [''.join(chr(c) for c in r[0].deref_all(x).chars) if hasattr(r[0].deref_all(x), 'chars') else repr(x) for x in r[1]]
                if got is None or sorted(got) != sorted(names): bad('keys', f'{ty}::keys lists {got}, the fields are {names}', {})
            for r in listing('values'):
                got = None if r is None or isinstance(r[1], tuple) else [(x.alloc == r_rec.alloc and x.path) if isinstance(x, Ref) else repr(x) for x in r[1]]
                if got is None or sorted(map(repr, got)) != sorted(repr((j,)) for j in range(len(names))): bad('values', f'{ty}::values lists {got}', {})
            for r in listing('iter'):
                got = None
                if r is not None and not isinstance(r[1], tuple):
                    got = []
                    for x in r[1]:
                        kk, vv = x.items[0], x.items[1]
                        ks = r[0].deref_all(kk)
                        got.append((''.join(chr(c) for c in ks.chars) if hasattr(ks, 'chars') else repr(kk), (vv.alloc == r_rec.alloc and vv.path) if isinstance(vv, Ref) else repr(vv)))
                if got is None or sorted(map(repr, got)) != sorted(repr((n, (j,))) for j, n in enumerate(names)): bad('iter', f'{ty}::iter lists {got}', {})
            # the record as a value
            for meth, want in (('is_nil', 'false'), ('as_object', 'self'), ('type_name', 'object')):
                try:
                    f = view_method(P, ty, meth) if False else P.find_method(ty, meth, 'ValueView', 'lib')
                except Unsupported:
                    f = P.find(r'^fn (?:\w+::)*ValueView::' + meth + r'\(', 'core')
                for s2, k, v in ex.run(f, [r_rec], st.clone()):
                    ob.paths += 1
                    if meth == 'is_nil': ok = k == 'ret' and isinstance(v, Bool) and v.concrete() is False
                    elif meth == 'as_object': ok = k == 'ret' and v.variant == 'Some' and isinstance(v.items[0], Ref) and v.items[0].alloc == r_rec.alloc and not v.items[0].path
                    else: ok = k == 'ret' and ''.join(chr(c) for c in s2.deref_all(v).chars) == 'object'
                    if not ok: bad(meth, f'{ty}::{meth} answers {v}', {})
            for state, want in (('Truthy', True), ('DefaultValue', False), ('Empty', False), ('Blank', False)):
                f = P.find_method(ty, 'query_state', 'ValueView', 'lib')
                for s2, k, v in ex.run(f, [r_rec, Adt('State', state, [])], st.clone()):
                    ob.paths += 1
                    if not (k == 'ret' and isinstance(v, Bool) and v.concrete() is want): bad('query_state', f'{ty}::query_state({state}) answers {v}', {})
            ob.sample({'record': ty, 'fields': names})
        ob.absorb(ex)


def run(chk):
    P = chk.program(('core', 'lib'))
    ob_forwarding(chk, P)
    ob_owned_agreement(chk, P)
    ob_narrowing(chk, P)
    ob_serde_facets(chk, P)
    ob_derive(chk, P)
