"""Harness tables for the Kani engine (E1): argument types of the kani::any() calls (in call order), native scenario, confirmation."""
import struct


def _sv(kind, v):
    if kind == 'i64': return {'kind': 'i64', 'bits': v & 0xFFFFFFFFFFFFFFFF}
    if kind == 'f64': return {'kind': 'f64', 'bits': v[1] if isinstance(v, tuple) else struct.unpack('<Q', struct.pack('<d', float(v)))[0]}
    return {'kind': 'bool', 'bits': 1 if v else 0}


def laws_broken(r):
    """the C11 laws on a native scalar_rel result; returns list of broken law names"""
    bad = []
    if r['eq_ab'] != r['eq_ba']: bad.append('== symmetric')
    if r['ne_ab'] != (not r['eq_ab']): bad.append('!= negation')
    if r['lt_ab'] != r['gt_ba'] or r['gt_ab'] != r['lt_ba']: bad.append('< > dual')
    if r['le_ab'] != r['ge_ba'] or r['ge_ab'] != r['le_ba']: bad.append('<= >= dual')
    rev = {'lt': 'gt', 'gt': 'lt', 'eq': 'eq', 'none': 'none'}
    if rev[r['cmp_ab']] != r['cmp_ba']: bad.append('partial_cmp antisymmetric')
    c = r['cmp_ab']
    if c != 'none':
        if (c == 'eq') != r['eq_ab']: bad.append('Equal iff ==')
        if r['lt_ab'] != (c == 'lt') or r['gt_ab'] != (c == 'gt'): bad.append('< > match partial_cmp')
        if r['le_ab'] != (r['lt_ab'] or r['eq_ab']) or r['ge_ab'] != (r['gt_ab'] or r['eq_ab']): bad.append('<= is < or ==')
        if r['eq_ab'] and (r['lt_ab'] or r['gt_ab']): bad.append('equal yet strictly ordered')
    else:
        if r['lt_ab'] or r['gt_ab'] or r['le_ab'] or r['ge_ab']: bad.append('unordered yet related')
    if r['value_eq_ab'] != r['eq_ab'] or r['value_eq_ba'] != r['eq_ab'] or r['cow_eq_ab'] != r['eq_ab'] or r['cow_value_eq'] != r['eq_ab']: bad.append('Value/ValueCow layers disagree')
    if r['nil_eq_a'] != r['a_eq_nil'] or not r['nil_eq_nil']: bad.append('nil comparison')
    return bad


def pair_spec(name, ta, tb):
    return dict(name=name, types=[ta, tb], desc=f'scalar equality/ordering laws for every ({ta}, {tb}) pair: == symmetric, != negation, < > and <= >= duals, partial_cmp antisymmetric, '
                'Equal exactly when ==, <= is < or ==, equal values never strictly ordered',
                bounds={'a': f'all {ta} values (all bit patterns)', 'b': f'all {tb} values'},
                scenario=lambda vals, ta=ta, tb=tb: {'kind': 'scalar_rel', 'a': _sv(ta, vals[0]), 'b': _sv(tb, vals[1])},
                confirm=lambda vals: (lambda r: r.get('outcome') != 'ok' or bool(laws_broken(r))))


C11_SPECS = [pair_spec('c11_laws_int_int', 'i64', 'i64'), pair_spec('c11_laws_int_float', 'i64', 'f64'), pair_spec('c11_laws_float_int', 'f64', 'i64'),
             pair_spec('c11_laws_float_float', 'f64', 'f64'), pair_spec('c11_laws_bool_bool', 'bool', 'bool'), pair_spec('c11_laws_int_bool', 'i64', 'bool'),
             pair_spec('c11_laws_bool_int', 'bool', 'i64'), pair_spec('c11_laws_float_bool', 'f64', 'bool'), pair_spec('c11_laws_bool_float', 'bool', 'f64')]
for _n, _t in (('c11_reflexive_int', 'i64'), ('c11_reflexive_float', 'f64'), ('c11_reflexive_bool', 'bool')):
    C11_SPECS.append(dict(name=_n, types=[_t], desc=f'== is reflexive for every {_t} (NaN excepted) and partial_cmp(a, a) is Equal', bounds={'a': f'all {_t} values'},
                          scenario=lambda vals, t=_t: {'kind': 'scalar_rel', 'a': _sv(t, vals[0]), 'b': _sv(t, vals[0])},
                          confirm=lambda vals, t=_t: (lambda r: r.get('outcome') != 'ok' or (not r['eq_aa'] and not (t == 'f64' and _isnan(vals[0]))) or (r['eq_aa'] and t == 'f64' and _isnan(vals[0])))))


def _isnan(v):
    bits = v[1] if isinstance(v, tuple) else 0
    return (bits & 0x7FF0000000000000) == 0x7FF0000000000000 and (bits & 0xFFFFFFFFFFFFF) != 0


def _f(x):
    return struct.unpack('<Q', struct.pack('<d', float(x)))[0]


C11_SPECS.append(dict(name='c11_int_float_same_number', types=['i64', 'i64'], desc='an integer x and the float of integer y (|x|,|y| <= 2^53) are equal exactly when x == y, and ordered as x and y are',
                      bounds={'x,y': 'all integers in [-2^53, 2^53]'},
                      scenario=lambda vals: {'kind': 'scalar_rel', 'a': _sv('i64', vals[0]), 'b': {'kind': 'f64', 'bits': _f(vals[1])}},
                      confirm=lambda vals: (lambda r: r.get('outcome') != 'ok' or r['eq_ab'] != (vals[0] == vals[1]) or r['eq_ba'] != (vals[0] == vals[1])
                                            or r['cmp_ab'] != ('lt' if vals[0] < vals[1] else 'gt' if vals[0] > vals[1] else 'eq'))))
for _n, _ta, _tb in (('c11_layers_int_float', 'i64', 'f64'), ('c11_layers_bool_int', 'bool', 'i64'), ('c11_layers_float_float', 'f64', 'f64')):
    C11_SPECS.append(dict(name=_n, types=[_ta, _tb], desc=f'Value == Value, ValueCow == ValueCow and ValueCow == Value agree with ScalarCow == for every ({_ta}, {_tb}) pair',
                          bounds={'a': f'all {_ta}', 'b': f'all {_tb}'},
                          scenario=lambda vals, ta=_ta, tb=_tb: {'kind': 'scalar_rel', 'a': _sv(ta, vals[0]), 'b': _sv(tb, vals[1])},
                          confirm=lambda vals: (lambda r: r.get('outcome') != 'ok' or 'Value/ValueCow layers disagree' in laws_broken(r))))
for _n, _t in (('c11_nil_int', 'i64'), ('c11_nil_bool', 'bool'), ('c11_nil_float', 'f64')):
    C11_SPECS.append(dict(name=_n, types=[_t], desc=f'nil == nil; comparing nil with any {_t} scalar is symmetric', bounds={'a': f'all {_t}'},
                          scenario=lambda vals, t=_t: {'kind': 'scalar_rel', 'a': _sv(t, vals[0]), 'b': _sv(t, vals[0])},
                          confirm=lambda vals: (lambda r: r.get('outcome') != 'ok' or 'nil comparison' in laws_broken(r))))

C11_SPECS.append(dict(name='c11_laws_datetime_datetime', types=['i32', 'i32', 'i8', 'i8'], desc='comparison laws for two date-times (base +- 90000 s, whole-hour offsets -12..+14): symmetry, duality, antisymmetry, Equal exactly when ==, equal values never strictly ordered',
                      bounds={'instants': 'base +- 90000 seconds', 'offsets': '-12..+14 whole hours'},
                      scenario=lambda vals: {'kind': 'scalar_rel', 'a': {'kind': 'datetime', 'days': 0, 'secs': vals[0], 'off': _i8(vals[2])}, 'b': {'kind': 'datetime', 'days': 0, 'secs': vals[1], 'off': _i8(vals[3])}},
                      confirm=lambda vals: (lambda r: r.get('outcome') != 'ok' or bool(laws_broken(r)))))
C11_SPECS.append(dict(name='c11_laws_date_datetime', types=['i8', 'i8', 'i32', 'i8'], desc='comparison laws for a date against a date-time (either side): symmetry, duality, antisymmetry, Equal exactly when ==',
                      bounds={'date': 'base +- 1 day', 'date-time': 'base +- 1 day, any second of the day, whole-hour offsets -12..+14'},
                      scenario=lambda vals: {'kind': 'scalar_rel', 'a': {'kind': 'date', 'days': _i8(vals[0])}, 'b': {'kind': 'datetime', 'days': _i8(vals[1]), 'secs': vals[2], 'off': _i8(vals[3])}},
                      confirm=lambda vals: (lambda r: r.get('outcome') != 'ok' or bool(laws_broken(r)))))


def _vec_confirm(vals):
    ln, idx = vals[0], vals[1]
    def f(r):
        if r.get('outcome') != 'ok': return True
        n = ln
        exp = (100 + idx) if 0 <= idx < n else ((100 + n + idx) if -n <= idx < 0 else None)
        return r['get'] != exp or r['contains_key'] != (exp is not None) or r['size'] != n or r['first'] != (n > 0) or r['last'] != (n > 0)
    return f


C07_SPECS = [dict(name='c07_vec_index', types=['usize', 'i64'], desc='<Vec<T> as ArrayView>::{get, contains_key, size, first, last} (instantiation T = i64): zero-based, negative indices from the end, '
                  'anything else is absent; contains_key agrees with get', bounds={'len': '0..5', 'index': 'every i64'},
                  scenario=lambda vals: {'kind': 'vec_index', 'len': vals[0], 'idx': vals[1]}, confirm=_vec_confirm)]


def _dt_confirm(vals):
    oa, ob, sa, sb = vals
    def f(r):
        if r.get('outcome') != 'ok': return True
        return r['eq'] != (sa == sb) or r['cmp'] != ('lt' if sa < sb else 'gt' if sa > sb else 'eq')
    return f


C17_SPECS = [dict(name='c17_datetime_order_is_chronological', types=['i8', 'i8', 'i32', 'i32'],
                  desc='two date-times (a base instant +- up to 100000 s, each shown in any whole-hour offset from -12:00 to +14:00) are equal exactly when they denote the same instant and are ordered chronologically',
                  bounds={'offsets': '-12..+14 hours (whole hours)', 'instants': 'base +- 100000 seconds'},
                  scenario=lambda vals: {'kind': 'datetime_cmp', 'oa': _i8(vals[0]), 'ob': _i8(vals[1]), 'sa': vals[2], 'sb': vals[3]}, confirm=_dt_confirm)]


def _dt_ns_confirm(vals):
    oa, ob, sa, sb, na, nb = vals
    def f(r):
        if r.get('outcome') != 'ok': return True
        ka, kb = (sa, na), (sb, nb)
        return r['eq'] != (ka == kb) or r['cmp'] != ('lt' if ka < kb else 'gt' if ka > kb else 'eq')
    return f


C17_SPECS.append(dict(name='c17_datetime_order_subsecond', types=['i8', 'i8', 'i32', 'i32', 'i32', 'i32'],
                      desc='two date-times within a few seconds of each other, each with any nanosecond part and shown in any whole-hour offset, are equal exactly when they denote the same instant to the nanosecond and are ordered chronologically',
                      bounds={'offsets': '-12..+14 hours (whole hours)', 'instants': 'base + (-2..2 s) + (0..999999999 ns)'},
                      scenario=lambda vals: {'kind': 'datetime_cmp', 'oa': _i8(vals[0]), 'ob': _i8(vals[1]), 'sa': vals[2], 'sb': vals[3], 'na': vals[4], 'nb': vals[5]}, confirm=_dt_ns_confirm))


def _i8(b):
    return b - 256 if isinstance(b, int) and b > 127 else b
