"""C16 -- escape / escape_once / url_encode / url_decode are safe and invertible (strip_html: regex engine, not encodable -> outside).

html.rs escape()/nr_escaped() and the url.rs filters are executed from MIR on strings of symbolic Unicode scalar values.
The byte-offset arithmetic of escape() (char_indices, &s[last..i], i + 1, skip counters) is executed on path-concrete byte
offsets: every symbolic character is forked into its UTF-8 length class, so an offset that lands inside a character is seen."""
import itertools
import z3
from mirsym.exec import Executor, State, Unsupported
from mirsym.values import *
from checks.common import *
from checks.C13 import sym_string, model_string, result_string, str_value, eq_chars
from mirsym.models.strings import ch_expr, valid_char

ENT = {ord('<'): '&lt;', ord('>'): '&gt;', ord('&'): '&amp;', ord('"'): '&quot;', ord("'"): '&#39;'}
NAMES = ['lt;', 'gt;', 'amp;', 'quot;', '#39;']     # what may follow '&' in an entity


def py_escape(s):
    return ''.join(ENT.get(ord(c), c) for c in s)


def py_escape_once(s):
    out = ''; i = 0
    while i < len(s):
        c = s[i]
        if c == '&':
            nm = next((n for n in NAMES if s.startswith(n, i + 1)), None)
            if nm is not None:
                out += '&' + nm; i += 1 + len(nm); continue
        out += ENT.get(ord(c), c); i += 1
    return out


def is_special(c):
    return z3.Or(*[ch_expr(c) == k for k in ENT])


def safe_output(res):
    """z3: no < > " ' in res and every & starts one of the five entities"""
    conds = []
    for j, c in enumerate(res):
        e = ch_expr(c)
        conds.append(z3.And(e != ord('<'), e != ord('>'), e != ord('"'), e != ord("'")))
        starts = [eq_chars(res[j + 1:j + 1 + len(n)], [ord(x) for x in n]) for n in NAMES if j + 1 + len(n) <= len(res)]
        conds.append(z3.Implies(e == ord('&'), z3.Or(*starts) if starts else z3.BoolVal(False)))
    return z3.And(*conds) if conds else z3.BoolVal(True)


def table_escape(cs):
    """[(condition, expected output)]: concat(entity(c) if special else c), truth table over 'which special / none' per character"""
    rows = []
    for combo in itertools.product([None] + list(ENT), repeat=len(cs)):
        conds = []; out = []
        for c, k in zip(cs, combo):
            if k is None: conds.append(z3.Not(is_special(c))); out.append(c)
            else: conds.append(ch_expr(c) == k); out += [ord(x) for x in ENT[k]]
        rows.append((z3.And(*conds) if conds else z3.BoolVal(True), out))
    return rows


def run_filter(ex, P, filt, st, cs):
    fn = P.find_method(filt, 'evaluate', 'Filter', 'lib')
    yield from ex.run(fn, [st.ref(Adt(filt, None, [])), st.ref(str_value(cs)), st.ref(Opaque(('RT',)))], st)


def ob_escape(chk, P, maxlen):
    with chk.obligation('escape/strings', "escape: the output contains none of < > \" ' and & only as the start of one of the five entities; replacing the entities back yields the input "
                        '(output == concatenation of entity(c) for the five specials and c otherwise); no panic (byte offsets never split a character)',
                        {'input': f'0..{maxlen} characters, each any Unicode scalar value (UTF-8 length class forked per character)'}) as ob:
        ex = Executor(P, models_with([])); ex.seed = chk.seed; ex.max_steps = 40000
        for n in range(maxlen + 1):
            st = State(); cs = sym_string(st, n)
            rows = table_escape(list(cs))
            for s2, kind, val in run_filter(ex, P, 'EscapeFilter', st, cs):
                ob.paths += 1; ob.reached()
                def report(role, what, m):
                    s = model_string(m, cs); exp = py_escape(s)
                    ob.violation(role, f'{what}: {s!r} | escape', {'input': s, 'expected': exp}, {'kind': 'template', 'template': '{{ s | escape }}', 'globals': {'s': s}},
                                 lambda r, e=exp: r.get('outcome') != 'ok' or r.get('output') != e)
                if kind == 'panic':
                    report('escape/panic', f'escape panics ({val})', ob.decide(ex, s2.conds, z3.BoolVal(True))); continue
                res = result_string(s2, val)
                if res is None:
                    report('escape/not-a-string', f'escape returns {val}', ob.decide(ex, s2.conds, z3.BoolVal(True))); continue
                post = z3.And(safe_output(res), table_post(rows, res))
                m = ob.decide(ex, s2.conds, z3.Not(post))
                if m is not None:
                    got = ''.join(chr(m.eval(ch_expr(c), model_completion=True).as_long()) for c in res)
                    unsafe = ob.decide(ex, s2.conds, z3.Not(safe_output(res)))
                    report('escape/unsafe-output' if unsafe is not None else 'escape/wrong-output', f'escape returns {got!r}', unsafe if unsafe is not None else m)
            ob.sample({'len': n})
        ob.absorb(ex)


def shaped_string(st, shape, name='c'):
    """shape: list of concrete code points (int), None (a fresh symbolic Unicode scalar value) or 'b' (a fresh symbolic character below U+0800: 1 or 2 bytes)"""
    cs = []
    for i, k in enumerate(shape):
        if k is None or k == 'b':
            c = z3.BitVec(f'{name}{i}', 32); st.assume(valid_char(c)); cs.append(c)
            if k == 'b': st.assume(z3.ULT(c, 0x800))
        else: cs.append(k)
    return cs


def mstring(m, cs):
    return ''.join(chr(c) if isinstance(c, int) else chr(m.eval(c, model_completion=True).as_long()) for c in cs)


def once_shapes(maxlen, tail):
    """general strings of 0..maxlen symbolic characters, plus entity-shaped strings: (one of '', 'é') + '&' + all but the last two
    characters of an entity name + `tail` symbolic characters -- complete entities, near-entities (&amp without ';', &lt;; ...)
    and the character right after a skipped entity, which an off-by-one in the skip counter would leave unescaped"""
    shapes = [[None] * n for n in range(maxlen + 1)]
    for nm in NAMES:
        shapes.append([ord('&')] + [ord(x) for x in nm[:-2]] + ['b'] * tail)
        shapes.append([0xE9, ord('&')] + [ord(x) for x in nm[:-2]] + ['b'] * (tail - 1))
    return shapes


def ob_escape_once(chk, P, maxlen, tail, twice_len):
    with chk.obligation('escape_once/strings', "escape_once: the output contains none of < > \" ' and & only as the start of one of the five entities; an existing entity is copied unchanged and everything "
                        'else is escaped as by escape (the output equals the reference scan); applying it twice equals applying it once; no panic',
                        {'input': f"every string of 0..{maxlen} characters (each any Unicode scalar value), plus the entity-shaped strings '&' + <entity name minus its last two characters> + {tail} characters below U+0800 (and the same after a leading 'é' with {tail - 1}), "
                                  'for each of the five entity names', 'idempotence': f'second application executed on the symbolic output (general strings up to {twice_len} characters and all shaped strings)'}) as ob:
        ex = Executor(P, models_with([])); ex.seed = chk.seed; ex.max_steps = 60000
        for shape in once_shapes(maxlen, tail):
            st = State(); cs = shaped_string(st, shape); n = len(cs)
            shaped = any(isinstance(k, int) for k in shape)
            rows = table_escape_once(list(cs))
            for s2, kind, val in run_filter(ex, P, 'EscapeOnceFilter', st, cs):
                ob.paths += 1; ob.reached()
                def report(role, what, m):
                    s = mstring(m, cs); exp = py_escape_once(s)
                    ob.violation(role, f'{what}: {s!r} | escape_once', {'input': s, 'expected': exp}, {'kind': 'template', 'template': '{{ s | escape_once }}|{{ s | escape_once | escape_once }}', 'globals': {'s': s}},
                                 lambda r, e=exp: r.get('outcome') != 'ok' or r.get('output') != e + '|' + e)
                if kind == 'panic':
                    report('escape_once/panic', f'escape_once panics ({val})', ob.decide(ex, s2.conds, z3.BoolVal(True))); continue
                res = result_string(s2, val)
                if res is None:
                    report('escape_once/not-a-string', f'escape_once returns {val}', ob.decide(ex, s2.conds, z3.BoolVal(True))); continue
                # (1) safety of the output
                m = ob.decide(ex, s2.conds, z3.Not(safe_output(res)))
                if m is not None:
                    report('escape_once/unsafe-output', f'escape_once returns {mstring(m, res)!r}', m); continue
                # (2) the reference scan (declarative truth table over character classes and "which entity name follows this &")
                m = ob.decide(ex, s2.conds, z3.Not(table_post(rows, res)))
                if m is not None:
                    report('escape_once/wrong-output', f'escape_once returns {mstring(m, res)!r}', m); continue
                # (3) idempotence: run the filter again on the symbolic output
                if shaped or n <= twice_len:
                    for s3, kind3, val3 in run_filter(ex, P, 'EscapeOnceFilter', s2.clone(), res):
                        ob.paths += 1
                        res3 = result_string(s3, val3) if kind3 == 'ret' else None
                        post3 = eq_chars(res3, res) if res3 is not None else z3.BoolVal(False)
                        m = ob.decide(ex, s3.conds, z3.Not(post3))
                        if m is not None:
                            got = mstring(m, res3) if res3 is not None else f'{kind3} {val3}'
                            report('escape_once/not-idempotent', f'second application gives {got!r}', m)
            ob.sample({'shape': ''.join(chr(k) if isinstance(k, int) else '?' for k in shape)})
        ob.absorb(ex)


def table_escape_once(cs):
    """reference: left-to-right scan; at an '&' followed by an entity name copy '&'+name, else escape the character.
    Truth table over (class of each char: one of the 5 specials / other) x (for '&' positions: which name follows, if any);
    returns [(condition, expected output)] -- computed once per input shape"""
    n = len(cs)
    rows = []
    def go(i, conds, out):
        if i >= n:
            rows.append((z3.And(*conds) if conds else z3.BoolVal(True), out)); return
        c = cs[i]
        if isinstance(c, int):
            if c not in ENT: go(i + 1, conds, out + [c]); return
            if c != ord('&'): go(i + 1, conds, out + [ord(x) for x in ENT[c]]); return
        else:
            go(i + 1, conds + [z3.Not(is_special(c))], out + [c])
            for k in ENT:
                if k != ord('&'):
                    go(i + 1, conds + [ch_expr(c) == k], out + [ord(x) for x in ENT[k]])
        # '&': an entity name follows, or none does
        amp = [] if isinstance(c, int) else [ch_expr(c) == ord('&')]
        follows = []
        for nm in NAMES:
            if i + 1 + len(nm) <= n:
                f = z3.simplify(eq_chars(cs[i + 1:i + 1 + len(nm)], [ord(x) for x in nm]))
                if z3.is_false(f): continue
                follows.append(f)
                go(i + 1 + len(nm), conds + amp + [f], out + [ord('&')] + [ord(x) for x in nm])
                if z3.is_true(f): return
        go(i + 1, conds + amp + [z3.Not(f) for f in follows], out + [ord(x) for x in '&amp;'])
    go(0, [], [])
    return rows


def table_post(rows, res):
    good = [z3.And(c, eq_chars(res, out)) for c, out in rows if len(out) == len(res)]
    return z3.Or(*good) if good else z3.BoolVal(False)


# ============================================================================ url_encode / url_decode
from mirsym.models import pctenc

SAFE = [(48, 57), (65, 90), (97, 122), (45, 46), (95, 95)]      # digits, letters, '-', '.', '_'


def in_safe(c):
    e = ch_expr(c)
    return z3.Or(*[z3.And(z3.UGE(e, lo), z3.ULE(e, hi)) for lo, hi in SAFE])


def ref_hex(n):
    return z3.If(z3.ULT(n, 10), n + ord('0'), n - 10 + ord('A'))


def ref_utf8(c, k):
    c = ch_expr(c)
    if k == 1: return [c]
    if k == 2: return [0xC0 + z3.LShR(c, 6), 0x80 + (c & 63)]
    if k == 3: return [0xE0 + z3.LShR(c, 12), 0x80 + (z3.LShR(c, 6) & 63), 0x80 + (c & 63)]
    return [0xF0 + z3.LShR(c, 18), 0x80 + (z3.LShR(c, 12) & 63), 0x80 + (z3.LShR(c, 6) & 63), 0x80 + (c & 63)]


def table_url_encode(cs):
    """[(condition, expected)]: a safe character is copied, every other one becomes %XX (upper-case hex) for each of its UTF-8 bytes"""
    rows = []
    klass = [('keep', lambda c: in_safe(c)), (1, lambda c: z3.And(z3.ULT(c, 0x80), z3.Not(in_safe(c)))), (2, lambda c: z3.And(z3.UGE(c, 0x80), z3.ULT(c, 0x800))),
             (3, lambda c: z3.And(z3.UGE(c, 0x800), z3.ULT(c, 0x10000))), (4, lambda c: z3.UGE(c, 0x10000))]
    for combo in itertools.product(klass, repeat=len(cs)):
        conds = []; out = []
        for c, (k, pred) in zip(cs, combo):
            conds.append(pred(ch_expr(c)))
            if k == 'keep': out.append(c)
            else:
                for b in ref_utf8(c, k): out += [ord('%'), ref_hex(z3.LShR(b, 4)), ref_hex(b & 15)]
        rows.append((z3.And(*conds) if conds else z3.BoolVal(True), out))
    return rows


def url_alphabet(res):
    conds = []
    for j, c in enumerate(res):
        e = ch_expr(c)
        hexes = [z3.Or(z3.And(z3.UGE(ch_expr(x), 48), z3.ULE(ch_expr(x), 57)), z3.And(z3.UGE(ch_expr(x), 65), z3.ULE(ch_expr(x), 70))) for x in res[j + 1:j + 3]]
        conds.append(z3.Or(in_safe(c), z3.And(e == ord('%'), *hexes) if len(hexes) == 2 else z3.BoolVal(False)))
    return z3.And(*conds) if conds else z3.BoolVal(True)


def ob_url_encode(chk, P, maxlen):
    with chk.obligation('url_encode/strings', "url_encode emits only ASCII letters, digits, '-', '.', '_' and %XX escapes: safe characters are copied, every other character becomes the %XX escapes of its UTF-8 bytes; "
                        'url_decode applied to the output gives the input back; no panic',
                        {'input': f'0..{maxlen} characters, each any Unicode scalar value', 'library': 'percent-encoding 2.3 (outside /repo) is modelled from its documentation; the encode set is computed from the repository\'s FRAGMENT constant'}) as ob:
        ex = Executor(P, models_with([])); ex.seed = chk.seed; ex.max_steps = 40000
        ob.stubs += ['percent_encoding::{NON_ALPHANUMERIC, AsciiSet::remove/add, utf8_percent_encode, percent_decode, PercentDecode::decode_utf8}: models (mirsym/models/pctenc.py), validated against the native library on concrete strings']
        for n in range(maxlen + 1):
            st = State(); cs = sym_string(st, n)
            rows = table_url_encode(list(cs))
            for s2, kind, val in run_filter(ex, P, 'UrlEncodeFilter', st, cs):
                ob.paths += 1; ob.reached()
                def report(role, what, m):
                    s = model_string(m, cs); exp = py_url_encode(s)
                    ob.violation(role, f'{what}: {s!r} | url_encode', {'input': s, 'expected': exp}, {'kind': 'template', 'template': '{{ s | url_encode }}|{{ s | url_encode | url_decode }}', 'globals': {'s': s}},
                                 lambda r, e=exp, s=s: r.get('outcome') != 'ok' or r.get('output') != e + '|' + s)
                if kind == 'panic':
                    report('url_encode/panic', f'url_encode panics ({val})', ob.decide(ex, s2.conds, z3.BoolVal(True))); continue
                res = result_string(s2, val)
                if res is None:
                    report('url_encode/not-a-string', f'url_encode returns {val}', ob.decide(ex, s2.conds, z3.BoolVal(True))); continue
                m = ob.decide(ex, s2.conds, z3.Not(url_alphabet(res)))
                if m is not None:
                    report('url_encode/unsafe-output', f'url_encode returns {mstring(m, res)!r}', m); continue
                m = ob.decide(ex, s2.conds, z3.Not(table_post(rows, res)))
                if m is not None:
                    report('url_encode/wrong-output', f'url_encode returns {mstring(m, res)!r}', m); continue
                # round trip through the real url_decode
                for s3, kind3, val3 in run_filter(ex, P, 'UrlDecodeFilter', s2.clone(), res):
                    ob.paths += 1
                    res3 = result_string(s3, val3) if kind3 == 'ret' else None
                    m = ob.decide(ex, s3.conds, z3.Not(eq_chars(res3, list(cs)) if res3 is not None else z3.BoolVal(False)))
                    if m is not None:
                        got = mstring(m, res3) if res3 is not None else f'{kind3} {val3}'
                        report('url_roundtrip/not-inverse', f'url_decode(url_encode(s)) gives {got!r}', m)
            ob.sample({'len': n})
        ob.absorb(ex)


def py_url_encode(s):
    out = ''
    for ch in s:
        if ch.isascii() and (ch.isalnum() or ch in '-._'): out += ch
        else: out += ''.join('%%%02X' % b for b in ch.encode('utf-8'))
    return out


def py_url_decode(s):
    """reference: '+' is a space, %XX (two hex digits) is a byte, everything else literal; invalid UTF-8 -> None (error)"""
    b = s.replace('+', ' ').encode('utf-8'); out = bytearray(); i = 0
    hexd = b'0123456789abcdefABCDEF'
    while i < len(b):
        if b[i] == 0x25 and i + 2 < len(b) and b[i + 1] in hexd and b[i + 2] in hexd:
            out.append(int(b[i + 1:i + 3], 16)); i += 3
        else:
            out.append(b[i]); i += 1
    try:
        return out.decode('utf-8')
    except UnicodeDecodeError:
        return None


def decode_shapes(maxlen):
    """general strings plus escape-shaped ones: %??, %??? , ?%??, %??%?? (two escapes forming one 2-byte character or not)"""
    P_ = ord('%')
    return [[None] * n for n in range(maxlen + 1)] + [[P_, 'b', 'b', 'b'], ['b', P_, 'b', 'b'], [P_, 'b', 'b', P_, 'b', 'b'], [ord('+'), P_, ord('2'), None], [P_, ord('E'), 'b', P_, 'b', 'b', P_, ord('8'), 'b']]


def ob_url_decode(chk, P, maxlen):
    with chk.obligation('url_decode/strings', "url_decode: every '+' is a space, every %XX (two hex digits, either case) is the byte XX, everything else is literal -- in that order, so %2B stays '+'; "
                        'the result is the UTF-8 decoding of those bytes and an error (never a panic or a silently repaired string) when they are not valid UTF-8',
                        {'input': f'0..{maxlen} characters (each any Unicode scalar value), plus the escape-shaped strings %???, ?%??, %??%??, +%2?, %E?%??%8? with ? any character below U+0800 (any Unicode scalar value in +%2?)',
                         'library': 'percent_decode/decode_utf8 are models; the reference applies the same library model to the independently computed "+ -> space" string'}) as ob:
        ex = Executor(P, models_with([])); ex.seed = chk.seed; ex.max_steps = 40000
        ob.stubs += ['percent_encoding::{percent_decode, PercentDecode::decode_utf8}: models (mirsym/models/pctenc.py), validated against the native library on concrete strings']
        from mirsym.models.strings import fix_lengths
        for shape in decode_shapes(maxlen):
            st0 = State(); cs = shaped_string(st0, shape)
            # reference: fork the input classes first, then run the filter on each class
            def reference(st):
                def plus(s_, i, out):
                    if i == len(cs):
                        yield s_, out; return
                    c = cs[i]
                    if isinstance(c, int):
                        yield from plus(s_, i + 1, out + [32 if c == ord('+') else c]); return
                    for s1, yes in ex.fork_bool(s_, c == ord('+')):
                        yield from plus(s1, i + 1, out + [32 if yes else c])
                for s1, pre in plus(st, 0, []):
                    for s2, lens in fix_lengths(ex, s1, StrV(pre, 'str')):
                        bs = []
                        for c, k in zip(pre, lens): bs += [z3.simplify(b) if not isinstance(b, int) else z3.BitVecVal(b, 32) for b in ref_utf8(c, k)]
                        for s3, dec in pctenc.decode_bytes(ex, s2, bs):
                            for s4, chars in pctenc.utf8_decode(ex, s3, dec):
                                yield s4, chars
            for s1, exp in reference(st0):
                for s2, kind, val in run_filter(ex, P, 'UrlDecodeFilter', s1, cs):
                    ob.paths += 1; ob.reached()
                    def report(role, what, m):
                        s = mstring(m, cs); e = py_url_decode(s)
                        ob.violation(role, f'{what}: {s!r} | url_decode', {'input': s, 'expected': e}, {'kind': 'template', 'template': '{{ s | url_decode }}', 'globals': {'s': s}},
                                     lambda r, e=e: (r.get('outcome') != 'err') if e is None else (r.get('outcome') != 'ok' or r.get('output') != e))
                    if kind == 'panic':
                        report('url_decode/panic', f'url_decode panics ({val})', ob.decide(ex, s2.conds, z3.BoolVal(True))); continue
                    res = result_string(s2, val)
                    if exp is None:
                        if not (kind == 'ret' and val.variant == 'Err'):
                            report('url_decode/invalid-utf8-accepted', f'url_decode returns {val} for bytes that are not UTF-8', ob.decide(ex, s2.conds, z3.BoolVal(True)))
                        else: ob.decide(ex, s2.conds, z3.BoolVal(False))
                        continue
                    if res is None:
                        report('url_decode/error-on-valid-input', f'url_decode fails: {val}', ob.decide(ex, s2.conds, z3.BoolVal(True))); continue
                    m = ob.decide(ex, s2.conds, z3.Not(eq_chars(res, exp)))
                    if m is not None:
                        report('url_decode/wrong-output', f'url_decode returns {mstring(m, res)!r}', m)
            ob.sample({'shape': ''.join(chr(k) if isinstance(k, int) else '?' for k in shape)})
        ob.absorb(ex)


def validate_url_models(chk, P):
    """the percent-encoding models against the native library, through the real filters, on concrete strings"""
    ex = Executor(P, models_with([]))
    for s in ['', 'foo bar', 'foo+1@example.com', 'a-b.c_d~e', 'é', '€', '😀', '%', '%4', '%zz', '%41', '%2B+%20', '%C3%A9', '%c3%a9', '%E9', '%C3', '%ED%A0%80', '%C0%80', '%F0%9F%98%80', '%F4%90%80%80', 'a%00b', '%%41']:
        for filt, name in (('UrlEncodeFilter', 'url_encode'), ('UrlDecodeFilter', 'url_decode')):
            st = State()
            outs = list(run_filter(ex, P, filt, st, [ord(c) for c in s]))
            got = ('paths', len(outs))
            if len(outs) == 1:
                s2, kind, val = outs[0]
                r = result_string(s2, val) if kind == 'ret' else None
                got = ('ok', ''.join(chr(c if isinstance(c, int) else z3.simplify(c).as_long()) for c in r)) if r is not None else ('err',) if kind == 'ret' else (kind,)
            def view(res):
                if res.get('outcome') == 'ok': return ('ok', res['output'])
                return (res.get('outcome'),)
            chk.validate(f'{s!r} | {name}', got, {'kind': 'template', 'template': '{{ s | ' + name + ' }}', 'globals': {'s': s}}, view)


# ============================================================================ strip_html
def no_tag(res):
    """no '<' is followed (anywhere later) by '>'"""
    conds = []
    for a_ in range(len(res)):
        for b_ in range(a_ + 1, len(res)):
            conds.append(z3.Not(z3.And(ch_expr(res[a_]) == ord('<'), ch_expr(res[b_]) == ord('>'))))
    return z3.And(*conds) if conds else z3.BoolVal(True)


def py_has_tag(s):
    i = s.find('<')
    return i >= 0 and s.find('>', i) >= 0


def ob_strip_html(chk, P, maxlen):
    with chk.obligation('strip_html/strings', "the output of strip_html contains no complete <...> tag (no '<' followed later by '>'), and a string without '<' is returned unchanged; no panic",
                        {'input': f"0..{maxlen} characters, each any Unicode scalar value, plus '<script>' ? ? '</script>' ? and '<!--' ? '-->' ? ? with ? arbitrary",
                         'library': 'regex (outside /repo) is modelled for the pattern shape (?flags)PREFIX.*?SUFFIX; the four patterns, their flags and their order are read from the MATCHERS initialiser in the MIR'}) as ob:
        ex = Executor(P, models_with([])); ex.seed = chk.seed; ex.max_steps = 80000
        ob.stubs += ['regex::Regex::{new, replace_all} and std::sync::LazyLock: models (mirsym/models/regexm.py), validated against the native library on concrete strings']
        shapes = [[None] * n for n in range(maxlen + 1)] + [[ord(c) for c in '<script>'] + [None, None] + [ord(c) for c in '</script>'] + [None], [ord(c) for c in '<!--'] + [None] + [ord(c) for c in '-->'] + [None, None]]
        for shape in shapes:
            st = State(); cs = shaped_string(st, shape)
            for s2, kind, val in run_filter(ex, P, 'StripHtmlFilter', st, cs):
                ob.paths += 1; ob.reached()
                def report(role, what, m):
                    s = mstring(m, cs)
                    ob.violation(role, f'{what}: {s!r} | strip_html', {'input': s}, {'kind': 'template', 'template': '{{ s | strip_html }}', 'globals': {'s': s}},
                                 lambda r, s=s: r.get('outcome') != 'ok' or py_has_tag(r.get('output', '')) or ('<' not in s and r.get('output') != s))
                if kind == 'panic':
                    report('strip_html/panic', f'strip_html panics ({val})', ob.decide(ex, s2.conds, z3.BoolVal(True))); continue
                res = result_string(s2, val)
                if res is None:
                    report('strip_html/not-a-string', f'strip_html returns {val}', ob.decide(ex, s2.conds, z3.BoolVal(True))); continue
                m = ob.decide(ex, s2.conds, z3.Not(no_tag(res)))
                if m is not None:
                    report('strip_html/tag-left', f'strip_html returns {mstring(m, res)!r}', m); continue
                nolt = z3.And(*[ch_expr(c) != ord('<') for c in cs]) if cs else z3.BoolVal(True)
                m = ob.decide(ex, s2.conds, z3.And(nolt, z3.Not(eq_chars(res, list(cs)))))
                if m is not None:
                    report('strip_html/text-changed', f'strip_html returns {mstring(m, res)!r} for a string without "<"', m)
            ob.sample({'shape': ''.join(chr(k) if isinstance(k, int) else '?' for k in shape)})
        ob.absorb(ex)


def validate_regex_model(chk, P):
    ex = Executor(P, models_with([]))
    for s in ['', 'a<b>c', '<scr<script>ipt>', '<script>x</script>y', '<SCRIPT>x</ScRiPt>y', '<\u017fcript>x</script>y', '<style>a</style>b<!-- c -->d', '<a\nb>c', '<<a>>', 'a > b < c', '<!-- > -->x', '<script>a\nb</script>', '<>', '<', '>a<']:
        st = State()
        outs = list(run_filter(ex, P, 'StripHtmlFilter', st, [ord(c) for c in s]))
        got = ('paths', len(outs))
        if len(outs) == 1:
            s2, kind, val = outs[0]
            r = result_string(s2, val) if kind == 'ret' else None
            got = ('ok', ''.join(chr(c if isinstance(c, int) else z3.simplify(c).as_long()) for c in r)) if r is not None else (kind,)
        chk.validate(f'{s!r} | strip_html', got, {'kind': 'template', 'template': '{{ s | strip_html }}', 'globals': {'s': s}}, lambda res: ('ok', res['output']) if res.get('outcome') == 'ok' else (res.get('outcome'),))


def run(chk):
    P = chk.program(['core', 'lib'])
    quick = chk.tier == 'quick'
    ob_escape(chk, P, 3 if quick else 4)
    ob_escape_once(chk, P, 3 if quick else 4, 3 if quick else 4, 2 if quick else 3)
    validate_url_models(chk, P)
    ob_url_encode(chk, P, 3 if quick else 4)
    ob_url_decode(chk, P, 3 if quick else 4)
    validate_regex_model(chk, P)
    ob_strip_html(chk, P, 6 if quick else 8)


