"""C08 -- include shares the caller's scope; render isolates the partial."""
import itertools
import z3
from mirsym.exec import Executor, State, Unsupported
from mirsym.values import *
from mirsym.models.maps import MapV
from checks.common import *
from checks.renderables import expr_stub


class PartialsEnv:
    """abstract partial store: `present` names resolve to an abstract partial template, others are missing"""
    def __init__(self, present, child):
        self.present = set(present); self.child = child

    def handler(self, ctx, me, args, st):
        m = method_of(ctx.callee)
        if m in ('get', 'try_get'):
            n = st.deref_all(args[1]).concrete()
            log_call(st, 'partials', (m, n))
            found = n in self.present
            tpl = st.ref(self.child.abs(), True)
            if m == 'get':
                return ret(st, Ok(tpl) if found else Err(Adt('LiquidError', None, [Opaque(('msg', f'partial {n} missing'))])))
            return ret(st, Some(tpl) if found else NONE)
        if m == 'contains':
            return ret(st, Bool(st.deref_all(args[1]).concrete() in self.present))
        return None

    def abs(self): return Abs('partials', self.handler)


class ParentWithPartials(ParentEnv):
    def __init__(self, roots, penv):
        super().__init__(roots); self.penv = penv

    def handler(self, ctx, me, args, st):
        if method_of(ctx.callee) == 'partials':
            log_call(st, self.tag, ('partials',))
            return ret(st, st.ref(self.penv.abs()))
        return super().handler(ctx, me, args, st)


def tconf(sc):
    exp = sc['_expect']
    if exp is None: return lambda r: r.get('outcome') != 'err'
    return lambda r: r.get('outcome') != 'ok' or r.get('output') != exp


def include_scenario2():
    return {'kind': 'template', 'partials': {'p': '[{{a}}|{{v}}|{{g}}]{% assign g = "P" %}{% break %}'},
            'template': "{% assign g = 'C' %}{% for i in (1..3) %}{% include 'p' a: i %}{% endfor %}<{{g}}>{% if a %}ARG-LEAKED{% endif %}", 'globals': {'v': 'V'}, '_expect': '[1|V|C]<P>'}


def render_scenario():
    leak = '{% if v %}LEAKV{% endif %}{% if g %}LEAKG{% endif %}'
    return {'kind': 'template', 'partials': {'p': '[{{a}}' + leak + ']{% assign g = "P" %}{% if a == 2 %}{% break %}{% endif %}',
                                             'f': '[{{a}}' + leak + '|{{forloop.index}}/{{forloop.length}}]{% assign g = "P" %}{% if a == 2 %}{% break %}{% endif %}{% if a == 1 %}{% continue %}{% endif %}x', 'q.liquid': 'Q'},
            'template': "{% assign g = 'C' %}{% for i in (1..3) %}{% render 'p', a: i %}{% endfor %}<{{g}}>{% render 'f' for arr as a %}<{{g}}>{% if a %}ARG-LEAKED{% endif %}{% render 'p' with 7 as a %}{% render 'q' %}",
            'globals': {'v': 'V', 'arr': [1, 2, 3]}, '_expect': '[1][2][3]<C>[1|1/3][2|2/3]<C>[7]Q'}


def missing_scenario():
    return {'kind': 'template', 'partials': {}, 'template': "a{% include 'nope' %}b", '_expect': None}


def ob_include(chk, P):
    with chk.obligation('Include::render_to/shared-scope', "include renders the partial in a plain scope layered over the caller's runtime whose data are exactly the tag's arguments (so, by the C18 frame lemma, "
                        "the partial sees and rebinds the caller's names, arguments shadow them and vanish afterwards, break reaches the caller's loop), with the caller's writer; "
                        'non-string name, unevaluable argument, missing partial and failing partial are errors; no panic',
                        {'arguments': '0..2', 'partial name': 'string / non-scalar / failing expression', 'store': 'has / lacks the partial', 'partial': 'abstract: Ok / Err / interrupts'}) as ob:
        ex = Executor(P, models_with(registers_models())); ex.seed = chk.seed
        fn = P.find_method('Include', 'render_to', 'Renderable', 'lib', 'stdlib/tags/include_tag.rs')
        for nargs in (0, 1, 2):
            for name_kind in ('str', 'array', 'fail'):
                for present in (True, False):
                    st = State(); sink = SinkEnv('W', may_fail=False)
                    child = ChildEnv('partial', sink, 0, owner='scope')
                    pstore = PartialsEnv({'p'} if present else set(), child)
                    penv = ParentWithPartials(('x',), pstore)
                    nm = expr_stub(value_scalar(scalar_str('p')), 'name') if name_kind == 'str' else expr_stub(Adt('Value', 'Array', [VecV([])]), 'name') if name_kind == 'array' else expr_stub(VALUE_NIL, 'name', True)
                    vars_ = VecV([Tup([StrV(f'a{i}', 'KString'), expr_stub(value_scalar(scalar_int(10 + i)), f'arg{i}', True)]) for i in range(nargs)])
                    self_ = st.ref(Adt('Include', None, [nm, vars_], ['partial', 'vars']))
                    for s2, kind, val in ex.run(fn, [self_, st.ref(sink.abs(), True), st.ref(penv.abs())], st):
                        ob.paths += 1; ob.reached()
                        m = ob.decide(ex, s2.conds, z3.BoolVal(True))
                        def tv(n): return z3.is_true(m.eval(z3.Bool(n), model_completion=True))
                        name_fails = name_kind == 'fail' and tv('name_errs')
                        arg_fail = any(tv(f'arg{i}_errs') for i in range(nargs))
                        kids = [c[1] for c in calls(s2, 'child')]
                        bad = None
                        if kind == 'panic': bad = f'panics: {val}'
                        else:
                            should_render = (name_kind == 'str' or (name_kind == 'fail' and not name_fails and False)) and not arg_fail and present
                            if name_kind == 'fail' and not name_fails: should_render = False   # nil name: not a string
                            if should_render:
                                want_scope = ('StackFrame', ('abs', 'parent:P'), tuple(sorted((f'a{i}', ('Integer', 10 + i)) for i in range(nargs))))
                                if len(kids) != 1: bad = f'partial rendered {len(kids)} times'
                                elif kids[0][1] != want_scope: bad = f'partial got scope {kids[0][1]}, expected {want_scope}'
                                elif kids[0][2] != 'Abs(sink:W)': bad = f'partial got writer {kids[0][2]}'
                                else:
                                    outs = s2.env.get('child_outcomes', ())
                                    if (val.variant == 'Err') != any(o[2] == 'err' for o in outs): bad = f'result {val.variant} vs partial outcome {outs}'
                                    owners = s2.env.get('interrupt_owners', ())
                                    if any(o != 'P' for o in owners): bad = f'an interrupt raised in the partial went to registers {owners}, not the caller\'s'
                                    if not bad and outs:
                                        left = outs[-1][3]                      # what the partial left pending: None / 'Break' / 'Continue'
                                        now = interrupt_get(s2, 'P')
                                        if now != left: bad = f'the partial left interrupt {left} pending, after include the caller\'s register holds {now} (a break/continue inside an included partial must reach the caller\'s loop)'
                            else:
                                if kids: bad = f'partial rendered although name_kind={name_kind} arg_fail={arg_fail} present={present}'
                                elif val.variant != 'Err': bad = f'returned Ok without rendering (name_kind={name_kind} arg_fail={arg_fail} present={present}): silent blank'
                        if bad:
                            if arg_fail:
                                sc = {'kind': 'template', 'partials': {'p': 'X'}, 'template': "{% include 'p' a: nope.deep %}", '_expect': None}; role = 'Include/argument-error'
                            elif name_kind == 'str' and present:
                                sc = include_scenario2(); role = 'Include/scope'
                            elif name_kind != 'str':
                                sc = {'kind': 'template', 'partials': {'p': 'x'}, 'template': "{% include arr %}|{% include nope.deep %}", 'globals': {'arr': [1]}, '_expect': None}; role = 'Include/name-error'
                            else:
                                sc = missing_scenario(); role = 'Include/missing-partial'
                            ob.violation(role, f'include: {bad}', {'args': nargs, 'name': name_kind, 'present': present}, sc, tconf(sc))
                    ob.sample({'args': nargs, 'name': name_kind, 'present': present})
        ob.absorb(ex)


def ob_render(chk, P, maxn):
    with chk.obligation('Render::render_to/isolation', "render runs the partial over a fresh global layer over a sandboxed scope whose data are exactly the tag's arguments (+ truthful forloop and the element in the for form): "
                        "by the C18 lemmas no caller name resolves inside, assignments stop at the fresh layer, and break/continue stay in the sandbox's own registers (reset after every iteration, break ends the for form); "
                        "lookup order name then name.liquid; errors for non-string name / unevaluable argument / missing partial; no panic",
                        {'forms': 'plain with 0..2 key: value arguments; for ... as over arrays of length 0..' + str(maxn), 'partial': 'abstract: Ok / Err / Ok+break / Ok+continue'}) as ob:
        ex = Executor(P, models_with(registers_models())); ex.seed = chk.seed; ex.max_steps = 30000
        fn = P.find_method('Render', 'render_to', 'Renderable', 'lib')
        # ---- plain form
        for nargs in (0, 1, 2):
            for present in ('p', 'p.liquid', None):
                st = State(); sink = SinkEnv('W', may_fail=False)
                child = ChildEnv('partial', sink, 0, owner='scope')
                pstore = PartialsEnv({present} if present else set(), child)
                penv = ParentWithPartials(('x',), pstore)
                vars_ = VecV([Tup([StrV(f'a{i}', 'KString'), expr_stub(value_scalar(scalar_int(10 + i)), f'arg{i}', True)]) for i in range(nargs)])
                self_ = st.ref(Adt('Render', None, [expr_stub(value_scalar(scalar_str('p')), 'name'), NONE, vars_], ['partial', 'for_', 'vars']))
                for s2, kind, val in ex.run(fn, [self_, st.ref(sink.abs(), True), st.ref(penv.abs())], st):
                    ob.paths += 1; ob.reached()
                    m = ob.decide(ex, s2.conds, z3.BoolVal(True))
                    arg_fail = any(z3.is_true(m.eval(z3.Bool(f'arg{i}_errs'), model_completion=True)) for i in range(nargs))
                    kids = [c[1] for c in calls(s2, 'child')]
                    lookups = [c[1][1] for c in calls(s2, 'partials')]
                    bad = None
                    if kind == 'panic': bad = f'panics: {val}'
                    elif present and not arg_fail:
                        want_scope = ('GlobalFrame', ('SandboxedStackFrame', ('abs', 'parent:P'), tuple(sorted((f'a{i}', ('Integer', 10 + i)) for i in range(nargs)))), ())
                        if len(kids) != 1: bad = f'partial rendered {len(kids)} times'
                        elif kids[0][1] != want_scope: bad = f'partial got scope {kids[0][1]}, expected {want_scope}'
                        elif kids[0][2] != 'Abs(sink:W)': bad = f'partial got writer {kids[0][2]}'
                        elif lookups != (['p'] if present == 'p' else ['p', 'p.liquid']): bad = f'partial store asked for {lookups}'
                        elif any(o == 'P' for o in s2.env.get('interrupt_owners', ())): bad = 'an interrupt raised in the partial reached the caller\'s registers'
                        elif interrupt_get(s2, 'P') is not None: bad = 'caller interrupt register modified'
                        elif [c for c in calls(s2, 'P') if c[1][0] in ('set_global', 'set_index')]: bad = 'render touched the caller\'s layers'
                    else:
                        if kids: bad = 'partial rendered although it is missing / an argument failed'
                        elif val.variant != 'Err': bad = 'missing partial or failing argument gave Ok (silent blank)'
                    if bad:
                        if arg_fail:
                            sc = {'kind': 'template', 'partials': {'p': 'X'}, 'template': "{% render 'p', a: nope.deep %}", '_expect': None}; role = 'Render/plain/argument-error'
                        elif present:
                            sc = render_scenario(); role = 'Render/plain/isolation'
                        else:
                            sc = {'kind': 'template', 'partials': {}, 'template': "a{% render 'nope' %}b", '_expect': None}; role = 'Render/plain/missing-partial'
                        ob.violation(role, f'render: {bad} (args={nargs}, store has {present})', {'args': nargs, 'present': present}, sc, tconf(sc))
                ob.sample({'form': 'plain', 'args': nargs, 'present': present})
        # ---- partial name that is not a string / cannot be evaluated (all forms)
        for name_kind in ('array', 'fail'):
            for form in ('plain', 'for'):
                st = State(); sink = SinkEnv('W', may_fail=False)
                child = ChildEnv('partial', sink, 0, owner='scope')
                penv = ParentWithPartials(('x',), PartialsEnv({'p', ''}, child))
                nm = expr_stub(Adt('Value', 'Array', [VecV([])]), 'name') if name_kind == 'array' else expr_stub(VALUE_NIL, 'name', True)
                arr = Adt('Value', 'Array', [VecV([value_scalar(scalar_int(1))])])
                for_ = Some(Tup([Adt('RangeExpression', 'Array', [expr_stub(arr, 'range')]), StrV('item', 'KString')])) if form == 'for' else NONE
                self_ = st.ref(Adt('Render', None, [nm, for_, VecV([])], ['partial', 'for_', 'vars']))
                for s2, kind, val in ex.run(fn, [self_, st.ref(sink.abs(), True), st.ref(penv.abs())], st):
                    ob.paths += 1
                    kids = calls(s2, 'child')
                    if kind == 'panic' or kids or val.variant != 'Err':
                        sc = {'kind': 'template', 'partials': {'p': 'X'}, 'template': "a{% render arr %}b" if name_kind == 'array' else "a{% render nope %}b", 'globals': {'arr': [1]}, '_expect': None}
                        ob.violation(f'Render/name-error/{name_kind}', f'render with a {name_kind} partial name ({form} form): {kind} {val}, partial rendered {len(kids)} times (must be an error, not a silent blank)',
                                     {'name': name_kind, 'form': form}, sc, tconf(sc))
                ob.sample({'form': form, 'name': name_kind})
        # ---- for form
        for n in range(maxn + 1):
            st = State(); sink = SinkEnv('W', may_fail=False)
            child = ChildEnv('partial', sink, 0, owner='scope')
            pstore = PartialsEnv({'p'}, child)
            penv = ParentWithPartials(('x',), pstore)
            arr = Adt('Value', 'Array', [VecV([value_scalar(scalar_int(k + 1)) for k in range(n)])])
            for_ = Some(Tup([Adt('RangeExpression', 'Array', [expr_stub(arr, 'range')]), StrV('item', 'KString')]))
            vars_ = VecV([Tup([StrV('a0', 'KString'), expr_stub(value_scalar(scalar_int(10)), 'arg0')])])
            self_ = st.ref(Adt('Render', None, [expr_stub(value_scalar(scalar_str('p')), 'name'), for_, vars_], ['partial', 'for_', 'vars']))
            for s2, kind, val in ex.run(fn, [self_, st.ref(sink.abs(), True), st.ref(penv.abs())], st):
                ob.paths += 1
                kids = [c[1] for c in calls(s2, 'child')]
                outs = list(s2.env.get('child_outcomes', ()))
                bad = None
                if kind == 'panic': bad = f'panics: {val}'
                else:
                    term = None
                    for k, o in enumerate(outs):
                        if o[2] == 'err': term = ('err', k); break
                        if o[3] == 'Break': term = ('break', k); break
                    expect_calls = n if term is None else term[1] + 1
                    if len(kids) != expect_calls: bad = f'partial rendered {len(kids)} times for {n} elements with outcomes {[(o[2], o[3]) for o in outs]}'
                    else:
                        for k, c in enumerate(kids):
                            sc_ = c[1]
                            ok = sc_[0] == 'GlobalFrame' and sc_[2] == () and sc_[1][0] == 'SandboxedStackFrame' and sc_[1][1] == ('abs', 'parent:P')
                            d = dict(sc_[1][2]) if ok and isinstance(sc_[1][2], tuple) else {}
                            if not ok or set(d) != {'a0', 'forloop', 'item'}: bad = f'iteration {k}: scope {sc_}'; break
                            fl = dict(d['forloop'][1]) if isinstance(d['forloop'], tuple) and d['forloop'][0] == 'ForloopObject' else None
                            truth = dict(length=n, index0=k, index=k + 1, rindex0=n - k - 1, rindex=n - k, first=(k == 0), last=(k == n - 1))
                            if fl is None or {x: fl[x] for x in truth} != truth: bad = f'iteration {k}: forloop {d["forloop"]}'; break
                            if d['item'] != ('Integer', k + 1) or d['a0'] != ('Integer', 10): bad = f'iteration {k}: bindings {d}'; break
                    if bad is None:
                        if (val.variant == 'Err') != (term is not None and term[0] == 'err'): bad = f'result {val.variant} vs outcomes {outs}'
                        elif any(o == 'P' for o in s2.env.get('interrupt_owners', ())): bad = 'an interrupt raised in the partial reached the caller\'s registers'
                        elif interrupt_get(s2, 'P') is not None: bad = 'caller interrupt register modified'
                        else:
                            # every sandbox register must be clear when its iteration is over (continue must not leak into the next one)
                            for o in set(s2.env.get('interrupt_owners', ())):
                                if interrupt_get(s2, o) is not None and not (term and term[0] == 'err'): bad = f'interrupt left pending in sandbox registers {o}'
                if bad:
                    sc = render_scenario()
                    ob.violation('Render/for', f'render ... for: {bad} (n={n})', {'n': n}, sc, tconf(sc))
            ob.sample({'form': 'for', 'n': n})
        ob.absorb(ex)


def run(chk):
    P = chk.program(('core', 'lib'))
    ob_include(chk, P)
    ob_render(chk, P, 2 if chk.tier == 'quick' else 3)
    # both obligations above describe the scope the partial receives and appeal to the frame lemmas (own key first, else exactly the parent /
    # never the parent for a sandbox): those lemmas are discharged here as well, on the same tree
    from checks import C18
    for ft in ('StackFrame', 'SandboxedStackFrame', 'GlobalFrame'):
        C18.ob_lookup(chk, P, ft, 2)
    for name, sc in (('include shares scope', include_scenario2()), ('render isolates', render_scenario())):
        chk.validate(name, sc['_expect'], {k: v for k, v in sc.items() if not k.startswith('_')}, lambda r: r.get('output'))
    chk.validate('missing partial is an error', 'err', {k: v for k, v in missing_scenario().items() if not k.startswith('_')}, lambda r: r.get('outcome'))
