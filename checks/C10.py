"""C10 -- a failing output sink produces an error and a clean prefix, never a panic."""
import z3
from mirsym.exec import Executor, State, Unsupported
from mirsym.values import *
from checks.common import *
from checks.renderables import *


def analyse(ob, ex, name, results, sink):
    """results: list of (st, kind, val).  Checks (i) no write after the failure, Err returned; (ii) accepted bytes are a prefix of a
    fault-free run under the same other choices; (iii) no panic."""
    free = []   # fault-free paths
    faulted = []
    K = sink.K
    for (s, kind, val) in results:
        log = sink.log(s)
        if kind == 'panic':
            ob.violation(f'{name}/panic', f'{name} panics with a failing sink or otherwise: {val}', {'log': repr(log)[:400]}, None, None, note='no-replay-needed' if False else None)
            continue
        failed = any(e[0] == 'FAIL' for e in log)
        after = [e for e in log if e[0] == 'AFTER-FAIL']
        if failed:
            if after:
                ob.violation(f'{name}/write-after-failure', f'{name} keeps writing after the sink failed: {after[:2]}', {'log': repr(log)[:600]}, scenario_for(name), confirm_sink)
            elif val.variant != 'Err':
                ob.violation(f'{name}/error-swallowed', f'{name} returns Ok although a write failed', {'log': repr(log)[:600]}, scenario_for(name), confirm_sink)
            faulted.append((s, [e[1] for e in log if e[0] == 'ok']))
        else:
            free.append((s, [e[1] for e in log if e[0] == 'ok']))
    # prefix property
    Kf = z3.Int('K_free')
    for (s, acc) in faulted:
        ok = False
        for (q, full) in free:
            if full[:len(acc)] != acc: continue
            conds = list(s.conds) + [z3.substitute(c, (K, Kf)) for c in q.conds]
            m = ob.decide(ex, conds, z3.BoolVal(True))
            if m is not None:
                ok = True; break
        if not ok:
            ob.violation(f'{name}/not-a-prefix', f'{name}: bytes accepted before the failure {acc} are not a prefix of any fault-free run with the same choices',
                         {'accepted': repr(acc)[:400]}, scenario_for(name), confirm_sink)


SCENARIOS = {
    'Text': 'ab{{x}}cd', 'RawT': '{% raw %}r1{% endraw %}x{% raw %}r2{% endraw %}', 'FilterChain': '{{x}}{{y}}{{x | upcase}}',
    'core::Template': 'a{{x}}b{{y}}c', 'Conditional': '{% if x %}A{{x}}B{% else %}C{% endif %}{% unless x %}D{% else %}E{{y}}F{% endunless %}',
    'Increment': '{% increment n %}{% increment n %}{% decrement n %}', 'Decrement': '{% decrement n %}{% decrement n %}',
    'Capture': '{% capture v %}a{{x}}b{% endcapture %}[{{v}}]', 'IfChanged': '{% for i in a %}{% ifchanged %}{{i}}{% endifchanged %}{% endfor %}',
    'Case': '{% case x %}{% when 1 %}one{{x}}{% when 2 %}two{% else %}other{{y}}{% endcase %}', 'Cycle': '{% cycle 1, 2 %}{% cycle 1, 2 %}{% cycle 1, 2 %}',
    'For': '{% for i in a %}<{{i}}>{% else %}none{% endfor %}', 'TableRow': '{% tablerow i in a cols:2 %}{{i}}{% endtablerow %}',
}


def scenario_for(name):
    base = name.split('(')[0]
    tpl = SCENARIOS.get(base)
    if tpl is None: return None
    return {'kind': 'sinkfault', 'template': tpl, 'globals': {'x': 1, 'y': 'why', 'a': [1, 1, 2, 3]}}


def confirm_sink(res):
    return res.get('outcome') == 'violation'


def ob_renderable(chk, P, which):
    with chk.obligation(f'{which}/sink-fault', f'{which}::render_to with the k-th write failing for a solver-chosen k (children abstract; a child that sees the failure returns Err): '
                        'Err is returned, nothing is written afterwards, accepted bytes are a prefix of the fault-free output; no panic',
                        {'failing write': 'any k (symbolic) or never', 'children': 'abstract: 0..1 writes each, any of Ok/Err/interrupt', 'expressions/conditions': 'abstract values, may fail'}) as ob:
        ex = Executor(P, models_with(registers_models())); ex.seed = chk.seed; ex.max_steps = 20000
        ob.stubs += ['sink: fails at the K-th call for symbolic K', 'children: abstract renderables', 'runtime: abstract parent']
        ob.assumptions += ['error-message construction neither panics nor has effects', 'counter values are bounded by the number of increment/decrement tags executed (|v| < 2^62)']
        st0 = State()
        sink = SinkEnv('W', may_fail=True)
        penv = ParentEnv(('a',), index_mode='symbolic')
        cases = build_cases(P, st0, sink, penv, {which})
        if not cases: raise Unsupported(f'no builder for {which}')
        for rc in cases:
            st = st0.clone()
            writer = st.ref(sink.abs(), True); rt = st.ref(penv.abs())
            results = []
            for s2, kind, val in run_renderable(ex, P, rc, st, writer, rt):
                ob.paths += 1; ob.reached()
                results.append((s2, kind, val))
            analyse(ob, ex, rc.name, results, sink)
            ob.sample({'renderable': rc.name, 'paths': len(results), 'example_log': repr(sink.log(results[0][0]))[:200] if results else None})
        ob.absorb(ex)


ALL = ['Text', 'RawT', 'FilterChain', 'Template', 'Conditional', 'Increment', 'Decrement', 'Capture', 'IfChanged', 'Case', 'Cycle', 'For', 'TableRow']


def run(chk):
    P = chk.program(('core', 'lib', 'liquid'))
    for w in ALL:
        ob_renderable(chk, P, w)
