"""C10 -- a failing output sink produces an error and a clean prefix, never a panic."""
import z3
from mirsym.exec import Executor, State, Unsupported
from mirsym.values import *
from checks.common import *
from checks.renderables import *
from mirsym.models.maps import MapV


def analyse(ob, ex, name, results, sink):
    """results: list of (st, kind, val).  Checks (i) no write after the failure, Err returned; (ii) accepted bytes are a prefix of a
    fault-free run under the same other choices; (iii) no panic."""
    free = []   # fault-free paths
    faulted = []
    K = sink.K
    for (s, kind, val) in results:
        log = sink.log(s)
        if kind == 'panic':
            ob.violation(f'{name}/panic', f'{name} panics with a failing sink or otherwise: {val}', {'log': repr(log)[:400]}, None, None, note='no-replay-needed' if False else None)
            continue
        if sink.short_pending(s) is not None and val.variant == 'Ok':
            ob.violation(f'{name}/short-write-ignored', f'{name} used io::Write::write and ignored a short count: the rest of {sink.short_pending(s)} is lost',
                         {'log': repr(log)[:400]}, scenario_for(name), confirm_sink)
        failed = any(e[0] == 'FAIL' for e in log)
        after = [e for e in log if e[0] == 'AFTER-FAIL']
        if failed:
            if after:
                ob.violation(f'{name}/write-after-failure', f'{name} keeps writing after the sink failed: {after[:2]}', {'log': repr(log)[:600]}, scenario_for(name), confirm_sink)
            elif val.variant != 'Err':
                ob.violation(f'{name}/error-swallowed', f'{name} returns Ok although a write failed', {'log': repr(log)[:600]}, scenario_for(name), confirm_sink)
            faulted.append((s, [e[1] for e in log if e[0] == 'ok']))
        else:
            free.append((s, [e[1] for e in log if e[0] == 'ok']))
    # prefix property
    Kf = z3.Int('K_free')
    for (s, acc) in faulted:
        ok = False
        for (q, full) in free:
            if full[:len(acc)] != acc: continue
            conds = list(s.conds) + [z3.substitute(c, (K, Kf)) for c in q.conds]
            m = ob.decide(ex, conds, z3.BoolVal(True))
            if m is not None:
                ok = True; break
        if not ok:
            ob.violation(f'{name}/not-a-prefix', f'{name}: bytes accepted before the failure {acc} are not a prefix of any fault-free run with the same choices',
                         {'accepted': repr(acc)[:400]}, scenario_for(name), confirm_sink)


SCENARIOS = {
    'Text': 'ab{{x}}cd', 'RawT': '{% raw %}r1{% endraw %}x{% raw %}r2{% endraw %}', 'FilterChain': '{{x}}{{y}}{{x | upcase}}',
    'core::Template': 'a{{x}}b{{y}}c', 'Conditional': '{% if x %}A{{x}}B{% else %}C{% endif %}{% unless x %}D{% else %}E{{y}}F{% endunless %}',
    'Increment': '{% increment n %}{% increment n %}{% decrement n %}', 'Decrement': '{% decrement n %}{% decrement n %}',
    'Capture': '{% capture v %}a{{x}}b{% endcapture %}[{{v}}]', 'IfChanged': '{% for i in a %}{% ifchanged %}{{i}}{% endifchanged %}{% endfor %}',
    'Case': '{% case x %}{% when 1 %}one{{x}}{% when 2 %}two{% when 3, 1 %}again{{y}}{% else %}other{{y}}{% endcase %}', 'Cycle': '{% cycle 1, 2 %}{% cycle 1, 2 %}{% cycle 1, 2 %}',
    'For': '{% for i in a %}<{{i}}>{% else %}none{% endfor %}', 'TableRow': '{% tablerow i in a cols:2 %}{{i}}{% endtablerow %}',
}


# a write that fails while a break/continue is pending (the buffered body of ifchanged is flushed after the interrupt was set)
PENDING_INTERRUPT = '{% for i in a %}{% ifchanged %}p{{i}}{% break %}{% endifchanged %}q{% endfor %}{% for i in a %}{% ifchanged %}r{{i}}{% continue %}{% endifchanged %}s{% endfor %}'


def scenario_for(name):
    base = name.split('(')[0]
    if base == 'Partials':
        return {'kind': 'sinkfault', 'template': "a{% include 'p' %}b{% render 'p' %}c{% render 'q' for a as item %}d{% render 'r' %}e{% render 'r' for a as item %}f", 'partials': {'p': '[partial]', 'q': '[{{ item }}]', 'r': '[first{{ item }}]', 'r.liquid': '[fallback]'}, 'globals': {'x': 1, 'a': [1, 2, 3]}}
    tpl = SCENARIOS.get(base)
    if tpl is None: return None
    if base in ('core::Template', 'For', 'TableRow', 'IfChanged', 'Conditional', 'Case', 'Capture'): tpl = tpl + PENDING_INTERRUPT      # these hold child templates
    return {'kind': 'sinkfault', 'template': tpl, 'globals': {'x': 1, 'y': 'why', 'a': [10, 10, 22, 333]}}


def confirm_sink(res):
    return res.get('outcome') == 'violation'


def ob_renderable(chk, P, which):
    with chk.obligation(f'{which}/sink-fault', f'{which}::render_to with the k-th write failing for a solver-chosen k (children abstract; a child that sees the failure returns Err): '
                        'Err is returned, nothing is written afterwards, accepted bytes are a prefix of the fault-free output; no panic',
                        {'failing write': 'any k (symbolic) or never', 'children': 'abstract: 0..1 writes each, any of Ok/Err/interrupt', 'expressions/conditions': 'abstract values, may fail'}) as ob:
        ex = Executor(P, models_with(registers_models())); ex.seed = chk.seed; ex.max_steps = 20000
        ob.stubs += ['sink: fails at the K-th call for symbolic K', 'children: abstract renderables', 'runtime: abstract parent']
        ob.assumptions += ['error-message construction neither panics nor has effects', 'counter values are bounded by the number of increment/decrement tags executed (|v| < 2^62)']
        st0 = State()
        sink = SinkEnv('W', may_fail=True)
        penv = ParentEnv(('a',), index_mode='symbolic')
        cases = build_cases(P, st0, sink, penv, {which})
        if not cases: raise Unsupported(f'no builder for {which}')
        for rc in cases:
            st = st0.clone()
            writer = st.ref(sink.abs(), True); rt = st.ref(penv.abs())
            results = []
            for s2, kind, val in run_renderable(ex, P, rc, st, writer, rt):
                ob.paths += 1; ob.reached()
                results.append((s2, kind, val))
            analyse(ob, ex, rc.name, results, sink)
            ob.sample({'renderable': rc.name, 'paths': len(results), 'example_log': repr(sink.log(results[0][0]))[:200] if results else None})
        ob.absorb(ex)


def ob_buffered_equals_streamed(chk, P):
    with chk.obligation('liquid::Template::render/streamed==buffered', 'the buffering render is render_to into a private Vec: the template body sees the same runtime (same layers, same caller data, '
                        'same partial store) and writer contents either way, and the returned String is exactly the bytes written',
                        {'body': 'abstract child writing 0..1 chunks', 'partials': 'present / absent'}) as ob:
        ex = Executor(P, models_with(registers_models())); ex.seed = chk.seed
        f_render = P.find_method('Template', 'render', None, 'liquid'); f_to = P.find_method('Template', 'render_to', None, 'liquid')
        for with_partials in (False, True):
            seen = {}
            for which, fn in (('render', f_render), ('render_to', f_to)):
                st = State()
                def probe_handler(ctx, me, args, s, which=which):
                    if method_of(ctx.callee) != 'render_to': return None
                    seen[which] = describe_scope(s, args[2])
                    w = args[1]
                    while isinstance(s.deref(w), Ref): w = s.deref(w)
                    tgt = s.deref(w)
                    if isinstance(tgt, VecV):
                        s.store(w, VecV(tgt.items + (Opaque(('chunk', 'probe', 0)),), tgt.ty))
                        return ret(s, Ok(UNIT))
                    def g():
                        for s2, ok in tgt.data.write(ctx.ex, s, ('chunk', 'probe', 0)):
                            yield s2, 'ret', Ok(UNIT) if ok else Err(Adt('LiquidError', None, [Opaque(('msg', 'x'))]))
                    return g()
                tpl = Adt('Template', None, [VecV([st.ref(Abs('probe', probe_handler), True)])], ['elements'])
                parts = Some(st.ref(Opaque(('PARTIAL_STORE',)), True)) if with_partials else NONE
                self_ = st.ref(Adt('Template', None, [tpl, parts], ['template', 'partials']))
                dref = st.ref(MapV(('k',), (VALUE_NIL,), 'Object'))
                sink = SinkEnv('W', may_fail=False, may_short=False)
                args = [self_, dref] if which == 'render' else [self_, st.ref(sink.abs(), True), dref]
                for s2, kind, val in ex.run(fn, args, st):
                    ob.paths += 1; ob.reached()
                    if kind == 'panic':
                        ob.violation(f'Template::{which}/panic', f'liquid::Template::{which} panics: {val}', {}, scenario_for('Partials'), confirm_sink); continue
                    if which == 'render':
                        seen['render_out'] = repr(val)
                    else:
                        seen['to_log'] = repr(sink.text(s2))
            bad = None
            if seen.get('render') != seen.get('render_to'):
                bad = f"the template sees different runtimes: render -> {seen.get('render')}, render_to -> {seen.get('render_to')}"
            elif "('chunk', 'probe', 0)" not in seen.get('render_out', '') or seen.get('render_out', '').count("('chunk'") != 1:
                bad = f"render returned {seen.get('render_out')} for a body that wrote exactly one chunk"
            elif with_partials and 'PARTIAL_STORE' not in repr(seen.get('render_to')):
                bad = f"the partial store of the template is not handed to the runtime: {seen.get('render_to')}"
            if bad:
                ob.violation('Template::render/differs-from-render_to', bad, {'seen': {k: str(v)[:300] for k, v in seen.items()}}, scenario_for('Partials'), confirm_sink)
            ob.sample({'partials': with_partials, 'runtime_seen': repr(seen.get('render'))[:200]})
        ob.absorb(ex)


ALL = ['Text', 'RawT', 'FilterChain', 'Template', 'Conditional', 'Increment', 'Decrement', 'Capture', 'IfChanged', 'Case', 'Cycle', 'For', 'TableRow']


def ob_partials_sink(chk, P):
    """include / render / render-for over a failing sink: the partial writes through the caller's writer"""
    from checks.C08 import PartialsEnv, ParentWithPartials
    for name, form, present in (('Include', None, {'p'}), ('Render', 'plain', {'p'}), ('Render', 'for', {'p'}), ('Render', 'plain', {'p', 'p.liquid'}), ('Render', 'for', {'p', 'p.liquid'})):
        label = name if form is None else f'{name}({form})' if len(present) == 1 else f'{name}({form}, name and name.liquid both stored)'
        with chk.obligation(f'{label}/sink-fault', f'{label}: once a write by the partial fails nothing more is written and the error is returned; what the sink accepted is a prefix of the fault-free output',
                            {'partial': 'abstract: up to 2 writes, may fail, may interrupt', 'sink': 'fails at the K-th write for a solver-chosen K (0 = never); short writes allowed', 'for form': 'array of 2 elements'}) as ob:
            ex = Executor(P, models_with(registers_models())); ex.seed = chk.seed; ex.max_steps = 60000
            st = State(); sink = SinkEnv('W')
            child = ChildEnv('partial', sink, 2, owner='scope')
            penv = ParentWithPartials(('x',), PartialsEnv(present, child))
            nm = expr_stub(value_scalar(scalar_str('p')), 'name')
            if name == 'Include':
                fn = P.find_method('Include', 'render_to', 'Renderable', 'lib', 'stdlib/tags/include_tag.rs')
                self_ = st.ref(Adt('Include', None, [nm, VecV([])], ['partial', 'vars']))
            else:
                fn = P.find_method('Render', 'render_to', 'Renderable', 'lib')
                arr = Adt('Value', 'Array', [VecV([value_scalar(scalar_int(1)), value_scalar(scalar_int(2))])])
                for_ = Some(Tup([Adt('RangeExpression', 'Array', [expr_stub(arr, 'range')]), StrV('item', 'KString')])) if form == 'for' else NONE
                self_ = st.ref(Adt('Render', None, [nm, for_, VecV([])], ['partial', 'for_', 'vars']))
            results = []
            for s2, kind, val in ex.run(fn, [self_, st.ref(sink.abs(), True), st.ref(penv.abs())], st):
                ob.paths += 1; ob.reached(); results.append((s2, kind, val))
            analyse(ob, ex, 'Partials', results, sink)
            ob.absorb(ex)


def ob_value_printers(chk, P):
    """Display of arrays and objects ({{ array }}, {{ object }}): an element whose write fails ends the printing"""
    for ty in ('ArrayRender', 'ArraySource', 'ObjectRender', 'ObjectSource'):
        with chk.obligation(f'{ty}::fmt/sink-fault', f'<{ty} as Display>::fmt stops at the first failing write and returns the error (nothing is written after a failure)',
                            {'elements': '3 abstract elements / entries', 'formatter': 'fails at the K-th write for a solver-chosen K (0 = never)'}) as ob:
            ex = Executor(P, models_with([])); ex.seed = chk.seed; ex.max_steps = 60000
            # the hand-written Display impl (derived Debug impls do not start in column 1)
            fn = P.find(r'^fn (?:\w+::)*<impl at crates/core/src/model/(?:array|object)/mod.rs:\d+:1: \d+:\d+>::fmt\(_1: &' + ty, 'core')
            K = z3.Int(f'{ty}_fail_at')
            def fm_handler(ctx, me, args, st):
                m = method_of(ctx.callee)
                if m not in ('write_fmt', 'write_str', 'write_char'): return None
                n = st.env.get('fw_calls', 0) + 1
                st.env['fw_calls'] = n
                if st.env.get('fw_failed'):
                    st.env['fw_after'] = st.env.get('fw_after', 0) + 1
                    return ret(st, Err(Adt('FmtError', None, [])))
                def g():
                    for s2, fails in ctx.ex.fork_bool(st, K == n):
                        if fails:
                            s2.env['fw_failed'] = True
                            yield s2, 'ret', Err(Adt('FmtError', None, []))
                        else: yield s2, 'ret', Ok(UNIT)
                return g()
            def elem_handler(ctx, me, args, st):
                m = method_of(ctx.callee)
                if m in ('render', 'source'): return ret(st, Adt('DisplayCow', 'Borrowed', [st.ref(StrV('e', 'str'))]))
                return None
            st = State(); st.assume(z3.And(K >= 0, K <= 12))
            elems = [Abs(f'elem{i}', elem_handler) for i in range(3)]
            if ty.startswith('Array'):
                inner = st.ref(VecV([e for e in elems], 'Vec'))
            else:
                from mirsym.models.maps import MapV
                inner = st.ref(MapV(('a', 'b', 'c'), tuple(value_scalar(scalar_int(7 + i)) for i in range(3)), 'Object'))      # Object values are real Values
            self_ = st.ref(Adt(ty, None, [inner], ['s']))
            for s2, kind, val in ex.run(fn, [self_, st.ref(Abs('formatter', fm_handler), True)], st):
                ob.paths += 1; ob.reached()
                bad = None
                if kind != 'ret': bad = f'{kind} {val}'
                elif s2.env.get('fw_after'): bad = f"{s2.env['fw_after']} further write(s) after the failure"
                elif s2.env.get('fw_failed') and val.variant != 'Err': bad = 'returns Ok although a write failed'
                ob.decide(ex, s2.conds, z3.BoolVal(bool(bad)))
                if bad:
                    g = {'a': [10, 10, 22, 333], 'o': {'k': 1}}
                    ob.violation(f'{ty}/write-after-failure', f'<{ty} as Display>::fmt: {bad}', {}, {'kind': 'sinkfault', 'template': '{{ a }}|{{ o }}', 'globals': g}, confirm_sink)
            ob.absorb(ex)


def run(chk):
    P = chk.program(('core', 'lib', 'liquid'))
    for w in ALL:
        ob_renderable(chk, P, w)
    ob_partials_sink(chk, P)
    ob_value_printers(chk, P)
    ob_buffered_equals_streamed(chk, P)
