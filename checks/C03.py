"""C03 -- literal text is preserved; trim markers, raw and comment do exactly their job (grammar facets, engine E3)."""
import z3
from pegsmt.obligations import *

PROPERTY_WS = (0x20, 0x09, 0x0A, 0x0D)    # the property's set: space, tab, line breaks


def parse_conf(template, expect):
    sc = {'kind': 'template', 'template': template}
    return sc, (lambda r: r.get('outcome') != 'ok' or r.get('output') != expect)


def ob_whitespace_set(chk, rules, gh):
    with chk.obligation('grammar/WHITESPACE-set', 'the characters a trim marker removes (rule WHITESPACE) are exactly space, tab, LF, CR', {'input': 'every single code point'}) as ob:
        ob.engine = 'E3-pegsmt'; ob.functions['grammar.pest'] = gh
        m = Matcher(rules, 2)
        res = m.match(('ref', 'WHITESPACE'), 0, True)
        matched = z3.Or(*res.values()) if res else z3.BoolVal(False)
        ob.paths = 1; ob.reached()
        # CRLF is one WHITESPACE match of two chars; look at the first char only (L >= 1, second char free)
        mo = solve(ob, m.base + [m.L >= 1, matched != is_ws(m.c[0])])
        if mo is not None:
            c = mo.eval(m.c[0], model_completion=True).as_long()
            what = f'U+{c:04X} {"is" if c not in PROPERTY_WS else "is not"} trim-whitespace for the grammar but the property says otherwise'
            tpl = chr(c) + '{{- 1 -}}' + chr(c) + '|'
            sc, conf = parse_conf(tpl, '1|' if c in PROPERTY_WS else tpl.replace('{{- 1 -}}', '1'))
            ob.violation(f'WHITESPACE/U+{c:04X}', what, {'char': c}, sc, conf)
        else:
            ob.sample({'whitespace': [hex(c) for c in PROPERTY_WS]})


def ob_trim_exact(chk, rules, gh, N):
    with chk.obligation('grammar/trim-markers', "a start delimiter with '-' consumes exactly the whitespace run before it plus the delimiter, one without '-' only the delimiter; an end delimiter with '-' "
                        'consumes the delimiter plus the maximal whitespace run after it, one without only the delimiter', {'input': f'every string of up to {N} code points'}) as ob:
        ob.engine = 'E3-pegsmt'; ob.functions['grammar.pest'] = gh
        m = Matcher(rules, N)
        wsrule = lambda i: (z3.Or(*m.match(('ref', 'WHITESPACE'), i, True).values()) if m.match(('ref', 'WHITESPACE'), i, True) else z3.BoolVal(False))
        for rule, mark, plain in (('TagStart', '{%-', '{%'), ('ExpressionStart', '{{-', '{{')):
            res = m.match(('ref', rule), 0, True)
            ob.paths += len(res); ob.reached()
            for e, c in res.items():
                # matched [0, e): either plain delimiter (e == 2, text == plain, and the '-' form did not apply) or ws-run + marker
                is_plain = z3.And(*[m.c[i] == ord(ch) for i, ch in enumerate(plain)]) if e == 2 else z3.BoolVal(False)
                with_marker = z3.And(*[m.c[e - 3 + i] == ord(ch) for i, ch in enumerate(mark)], *[is_ws_grammar(m, rules, i) for i in range(e - 3)]) if e >= 3 else z3.BoolVal(False)
                mo = solve(ob, m.base + [c, z3.Not(z3.Or(is_plain, with_marker))])
                if mo is not None:
                    w = witness(m, mo)
                    sc, conf = parse_conf('x' + w[:e] + (' 1 }}' if rule == 'ExpressionStart' else ' assign q = 1 %}') + 'y', None)
                    ob.violation(f'{rule}/consumes-wrong-text', f'{rule} consumed {w[:e]!r}', {'input': w}, sc, lambda r: True)
        for rule, mark, plain in (('TagEnd', '-%}', '%}'), ('ExpressionEnd', '-}}', '}}')):
            res = m.match(('ref', rule), 0, True)
            ob.paths += len(res)
            for e, c in res.items():
                is_plain = z3.And(*[m.c[i] == ord(ch) for i, ch in enumerate(plain)]) if e == 2 else z3.BoolVal(False)
                if e >= 3:
                    run = [is_ws_grammar(m, rules, i) for i in range(3, e)]
                    # maximal: the char after the run does not start another WHITESPACE match
                    nxt = z3.Not(z3.Or(*m.match(('ref', 'WHITESPACE'), e, True).values())) if m.match(('ref', 'WHITESPACE'), e, True) else z3.BoolVal(True)
                    with_marker = z3.And(*[m.c[i] == ord(ch) for i, ch in enumerate(mark)], *run, nxt)
                else:
                    with_marker = z3.BoolVal(False)
                mo = solve(ob, m.base + [c, z3.Not(z3.Or(is_plain, with_marker))])
                if mo is not None:
                    w = witness(m, mo)
                    ob.violation(f'{rule}/consumes-wrong-text', f'{rule} consumed {w[:e]!r} of {w!r}', {'input': w}, {'kind': 'template', 'template': '{{ 1 ' + w + '|'}, lambda r: True)
        ob.sample({'rules': ['TagStart', 'ExpressionStart', 'TagEnd', 'ExpressionEnd']})


def is_ws_grammar(m, rules, i):
    """char i is consumed by a (possibly two-char CRLF) WHITESPACE match that starts at or right before i: here simply: is a grammar whitespace char"""
    r = m.match(('ref', 'WHITESPACE'), i, True)
    single = r.get(i + 1, z3.BoolVal(False))
    # second half of a CRLF pair
    crlf_tail = z3.And(m.c[i] == 0x0A, m.c[i - 1] == 0x0D) if i > 0 else z3.BoolVal(False)
    return z3.Or(single, crlf_tail, z3.And(m.c[i] == 0x0D))


def ob_raw(chk, rules, gh, N):
    with chk.obligation('grammar/Raw-maximal', 'literal text (rule Raw) runs up to the next tag/expression start (including the whitespace a trimming start delimiter owns) and contains no start; '
                        'text without any start delimiter is a single Raw covering the whole input', {'input': f'every string of up to {N} code points'}) as ob:
        ob.engine = 'E3-pegsmt'; ob.functions['grammar.pest'] = gh
        m = Matcher(rules, N)
        res = m.match(('ref', 'Raw'), 0, True)
        start_at = lambda p: (z3.Or(*m.match(('ref', 'AnyStart'), p, True).values()) if m.match(('ref', 'AnyStart'), p, True) else z3.BoolVal(False))
        ob.paths = len(res); ob.reached()
        for e, c in res.items():
            inside_clean = z3.And(*[z3.Not(start_at(p)) for p in range(e)])
            maximal = z3.Or(m.L == e, start_at(e))
            mo = solve(ob, m.base + [c, z3.Not(z3.And(inside_clean, maximal))])
            if mo is not None:
                w = witness(m, mo)
                ob.violation('Raw/not-maximal-or-contains-start', f'Raw matched {w[:e]!r} of {w!r}', {'input': w}, {'kind': 'template', 'template': w}, lambda r, w=w: r.get('outcome') == 'ok' and r.get('output') != w)
        # no start anywhere and non-empty => Raw covers everything
        nostart = z3.And(*[z3.Not(start_at(p)) for p in range(N)])
        mo = solve(ob, m.base + [m.L >= 1, nostart, z3.Not(full(m, res))])
        if mo is not None:
            w = witness(m, mo)
            ob.violation('Raw/plain-text-not-one-Raw', f'plain text {w!r} is not a single Raw', {'input': w}, {'kind': 'template', 'template': w}, lambda r, w=w: r.get('outcome') != 'ok' or r.get('output') != w)
        # whole file: a template without markup parses as [Raw] -- LaxLiquidFile == SOI Raw EOI
        lax = m.rule('LaxLiquidFile')
        mo = solve(ob, m.base + [nostart, z3.Not(full(m, lax))])
        if mo is not None:
            w = witness(m, mo)
            ob.violation('LaxLiquidFile/plain-text', f'plain text {w!r} is not accepted as a file', {'input': w}, {'kind': 'template', 'template': w}, lambda r, w=w: r.get('outcome') != 'ok' or r.get('output') != w)
        ob.sample({'N': N})


def run(chk):
    rules, gh = load()
    N = 8 if chk.tier == 'quick' else 12
    ob_whitespace_set(chk, rules, gh)
    ob_trim_exact(chk, rules, gh, N)
    ob_raw(chk, rules, gh, N)
    chk.trusted |= {'pest implements PEG semantics as documented (ordered choice, greedy repetition, implicit whitespace, atomic cascading)', 'pegsmt encoder'}
    # translator validation: concrete strings through the encoder and through the real pest parser (via templates)
    for tpl, out in (('plain text', 'plain text'), ('a {{- 1 -}} b', 'a1b'), ('a\t{{-1-}}\n b', 'a1b'), ('{{ 1 }}{{2}}', '12'), ('x{{ "}}" }}y', 'x}}y')):
        from pegsmt.peg import concrete_match
        enc = concrete_match(rules, 'LaxLiquidFile', tpl)
        chk.validate(f'file {tpl!r}: encoder accepts whole input', (enc == len(tpl), out), {'kind': 'template', 'template': tpl}, lambda r: (r.get('outcome') == 'ok', r.get('output')))
