"""C03 -- literal text is preserved; trim markers, raw and comment do exactly their job (grammar facets, engine E3)."""
import z3
from pegsmt.obligations import *

PROPERTY_WS = (0x20, 0x09, 0x0A, 0x0D)    # the property's set: space, tab, line breaks


def parse_conf(template, expect):
    sc = {'kind': 'template', 'template': template}
    return sc, (lambda r: r.get('outcome') != 'ok' or r.get('output') != expect)


def ob_whitespace_set(chk, rules, gh):
    with chk.obligation('grammar/WHITESPACE-set', 'the characters a trim marker removes (rule WHITESPACE) are exactly space, tab, LF, CR', {'input': 'every single code point'}) as ob:
        ob.engine = 'E3-pegsmt'; ob.functions['grammar.pest'] = gh
        m = Matcher(rules, 2)
        res = m.match(('ref', 'WHITESPACE'), 0, True)
        matched = z3.Or(*res.values()) if res else z3.BoolVal(False)
        ob.paths = 1; ob.reached()
        # CRLF is one WHITESPACE match of two chars; look at the first char only (L >= 1, second char free)
        mo = solve(ob, m.base + [m.L >= 1, matched != is_ws(m.c[0])])
        if mo is not None:
            c = mo.eval(m.c[0], model_completion=True).as_long()
            what = f'U+{c:04X} {"is" if c not in PROPERTY_WS else "is not"} trim-whitespace for the grammar but the property says otherwise'
            tpl = chr(c) + '{{- 1 -}}' + chr(c) + '|'
            sc, conf = parse_conf(tpl, '1|' if c in PROPERTY_WS else tpl.replace('{{- 1 -}}', '1'))
            ob.violation(f'WHITESPACE/U+{c:04X}', what, {'char': c}, sc, conf)
        else:
            ob.sample({'whitespace': [hex(c) for c in PROPERTY_WS]})


def ob_trim_exact(chk, rules, gh, N):
    with chk.obligation('grammar/trim-markers', "a start delimiter with '-' consumes exactly the whitespace run before it plus the delimiter, one without '-' only the delimiter; an end delimiter with '-' "
                        'consumes the delimiter plus the maximal whitespace run after it, one without only the delimiter', {'input': f'every string of up to {N} code points'}) as ob:
        ob.engine = 'E3-pegsmt'; ob.functions['grammar.pest'] = gh
        m = Matcher(rules, N)
        wsrule = lambda i: (z3.Or(*m.match(('ref', 'WHITESPACE'), i, True).values()) if m.match(('ref', 'WHITESPACE'), i, True) else z3.BoolVal(False))
        for rule, mark, plain in (('TagStart', '{%-', '{%'), ('ExpressionStart', '{{-', '{{')):
            res = m.match(('ref', rule), 0, True)
            ob.paths += len(res); ob.reached()
            for e, c in res.items():
                # matched [0, e): either plain delimiter (e == 2, text == plain, and the '-' form did not apply) or ws-run + marker
                is_plain = z3.And(*[m.c[i] == ord(ch) for i, ch in enumerate(plain)]) if e == 2 else z3.BoolVal(False)
                with_marker = z3.And(*[m.c[e - 3 + i] == ord(ch) for i, ch in enumerate(mark)], *[is_ws_grammar(m, rules, i) for i in range(e - 3)]) if e >= 3 else z3.BoolVal(False)
                mo = solve(ob, m.base + [c, z3.Not(z3.Or(is_plain, with_marker))])
                if mo is not None:
                    w = witness(m, mo)
                    sc, conf = parse_conf('x' + w[:e] + (' 1 }}' if rule == 'ExpressionStart' else ' assign q = 1 %}') + 'y', None)
                    ob.violation(f'{rule}/consumes-wrong-text', f'{rule} consumed {w[:e]!r}', {'input': w}, sc, lambda r: True)
        for rule, mark, plain in (('TagEnd', '-%}', '%}'), ('ExpressionEnd', '-}}', '}}')):
            res = m.match(('ref', rule), 0, True)
            ob.paths += len(res)
            for e, c in res.items():
                is_plain = z3.And(*[m.c[i] == ord(ch) for i, ch in enumerate(plain)]) if e == 2 else z3.BoolVal(False)
                if e >= 3:
                    run = [is_ws_grammar(m, rules, i) for i in range(3, e)]
                    # maximal: the char after the run does not start another WHITESPACE match
                    nxt = z3.Not(z3.Or(*m.match(('ref', 'WHITESPACE'), e, True).values())) if m.match(('ref', 'WHITESPACE'), e, True) else z3.BoolVal(True)
                    with_marker = z3.And(*[m.c[i] == ord(ch) for i, ch in enumerate(mark)], *run, nxt)
                else:
                    with_marker = z3.BoolVal(False)
                mo = solve(ob, m.base + [c, z3.Not(z3.Or(is_plain, with_marker))])
                if mo is not None:
                    w = witness(m, mo)
                    ob.violation(f'{rule}/consumes-wrong-text', f'{rule} consumed {w[:e]!r} of {w!r}', {'input': w}, {'kind': 'template', 'template': '{{ 1 ' + w + '|'}, lambda r: True)
        ob.sample({'rules': ['TagStart', 'ExpressionStart', 'TagEnd', 'ExpressionEnd']})


def is_ws_grammar(m, rules, i):
    """char i is consumed by a (possibly two-char CRLF) WHITESPACE match that starts at or right before i: here simply: is a grammar whitespace char"""
    r = m.match(('ref', 'WHITESPACE'), i, True)
    single = r.get(i + 1, z3.BoolVal(False))
    # second half of a CRLF pair
    crlf_tail = z3.And(m.c[i] == 0x0A, m.c[i - 1] == 0x0D) if i > 0 else z3.BoolVal(False)
    return z3.Or(single, crlf_tail, z3.And(m.c[i] == 0x0D))


def trim_sweep():
    """native sweep: every property-whitespace run of length 0..2 on each side of trimming and non-trimming output tags and tags"""
    ws = ['', ' ', '\t', '\n', '\r', '\r\n', ' \t', '\t ', '\n\t', '\t\t']
    t = ''; exp = ''
    for w in ws:
        t += 'a' + w + '{{- 1 -}}' + w + 'b|' + 'a' + w + '{%- assign q = 1 -%}' + w + 'b|' + 'a' + w + '{{ 1 }}' + w + 'b|'
        exp += 'a1b|ab|' + 'a' + w + '1' + w + 'b|'
    sc = {'kind': 'template', 'template': t}
    return sc, (lambda r: r.get('outcome') != 'ok' or r.get('output') != exp)


def ob_raw(chk, rules, gh, N):
    with chk.obligation('grammar/Raw-maximal', 'literal text (rule Raw) runs up to the next tag/expression start (including the whitespace a trimming start delimiter owns) and contains no start; '
                        'text without any start delimiter is a single Raw covering the whole input', {'input': f'every string of up to {N} code points'}) as ob:
        ob.engine = 'E3-pegsmt'; ob.functions['grammar.pest'] = gh
        m = Matcher(rules, N)
        res = m.match(('ref', 'Raw'), 0, True)
        start_at = lambda p: (z3.Or(*m.match(('ref', 'AnyStart'), p, True).values()) if m.match(('ref', 'AnyStart'), p, True) else z3.BoolVal(False))
        ob.paths = len(res); ob.reached()
        for e, c in res.items():
            inside_clean = z3.And(*[z3.Not(start_at(p)) for p in range(e)])
            maximal = z3.Or(m.L == e, start_at(e))
            mo = solve(ob, m.base + [c, z3.Not(z3.And(inside_clean, maximal))])
            if mo is not None:
                w = witness(m, mo)
                sc, conf = trim_sweep()
                ob.violation('Raw/not-maximal-or-contains-start', f'Raw matched {w[:e]!r} of {w!r}', {'input': w}, sc, conf)
        # no start anywhere and non-empty => Raw covers everything
        nostart = z3.And(*[z3.Not(start_at(p)) for p in range(N)])
        mo = solve(ob, m.base + [m.L >= 1, nostart, z3.Not(full(m, res))])
        if mo is not None:
            w = witness(m, mo)
            ob.violation('Raw/plain-text-not-one-Raw', f'plain text {w!r} is not a single Raw', {'input': w}, {'kind': 'template', 'template': w}, lambda r, w=w: r.get('outcome') != 'ok' or r.get('output') != w)
        # whole file: a template without markup parses as [Raw] -- LaxLiquidFile == SOI Raw EOI
        lax = m.rule('LaxLiquidFile')
        mo = solve(ob, m.base + [nostart, z3.Not(full(m, lax))])
        if mo is not None:
            w = witness(m, mo)
            ob.violation('LaxLiquidFile/plain-text', f'plain text {w!r} is not accepted as a file', {'input': w}, {'kind': 'template', 'template': w}, lambda r, w=w: r.get('outcome') != 'ok' or r.get('output') != w)
        ob.sample({'N': N})


def run(chk):
    rules, gh = load()
    N = 8 if chk.tier == 'quick' else 12
    ob_whitespace_set(chk, rules, gh)
    ob_trim_exact(chk, rules, gh, N)
    ob_raw(chk, rules, gh, N)
    chk.trusted |= {'pest implements PEG semantics as documented (ordered choice, greedy repetition, implicit whitespace, atomic cascading)', 'pegsmt encoder'}
    P = chk.program(('core', 'lib'))
    ob_text(chk, P)
    ob_raw_block(chk, P, 2 if chk.tier == 'quick' else 3)
    ob_comment(chk, P, 2 if chk.tier == 'quick' else 3)
    # translator validation: concrete strings through the encoder and through the real pest parser (via templates)
    sc_, conf_ = trim_sweep()
    chk.validate('trim sweep holds natively', False, sc_, conf_)
    for tpl, out in (('plain text', 'plain text'), ('a {{- 1 -}} b', 'a1b'), ('a\t{{-1-}}\n b', 'a1b'), ('{{ 1 }}{{2}}', '12'), ('x{{ "}}" }}y', 'x}}y')):
        from pegsmt.peg import concrete_match
        enc = concrete_match(rules, 'LaxLiquidFile', tpl)
        chk.validate(f'file {tpl!r}: encoder accepts whole input', (enc == len(tpl), out), {'kind': 'template', 'template': tpl}, lambda r: (r.get('outcome') == 'ok', r.get('output')))


# ============================================================================ E2 + P-model: raw body, comment
from mirsym.exec import Executor, State, Unsupported
from mirsym.values import *
from checks.common import *
from checks.pmodel import *
import itertools

RAW_ALPHABET = ['raw', 'expr', 'if', 'endif', 'raw_tag', 'endraw', 'endraw_arg', 'comment', 'invalid']


def ob_raw_block(chk, P, n):
    with chk.obligation('RawBlock::parse/body-span', 'the body of a raw block is exactly the source text between the opening tag and the first {% endraw %} without arguments '
                        '(everything in between verbatim, whatever it looks like), it renders as that text, and a missing closer is an error',
                        {'body': f'every sequence of up to {n} elements over {RAW_ALPHABET}, then an optional closer and trailing elements'}) as ob:
        ex = Executor(P, models_with(parser_stubs() + registers_models())); ex.seed = chk.seed; ex.max_steps = 40000
        ob.stubs += ['pest Pair/Span/Position: stubs over a concrete element stream of the shape the grammar guarantees', 'Exp::parse / InvalidLiquidToken::parse: outcome stubs']
        for ln in range(0, n + 1):
            for body in itertools.product(RAW_ALPHABET, repeat=ln):
                for closed in (True, False):
                    kinds = ['raw_tag'] + list(body) + (['endraw', 'raw'] if closed else [])
                    want = py_reference(kinds)
                    st = State()
                    outs = list(run_parse(ex, P, st, kinds))
                    ob.paths += len(outs); ob.reached()
                    for s2, kind, val in outs:
                        bad = None
                        if kind == 'panic': bad = f'panics: {val}'
                        elif want == 'err':
                            if val[0] != 'err': bad = 'accepted, expected an error'
                        else:
                            if val[0] != 'ok':
                                if not s2.env.get('stub_failed'): bad = f'rejected, expected {want}'
                            else:
                                got = [describe_renderable(s2, r) for r in val[1]]
                                if len(got) != len(want) or got[0][0] != 'RawT' or got[0][1] != want[0][1]: bad = f'parsed as {got}, expected {want}'
                        if bad:
                            src = ''.join(ELEMENTS[k][1] for k in kinds).replace('{%if x%}', '{% if x %}')
                            exp = None if want == 'err' else (want[0][1] + ('txt ' if closed else ''))
                            sc = {'kind': 'template', 'template': src}
                            ob.violation('RawBlock/body' if kind != 'panic' else 'RawBlock/panic', f'{src!r}: {bad}', {'elements': kinds}, sc,
                                         lambda r, exp=exp: (r.get('outcome') != 'err') if exp is None else (r.get('outcome') != 'ok' or r.get('output') != exp))
            ob.sample({'body_len': ln})
        # the renderable writes exactly its content, once
        fn = P.find_method('RawT', 'render_to', 'Renderable', 'lib')
        st = State(); sink = SinkEnv('W', may_fail=False)
        for s2, kind, val in ex.run(fn, [st.ref(Adt('RawT', None, [StrV('{{raw}} body', 'String')], ['content'])), st.ref(sink.abs(), True), st.ref(Opaque(('RT',)))], st):
            ob.paths += 1
            if kind == 'panic' or sink.text(s2) != [('fmt', ('{{raw}} body',))]:
                ob.violation('RawT::render_to', f'raw renderable wrote {sink.text(s2)}', {}, {'kind': 'template', 'template': '{% raw %}{{raw}} body{% endraw %}'}, lambda r: r.get('output') != '{{raw}} body')
        ob.absorb(ex)


def ob_text(chk, P):
    with chk.obligation('Text::render_to/verbatim', 'literal text is written with one write of exactly the stored text; Raw elements store exactly their matched text',
                        {'text': 'abstract string'}) as ob:
        ex = Executor(P, models_with([])); ex.seed = chk.seed
        fn = P.find_method('Text', 'render_to', 'Renderable', 'core')
        st = State(); sink = SinkEnv('W', may_fail=False)
        txt = StrV((), 'String', {'name': 'TEXT', 'parts': ('TEXT',)})
        for s2, kind, val in ex.run(fn, [st.ref(Adt('Text', None, [txt], ['text'])), st.ref(sink.abs(), True), st.ref(Opaque(('RT',)))], st):
            ob.paths += 1; ob.reached()
            log = sink.text(s2)
            if kind == 'panic' or val.variant != 'Ok' or len(log) != 1 or 'TEXT' not in repr(log[0]):
                ob.violation('Text::render_to', f'text renderable wrote {log} ({kind})', {}, {'kind': 'template', 'template': 'pläin { text % }'}, lambda r: r.get('output') != 'pläin { text % }')
        f2 = P.find_method('Raw', 'into_renderable', None, 'core')
        st = State()
        for s2, kind, val in ex.run(f2, [Adt('Raw', None, [st.ref(StrV('some text', 'str'))], ['text'])], st):
            ob.paths += 1
            v = s2.deref_all(val) if kind == 'ret' else None
            if kind != 'ret' or not (isinstance(v, Adt) and v.ty == 'Text' and isinstance(v.items[0], StrV) and v.items[0].concrete() == 'some text'):
                ob.violation('Raw::into_renderable', f'{kind} {val}', {}, {'kind': 'template', 'template': 'some text'}, lambda r: r.get('output') != 'some text')
        ob.absorb(ex)


COMMENT_ALPHABET = ['raw', 'expr', 'assign', 'if', 'endif', 'comment', 'endcomment', 'unknown', 'invalid']


def ob_comment(chk, P, n):
    with chk.obligation('CommentBlock/no-effect', 'a comment block parses to a renderable that writes nothing and touches neither the runtime nor anything parsed inside it, whatever well-formed markup it holds; '
                        'nested comments balance; an unclosed comment is an error', {'body': f'every sequence of up to {n} elements over {COMMENT_ALPHABET}'}) as ob:
        ex = Executor(P, models_with(parser_stubs() + registers_models() + io_models())); ex.seed = chk.seed; ex.max_steps = 40000
        for ln in range(0, n + 1):
            for body in itertools.product(COMMENT_ALPHABET, repeat=ln):
                kinds = ['comment'] + list(body) + ['endcomment', 'raw']
                want = py_reference(kinds)
                if want == 'err': continue      # mis-nested / unclosed bodies belong to C01
                st = State()
                for s2, kind, val in run_parse(ex, P, st, kinds):
                    ob.paths += 1; ob.reached()
                    src = ''.join(ELEMENTS[k][1] for k in kinds).replace('{%if x%}', '{% if x %}').replace('{{x}}', '{{ 1 }}')
                    sc = {'kind': 'template', 'template': '{% assign a = 0 %}' + src + '[{{a}}]'}
                    conf = lambda r: r.get('outcome') == 'ok' and r.get('output') != 'txt [0]'
                    if kind == 'panic':
                        ob.violation('CommentBlock/panic', f'{src!r}: panics: {val}', {'elements': kinds}, sc, lambda r: r.get('outcome') == 'panic'); continue
                    if val[0] != 'ok':
                        # errors of what is inside a comment are ignored by design (only an unclosed or mis-nested comment is an error, and those bodies were skipped above):
                        # a well-formed comment must parse unless a nested comment's own stubbed plugin failed
                        if not s2.env.get('stub_failed'):
                            ob.violation('CommentBlock/rejected', f'{src!r}: a balanced comment is rejected', {'elements': kinds}, {'kind': 'template', 'template': src}, lambda r: r.get('stage') == 'parse' and r.get('outcome') == 'err')
                        continue
                    first = val[1][0]
                    # render the comment's renderable: nothing written, no runtime call, none of the inner renderables rendered
                    fnr = None
                    rv = s2.deref_all(first)
                    if not isinstance(rv, Adt):
                        ob.violation('CommentBlock/renderable', f'{src!r}: comment parsed to {rv!r}', {'elements': kinds}, sc, conf); continue
                    fnr = P.find_method(rv.ty, 'render_to', 'Renderable', 'lib')
                    sink = SinkEnv('CW', may_fail=False); penv = ParentEnv(('a',))
                    before = len(calls(s2, 'child'))
                    for s3, k3, v3 in ex.run(fnr, [first if isinstance(first, Ref) else s2.ref(first), s2.ref(sink.abs(), True), s2.ref(penv.abs())], s2):
                        if k3 == 'panic' or v3.variant != 'Ok' or sink.log(s3) or calls(s3, 'P') or len(calls(s3, 'child')) != before:
                            ob.violation('CommentBlock/has-effect', f'{src!r}: rendering the comment: {k3} {v3}, wrote {sink.log(s3)}, runtime calls {calls(s3, "P")}, inner renderables rendered: {len(calls(s3, "child")) - before}',
                                         {'elements': kinds}, sc, conf)
            ob.sample({'body_len': ln})
        ob.absorb(ex)
