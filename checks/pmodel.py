"""P-model: pest `Pair` / `Span` / `Position` stubs over a concrete element stream, a `Language` holding real and abstract
plugins, so that the real TagBlock / Tag::parse_pair / block parsers can be executed on streams of top-level elements.

The shape of the streams is what grammar.pest guarantees for LaxLiquidFile (checked by the E3 obligations):
  element in {Raw, Expression, Tag(TagInner(Identifier, token*)), InvalidLiquid}, terminated by exactly one EOI."""
import re
import z3
from mirsym.exec import Unsupported
from mirsym.values import *
from mirsym.models.maps import MapV
from mirsym.models.iters import mk_list_iter
from checks.common import *

# element kinds: (kind, text, tag name, [argument words])
ELEMENTS = {
    'raw': ('Raw', 'txt ', None, []),
    'expr': ('Expression', '{{x}}', None, []),
    'invalid': ('InvalidLiquid', '{', None, []),
    'assign': ('Tag', '{%assign a=1%}', 'assign', ['a', '=', '1']),
    'if': ('Tag', '{%if x%}', 'if', ['x']),
    'endif': ('Tag', '{%endif%}', 'endif', []),
    'else': ('Tag', '{%else%}', 'else', []),
    'comment': ('Tag', '{%comment%}', 'comment', []),
    'endcomment': ('Tag', '{%endcomment%}', 'endcomment', []),
    'raw_tag': ('Tag', '{%raw%}', 'raw', []),
    'endraw': ('Tag', '{%endraw%}', 'endraw', []),
    'endraw_arg': ('Tag', '{%endraw foo%}', 'endraw', ['foo']),
    'endif_arg': ('Tag', '{%endif foo%}', 'endif', ['foo']),
    'endcomment_arg': ('Tag', '{%endcomment foo%}', 'endcomment', ['foo']),
    'unknown': ('Tag', '{%bogus%}', 'bogus', []),
}


def mk_pos(src, i):
    def h(ctx, me, args, st):
        m = method_of(ctx.callee)
        if m == 'span':
            other = st.deref_all(args[1])
            return ret(st, mk_span(src, i, other.data[1]))
        if m == 'pos': return ret(st, Int(i, 'usize'))
        if m == 'line_col': return ret(st, Tup([Int(1, 'usize'), Int(i + 1, 'usize')]))
        if m == 'clone': return ret(st, me)
        return None
    return Abs('pos', h, ('pos', i))


def mk_span(src, a, b):
    def h(ctx, me, args, st):
        m = method_of(ctx.callee)
        if m == 'start_pos': return ret(st, mk_pos(src, a))
        if m == 'end_pos': return ret(st, mk_pos(src, b))
        if m == 'as_str': return ret(st, st.ref(StrV(src[a:b], 'str')))
        if m in ('start', 'end'): return ret(st, Int(a if m == 'start' else b, 'usize'))
        if m == 'clone': return ret(st, me)
        return None
    return Abs('span', h, ('span', a, b))


def mk_pair(src, rule, a, b, children=()):
    def h(ctx, me, args, st):
        m = method_of(ctx.callee)
        if m == 'as_rule': return ret(st, Adt('Rule', rule, []))
        if m == 'as_str': return ret(st, st.ref(StrV(src[a:b], 'str')))
        if m == 'as_span': return ret(st, mk_span(src, a, b))
        if m == 'into_inner': return ret(st, mk_list_iter(list(children)))
        if m == 'clone': return ret(st, me)
        return None
    return Abs(f'pair:{rule}:{a}', h, ('pair', rule, a, b))


def build_stream(kinds):
    """-> (source text, [top-level Pair stubs incl. EOI])"""
    src = ''.join(ELEMENTS[k][1] for k in kinds)
    pairs = []; pos = 0
    for k in kinds:
        rule, text, name, argw = ELEMENTS[k]
        a, b = pos, pos + len(text)
        if rule == 'Tag':
            ident = mk_pair(src, 'Identifier', a + 2, a + 2 + len(name))
            toks = [mk_pair(src, 'Value', a + 2, a + 3) for _ in argw]
            inner = mk_pair(src, 'TagInner', a + 2, b - 2, [ident] + toks)
            pairs.append(mk_pair(src, 'Tag', a, b, [inner]))
        elif rule == 'Expression':
            fc = mk_pair(src, 'FilterChain', a + 2, b - 2)
            pairs.append(mk_pair(src, 'Expression', a, b, [mk_pair(src, 'ExpressionInner', a + 2, b - 2, [fc])]))
        else:
            pairs.append(mk_pair(src, rule, a, b))
        pos = b
    pairs.append(mk_pair(src, 'EOI', pos, pos))
    return src, pairs


class Plugins:
    """Language with: real CommentBlock and RawBlock; abstract well-behaved block `if` (parse_all until its end tag, `else` is
    a plain inner tag); abstract tags `assign`, `else`; everything else unknown"""

    def __init__(self, P, st):
        self.P = P
        self.rendered = []

    def reflection(self, start, end):
        def h(ctx, me, args, st):
            m = method_of(ctx.callee)
            if m == 'start_tag': return ret(st, st.ref(StrV(start, 'str')))
            if m == 'end_tag': return ret(st, st.ref(StrV(end, 'str')))
            return None
        return Abs(f'reflection:{start}', h)

    def tag_plugin(self, name):
        v = z3.Bool(f'tag_{name}_parse_fails')
        def h(ctx, me, args, st):
            if method_of(ctx.callee) != 'parse': return None
            log_call(st, 'plugin', ('tag', name))
            def g():
                for s2, bad in ctx.ex.fork_bool(st, v):
                    if bad:
                        s2.env['stub_failed'] = True
                        yield s2, 'ret', Err(Adt('LiquidError', None, [Opaque(('msg', f'{name}: bad arguments'))]))
                    else: yield s2, 'ret', Ok(s2.ref(ChildEnv(f'tag:{name}', None, 0).abs(), True))
            return g()
        return Abs(f'tagplugin:{name}', h)

    def generic_block(self, name):
        """a well-behaved block: parses its body with TagBlock::parse_all, then assert_empty"""
        refl = self.reflection(name, 'end' + name)
        def h(ctx, me, args, st):
            m = method_of(ctx.callee)
            if m == 'reflection': return ret(st, st.ref(refl))
            if m != 'parse': return None
            log_call(st, 'plugin', ('block', name))
            block = args[2]
            bref = st.ref(block, True)
            def g():
                for s2, kind, val in ctx.ex.call('TagBlock::<\'_, \'_>::parse_all', [bref, args[3]], st, ctx.depth):
                    if kind != 'ret': yield s2, kind, val; continue
                    if val.variant == 'Err': yield s2, 'ret', val; continue
                    for s3, k3, v3 in ctx.ex.call('TagBlock::<\'_, \'_>::assert_empty', [s2.deref(bref)], s2, ctx.depth):
                        if k3 != 'ret': yield s3, k3, v3
                        else: yield s3, 'ret', Ok(s3.ref(ChildEnv(f'block:{name}', None, 0).abs(), True))
            return g()
        return Abs(f'blockplugin:{name}', h)

    def language(self, st):
        blocks = MapV(('comment', 'raw', 'if'), (st.ref(Adt('CommentBlock', None, []), True), st.ref(Adt('RawBlock', None, []), True), st.ref(self.generic_block('if'), True)), 'HashMap')
        tags = MapV(('assign', 'else'), (st.ref(self.tag_plugin('assign'), True), st.ref(self.tag_plugin('else'), True)), 'HashMap')
        return st.ref(Adt('Language', None, [Adt('PluginRegistry', None, [blocks], ['plugins']), Adt('PluginRegistry', None, [tags], ['plugins']),
                                             Adt('PluginRegistry', None, [MapV((), (), 'HashMap')], ['plugins'])], ['blocks', 'tags', 'filters']))


def parser_stubs():
    """Exp::parse and InvalidLiquidToken::parse(_pair): outcome only (Ok renderable / Err); pest error construction opaque"""
    def m_exp_parse(ctx, args, st):
        v = z3.Bool(f'expr_parse_fails_{len(st.conds)}')
        def g():
            for s2, bad in ctx.ex.fork_bool(st, v):
                if bad: s2.env['stub_failed'] = True
                yield s2, 'ret', (Err(Adt('LiquidError', None, [Opaque(('msg', 'bad expression'))])) if bad else Ok(s2.ref(ChildEnv('expr', None, 0).abs(), True)))
        return g()
    def m_invalid(ctx, args, st):
        # InvalidLiquidToken::parse_pair(self, next_elements) words its error by re-parsing the rest of the input with pest (not executable here).
        # Its only effect on the parse state is whether it consumes the shared element stream to find the end of the input
        # (`next_elements.last()`): that is read off the function's current MIR, the error text is not modelled.
        body = ctx.ex.prog.find(r'^fn (?:\w+::)*<impl at crates/core/src/parser/parser.rs:\d+:\d+: \d+:\d+>::parse_pair\(_1: InvalidLiquidToken', 'core')
        ctx.ex.encoded.setdefault(body.name, body.hash)
        drains = any(re.search(r'as Iterator>::(last|count|for_each|fold|nth|collect)', ln) or re.search(r'as Iterator>::next\(', ln) for ln in body.text)
        if drains:
            r = args[1]
            while isinstance(r, Ref) and isinstance(st.deref(r), Ref): r = st.deref(r)
            itv = st.deref(r)
            if isinstance(itv, Py) and itv.kind == 'iter' and itv.data[0] == 'list':
                st.store(r, Py('iter', ('list', itv.data[1], len(itv.data[1]))))
            else:
                raise Unsupported(f'InvalidLiquidToken::parse_pair over {itv!r}')
        return ret(st, Err(Adt('LiquidError', None, [Opaque(('msg', 'invalid liquid'))])))
    def m_err_from_pair(ctx, args, st):
        return ret(st, Adt('LiquidError', None, [Opaque(('msg', 'pest error'))]))
    def m_plugin_names(ctx, args, st):
        return ret(st, mk_list_iter([]))
    return [(r'PluginRegistry::<.*>::plugin_names$', m_plugin_names, 'stub:plugin_names (only used to word the unknown-tag error)'),
            (r'^(?:parser::)?(?:parser::)?Exp::<\'_>::parse$', m_exp_parse, 'stub:Exp::parse (Ok renderable or Err)'),
            (r'^(?:parser::)?(?:parser::)?InvalidLiquidToken::<\'_>::parse_pair$', m_invalid, 'stub:InvalidLiquidToken::parse_pair (drains the element stream, returns the strict parser\'s error)'),
            (r'^(?:parser::)?(?:parser::)?error_from_pair$|^(?:parser::)?(?:parser::)?convert_pest_error$|^pest::error::Error::<.*>::new_from_(span|pos)$', m_err_from_pair, 'stub:pest error construction (opaque error)'),
            (r'^<TagToken<\'_> as From<pest::iterators::Pair<\'_, (?:\w+::)*Rule>>>::from$|^(?:parser::)?(?:parser::)?TagToken::<\'_>::raise_error$', None, 'x')][:4]


def py_reference(kinds):
    """independent reference for streams over ELEMENTS with the Plugins language:
    returns 'err' or a list describing top-level renderables: ('text',), ('expr',), ('tag', name), ('block', name), ('comment',), ('raw', body_text)
    `maybe_err`: plugins/expressions may reject their arguments, so Ok is only required when no such stub fails; structure errors (unclosed, unknown, stray end) are mandatory."""
    pos = [0]
    def nxt():
        k = kinds[pos[0]] if pos[0] < len(kinds) else 'EOI'
        pos[0] += 1
        return k
    class Fail(Exception): pass
    def parse_element(k):
        rule, text, name, argw = ELEMENTS[k]
        if rule == 'Raw': return ('text',)
        if rule == 'Expression': return ('expr',)
        if rule == 'InvalidLiquid': raise Fail('invalid')
        if name in ('assign', 'else'): return ('tag', name)
        if name == 'if': 
            body(('endif',)); return ('block', 'if')
        if name == 'comment':
            comment_body(); return ('comment',)
        if name == 'raw':
            return ('raw', raw_body())
        raise Fail('unknown tag ' + name)
    def body(ends):
        while True:
            k = nxt()
            if k == 'EOI': raise Fail('unclosed')
            rule, text, name, argw = ELEMENTS[k]
            if rule == 'Tag' and name in [e for e in ends]:
                if argw: raise Fail('end tag with arguments')
                return
            parse_element(k)
    def comment_body():
        while True:
            k = nxt()
            if k == 'EOI': raise Fail('unclosed')
            rule, text, name, argw = ELEMENTS[k]
            if rule == 'Tag' and name == 'endcomment':
                if argw: raise Fail('end tag with arguments')
                return
            if rule == 'Tag':
                if name == 'comment': parse_element(k)
                else:
                    save = pos[0]
                    try: parse_element(k)
                    except Fail as e:
                        if str(e) == 'unclosed': raise       # the shared stream is exhausted: the comment itself is unclosed
                        # other errors of tags inside a comment are ignored, but what they consumed stays consumed
    def raw_body():
        out = ''
        while True:
            k = nxt()
            if k == 'EOI': raise Fail('unclosed')
            rule, text, name, argw = ELEMENTS[k]
            if rule == 'Tag' and name == 'endraw' and not argw: return out
            out += text
    res = []
    try:
        while True:
            k = nxt()
            if k == 'EOI': return res
            res.append(parse_element(k))
    except Fail:
        return 'err'


def run_parse(ex, P, st, kinds, depth=0):
    """emulates parser::parse's loop on the stub stream with the real BlockElement/Tag/TagBlock code; yields (st, kind, value)
    where value is ('ok', [renderable values]) or ('err',)"""
    src, pairs = build_stream(kinds)
    plugins = Plugins(P, st)
    lang = plugins.language(st)
    it = st.ref(mk_list_iter(pairs), True)
    f_from = P.find(r'^fn .*<impl at crates/core/src/parser/parser.rs:\d+:\d+: \d+:\d+>::from\(_1: pest::iterators::Pair<.*\) -> BlockElement<', 'core')
    f_parse_pair = P.find_method('BlockElement', 'parse_pair', None, 'core')
    from mirsym.models.iters import step
    def loop(s, acc):
        itv = s.deref(it)
        outs = list(step(ex, s, itv.data, depth))
        for s1, item, d2 in outs:
            s1.store(it, Py('iter', d2))
            if item is None:
                yield s1, 'panic', 'top-level loop ran past EOI'; continue
            if item.data[1] == 'EOI':
                yield s1, 'ret', ('ok', acc); continue
            for s2, k2, be in ex.run(f_from, [item], s1):
                if k2 != 'ret': yield s2, k2, be; continue
                for s3, k3, r in ex.run(f_parse_pair, [be, it, lang], s2):
                    if k3 != 'ret': yield s3, k3, r; continue
                    if r.variant == 'Err': yield s3, 'ret', ('err',)
                    else: yield from loop(s3, acc + [r.items[0]])
    yield from loop(st, [])
    return


def describe_renderable(st, r):
    v = st.deref_all(r)
    if isinstance(v, Abs): return ('abs', v.name)
    if isinstance(v, Adt): return (v.ty,) + tuple(repr(x) if not isinstance(x, StrV) else x.concrete() for x in v.items)
    return repr(v)


# ============================================================================ streams whose tags carry real argument token trees (for the real stdlib block parsers)
def token_tree(src, a, b, kind):
    """the Pair tree pest builds for a one-word tag argument: FilterChain(Value(Variable(Identifier))) / FilterChain(Value(Literal(IntegerLiteral)))"""
    if kind == 'var':
        return mk_pair(src, 'FilterChain', a, b, [mk_pair(src, 'Value', a, b, [mk_pair(src, 'Variable', a, b, [mk_pair(src, 'Identifier', a, b)])])])
    if kind == 'lit':
        return mk_pair(src, 'FilterChain', a, b, [mk_pair(src, 'Value', a, b, [mk_pair(src, 'Literal', a, b, [mk_pair(src, 'IntegerLiteral', a, b)])])])
    if kind == 'str':
        return mk_pair(src, 'FilterChain', a, b, [mk_pair(src, 'Value', a, b, [mk_pair(src, 'Literal', a, b, [mk_pair(src, 'StringLiteral', a, b)])])])
    if kind in ('Colon', 'Comma', 'Assign'):
        return mk_pair(src, kind, a, b)
    raise ValueError(kind)


def block_elements(name, start_args, inner):
    """element table for one real block: its start tag (well-formed arguments), its end tag with and without arguments, its inner tags, and generic elements"""
    el = {
        'raw': ('Raw', 'txt ', None, []),
        'invalid': ('InvalidLiquid', '{', None, []),
        'assign': ('Tag', '{%assign a=1%}', 'assign', []),
        'unknown': ('Tag', '{%bogus%}', 'bogus', []),
        'start': ('Tag', '{%' + name + ''.join(' ' + t for t, _ in start_args) + '%}', name, start_args),
        'end': ('Tag', '{%end' + name + '%}', 'end' + name, []),
        'end_arg': ('Tag', '{%end' + name + ' foo%}', 'end' + name, [('foo', 'var')]),
    }
    for iname, iargs in inner:
        el[iname] = ('Tag', '{%' + iname + ''.join(' ' + t for t, _ in iargs) + '%}', iname, iargs)
        if not iargs:       # an inner tag that takes no arguments, given one
            el[iname + '_arg'] = ('Tag', '{%' + iname + ' foo%}', iname, [('foo', 'var')])
    return el


def build_stream2(kinds, elements):
    src = ''.join(elements[k][1] for k in kinds)
    pairs = []; pos = 0
    for k in kinds:
        rule, text, name, toks = elements[k]
        a, b = pos, pos + len(text)
        if rule == 'Tag':
            ident = mk_pair(src, 'Identifier', a + 2, a + 2 + len(name))
            cur = a + 2 + len(name); tps = []
            for t, kind in toks:
                i = src.index(t, cur, b)
                tps.append(token_tree(src, i, i + len(t), kind)); cur = i + len(t)
            inner = mk_pair(src, 'TagInner', a + 2, b - 2, [ident] + tps)
            pairs.append(mk_pair(src, 'Tag', a, b, [inner]))
        else:
            pairs.append(mk_pair(src, rule, a, b))
        pos = b
    pairs.append(mk_pair(src, 'EOI', pos, pos))
    return src, pairs


def run_parse2(ex, P, st, kinds, elements, block_name, block_struct, depth=0, real_tags=None):
    """like run_parse, with the real block `block_struct` registered as `block_name`, the abstract tag `assign` and the real tags `real_tags` (name -> struct)"""
    src, pairs = build_stream2(kinds, elements)
    plugins = Plugins(P, st)
    blocks = MapV((block_name,), (st.ref(Adt(block_struct, None, []), True),), 'HashMap') if block_name else MapV((), (), 'HashMap')
    tnames = ['assign'] + list(real_tags or {})
    tvals = [st.ref(plugins.tag_plugin('assign'), True)] + [st.ref(Adt(v, None, []), True) for v in (real_tags or {}).values()]
    tags = MapV(tuple(tnames), tuple(tvals), 'HashMap')
    lang = st.ref(Adt('Language', None, [Adt('PluginRegistry', None, [blocks], ['plugins']), Adt('PluginRegistry', None, [tags], ['plugins']),
                                          Adt('PluginRegistry', None, [MapV((), (), 'HashMap')], ['plugins'])], ['blocks', 'tags', 'filters']))
    it = st.ref(mk_list_iter(pairs), True)
    f_from = P.find(r'^fn .*<impl at crates/core/src/parser/parser.rs:\d+:\d+: \d+:\d+>::from\(_1: pest::iterators::Pair<.*\) -> BlockElement<', 'core')
    f_parse_pair = P.find_method('BlockElement', 'parse_pair', None, 'core')
    from mirsym.models.iters import step
    def loop(s, acc):
        itv = s.deref(it)
        for s1, item, d2 in list(step(ex, s, itv.data, depth)):
            s1.store(it, Py('iter', d2))
            if item is None:
                yield s1, 'panic', 'top-level loop ran past EOI'; continue
            if item.data[1] == 'EOI':
                yield s1, 'ret', ('ok', acc); continue
            for s2, k2, be in ex.run(f_from, [item], s1):
                if k2 != 'ret': yield s2, k2, be; continue
                for s3, k3, r in ex.run(f_parse_pair, [be, it, lang], s2):
                    if k3 != 'ret': yield s3, k3, r; continue
                    if r.variant == 'Err': yield s3, 'ret', ('err',)
                    else: yield from loop(s3, acc + [r.items[0]])
    yield from loop(st, [])
