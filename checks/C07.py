"""C07 -- variable paths and literals denote the right value or fail loudly."""
from vlib import kani_runner
from checks.kani_specs import C07_SPECS


def run(chk):
    kani_runner.obligations(chk, C07_SPECS, chk.tier)


# ============================================================================ E2: find / try_find / augmented_get / Variable
import itertools
import z3
from mirsym.exec import Executor, State, Unsupported
from mirsym.values import *
from mirsym.models.maps import MapV
from checks.common import *
from checks.renderables import expr_stub


def to_value(x):
    """python data -> liquid Value model"""
    if x is None: return VALUE_NIL
    if isinstance(x, bool): return value_scalar(scalar_bool(x))
    if isinstance(x, int): return value_scalar(scalar_int(x))
    if isinstance(x, str): return value_scalar(scalar_str(x))
    if isinstance(x, list): return Adt('Value', 'Array', [VecV([to_value(e) for e in x])])
    if isinstance(x, dict): return Adt('Value', 'Object', [MapV(tuple(x.keys()), tuple(to_value(v) for v in x.values()), 'Object')])
    raise ValueError(x)


def py_lookup(data, path):
    """reference semantics of a variable path; returns ('ok', value) or ('missing', longest resolvable prefix length)"""
    cur = data
    for n, p in enumerate(path):
        nxt = MISSING
        if isinstance(cur, list):
            if isinstance(p, int) and not isinstance(p, bool):
                i = p if p >= 0 else len(cur) + p
                if 0 <= i < len(cur): nxt = cur[i]
            elif isinstance(p, str) and (p.lstrip('+-').isdigit() and p == str(int(p))):
                i = int(p); i = i if i >= 0 else len(cur) + i
                if 0 <= i < len(cur): nxt = cur[i]
            elif p == 'first' and cur: nxt = cur[0]
            elif p == 'last' and cur: nxt = cur[-1]
            elif p == 'size': nxt = len(cur)
        elif isinstance(cur, dict):
            k = p if isinstance(p, str) else str(p)
            if k in cur: nxt = cur[k]
            elif k == 'size': nxt = len(cur)
        elif cur is not None and not isinstance(cur, (list, dict)):
            if p == 'size':
                s = cur if isinstance(cur, str) else ('true' if cur is True else 'false' if cur is False else str(cur))
                nxt = len(s)
        if nxt is MISSING: return ('missing', n)
        cur = nxt
    return ('ok', cur)


MISSING = object()
DATA = {'a': [10, 11, {'size': 99, 'k': 'v', 'first': 'F'}], 's': 'héy', 'e': [], 'o': {'x': {'y': [1, 2]}}, 'size': 7, 'n': None, 't': True}
STEPS = [0, 1, 2, 3, -1, -3, -4, 'a', 's', 'e', 'o', 'x', 'y', 'k', 'size', 'first', 'last', 'zz', 'n', 't', '1', '-1']


def scalar_of(p):
    return scalar_int(p) if isinstance(p, int) else scalar_str(p)


def concrete_value(st, v):
    """Value / ValueCow model -> python data"""
    v = st.deref_all(v)
    if isinstance(v, Adt) and v.ty == 'ValueCow': return concrete_value(st, v.items[0])
    if isinstance(v, Adt) and v.ty == 'ScalarCow':
        p = v.items[0].items[0]
        return p.concrete()
    if isinstance(v, Adt) and v.ty == 'Value':
        if v.variant == 'Nil': return None
        if v.variant == 'Scalar':
            inner = v.items[0].items[0]; p = inner.items[0]
            if isinstance(p, StrV): return p.concrete()
            return p.concrete()
        if v.variant == 'Array': return [concrete_value(st, e) for e in v.items[0].items]
        if v.variant == 'Object': return {k: concrete_value(st, e) for k, e in zip(v.items[0].keys, v.items[0].items)}
    if isinstance(v, MapV): return {k: concrete_value(st, e) for k, e in zip(v.keys, v.items)}
    if isinstance(v, VecV): return [concrete_value(st, e) for e in v.items]
    if isinstance(v, (Int, Bool)): return v.concrete()
    if isinstance(v, StrV): return v.concrete()
    return repr(v)


def path_template(path):
    t = '{{ d'
    for p in path:
        t += f'[{p}]' if isinstance(p, int) else f'.{p}' if (p.isidentifier()) else f"['{p}']"
    return t + ' }}'


def render_py(v):
    if v is None: return ''
    if v is True: return 'true'
    if v is False: return 'false'
    if isinstance(v, list): return ''.join(render_py(e) for e in v)
    if isinstance(v, dict): return None    # object rendering order/format: not compared
    return str(v)


def ob_find(chk, P, maxlen):
    with chk.obligation('find/try_find/paths', 'stepwise lookup over nested data: object members by key, array elements by zero-based index (negatives from the end), first/last/size by meaning '
                        "(an object's own key wins over size); try_find is None exactly when a step does not exist, find is then Err (never a panic) and otherwise returns the same value",
                        {'data': 'one nested tree (arrays in objects in arrays, keys colliding with size/first)', 'paths': f'all paths of length 1..{maxlen} over {len(STEPS)} steps'}) as ob:
        ex = Executor(P, models_with([])); ex.seed = chk.seed; ex.max_steps = 20000
        f_try = P.find(r'^fn (?:model::)?find::try_find\(', 'core'); f_find = P.find(r'^fn (?:model::)?find::find\(', 'core')
        ob.assumptions += ['error-message construction neither panics nor has effects']
        n = 0
        for ln in range(1, maxlen + 1):
            for path in itertools.product(STEPS, repeat=ln):
                exp = py_lookup(DATA, path)
                if ln == 3 and py_lookup(DATA, path[:1])[0] == 'missing': continue   # prune: everything below a missing root behaves alike
                res = {}
                first_ok = py_lookup(DATA, path[:1])[0] == 'ok'
                for which, fn in (('try_find', f_try), ('find', f_find)):
                    if which == 'find' and not first_ok:
                        # precondition of find(): every caller (the stack frames) checks contains_key(first step) before calling it
                        res[which] = ('missing',); continue
                    st = State()
                    root = st.ref(to_value(DATA))
                    pref = st.ref(VecV([scalar_of(p) for p in path], 'slice'))
                    outs = list(ex.run(fn, [root, pref], st))
                    ob.paths += len(outs); ob.reached()
                    if len(outs) != 1: res[which] = ('multi', len(outs)); continue
                    s2, kind, val = outs[0]
                    if kind == 'panic': res[which] = ('panic', str(val)[:80])
                    elif val.variant in ('Some', 'Ok'): res[which] = ('ok', concrete_value(s2, val.items[0]))
                    else: res[which] = ('missing',)
                n += 1
                bad = None
                want = ('ok', exp[1]) if exp[0] == 'ok' else ('missing',)
                if res['try_find'] != want: bad = f'try_find -> {res["try_find"]}, expected {want}'
                elif res['find'] != want: bad = f'find -> {res["find"]}, expected {want}'
                if bad:
                    tpl = path_template(('a',) + path[1:]) if False else path_template(path)
                    expect = render_py(exp[1]) if exp[0] == 'ok' else None
                    sc = {'kind': 'template', 'template': '[' + tpl + ']', 'globals': {'d': DATA}}
                    def conf(r, expect=expect, missing=(exp[0] == 'missing')):
                        if missing: return r.get('outcome') != 'err'
                        if expect is None: return False
                        return r.get('outcome') != 'ok' or r.get('output') != '[' + expect + ']'
                    role = 'find/panic' if 'panic' in repr(res) else ('find/wrong-value' if exp[0] == 'ok' else 'find/missing-step-not-reported')
                    ob.violation(role, f'path {list(path)}: {bad}', {'path': repr(path), 'results': repr(res)}, sc, conf)
        ob.sample({'paths_checked': n, 'example': {'path': ['a', 2, 'size'], 'expected': 99}})
        ob.absorb(ex)


def ob_array_index(chk, P, maxlen):
    with chk.obligation('augmented_get/array-index', 'an integer step into an array of Values selects element i for 0 <= i < len, element len+i for -len <= i < 0, nothing otherwise -- for EVERY i64 index',
                        {'array length': f'0..{maxlen}', 'index': 'every i64'}) as ob:
        ex = Executor(P, models_with([])); ex.seed = chk.seed
        fn = P.find(r'^fn (?:\w+::)*augmented_get\(', 'core')
        for n in range(maxlen + 1):
            st = State()
            idx = z3.BitVec('idx', 64)
            arr = st.ref(to_value([100 + k for k in range(n)]))
            for s2, kind, val in ex.run(fn, [arr, st.ref(scalar_int(Int(idx, 'i64')))], st):
                ob.paths += 1; ob.reached()
                if kind == 'panic':
                    m = ob.decide(ex, s2.conds, z3.BoolVal(True)); iv = m.eval(idx, model_completion=True).as_signed_long()
                    sc = {'kind': 'template', 'template': '[{{ d[i] }}]', 'globals': {'d': [100 + k for k in range(n)], 'i': iv}}
                    ob.violation('augmented_get/array-index/panic', f'index {iv} into an array of {n} panics: {val}', {'len': n, 'index': iv}, sc, lambda r: r.get('outcome') not in ('ok', 'err')); continue
                got = concrete_value(s2, val.items[0]) if val.variant == 'Some' else None
                if got is None:
                    post = z3.Or(idx >= n, idx < -n)
                else:
                    k = got - 100
                    post = z3.Or(idx == k, idx == k - n)
                m = ob.decide(ex, s2.conds, z3.Not(post))
                if m is not None:
                    iv = m.eval(idx, model_completion=True).as_signed_long()
                    i2 = iv if iv >= 0 else n + iv
                    expect = str(100 + i2) if 0 <= i2 < n else None
                    sc = {'kind': 'template', 'template': '[{{ d[i] }}]', 'globals': {'d': [100 + k for k in range(n)], 'i': iv}}
                    ob.violation('augmented_get/array-index/wrong-element', f'index {iv} into an array of {n} yields {got}', {'len': n, 'index': iv, 'got': got}, sc,
                                 lambda r, e=expect: (r.get('outcome') != 'err') if e is None else (r.get('output') != f'[{e}]'))
            ob.sample({'len': n})
        ob.absorb(ex)


def ob_overlays(chk, P):
    with chk.obligation('augmented_get/overlays', "one lookup step on every kind of value: arrays answer integer steps, first, last, size; objects answer their own keys first and size only when they have no such key; "
                        'scalars answer size (their rendered length); nil, and every other step, is missing',
                        {'values': 'arrays (empty / 3 elements), objects (with and without own size/first keys), strings (ASCII / non-ASCII), integer, bool, nil', 'steps': f'{len(STEPS)} steps'}) as ob:
        ex = Executor(P, models_with([])); ex.seed = chk.seed
        fn = P.find(r'^fn (?:\w+::)*augmented_get\(', 'core')
        values = [[], [10, 11, 12], {'size': 99, 'k': 'v', 'first': 'F'}, {'k': 1, 'j': 2}, {}, 'abc', 'héy', '', 5, True, None]
        for v in values:
            for step in STEPS:
                st = State()
                outs = list(ex.run(fn, [st.ref(to_value(v)), st.ref(scalar_of(step))], st))
                ob.paths += len(outs); ob.reached()
                exp = py_lookup(v, (step,))
                want = ('ok', exp[1]) if exp[0] == 'ok' else ('missing',)
                got = ('multi',)
                if len(outs) == 1:
                    s2, kind, val = outs[0]
                    got = ('panic', str(val)[:60]) if kind == 'panic' else (('ok', concrete_value(s2, val.items[0])) if val.variant == 'Some' else ('missing',))
                if got != want:
                    tpl = '[' + path_template((step,)) + ']'
                    expect = render_py(exp[1]) if exp[0] == 'ok' else None
                    sc = {'kind': 'template', 'template': tpl, 'globals': {'d': v}}
                    def conf(r, expect=expect, missing=(exp[0] == 'missing')):
                        if missing: return r.get('outcome') != 'err'
                        return expect is not None and (r.get('outcome') != 'ok' or r.get('output') != '[' + expect + ']')
                    kind_name = type(v).__name__
                    ob.violation(f'augmented_get/{kind_name}/{step if isinstance(step, str) else "int"}', f'step {step!r} on {v!r}: {got}, expected {want}', {'value': repr(v), 'step': repr(step)}, sc, conf)
            ob.sample({'value': repr(v)})
        ob.absorb(ex)


def ob_variable(chk, P):
    with chk.obligation('Variable::evaluate/try_evaluate', 'a variable denotes the path [head, index values...]: every index expression is evaluated in order and must be a scalar; '
                        'a failing or non-scalar index is an error (None for try_evaluate), never a panic; both forms build the same path',
                        {'indexes': '0..2 expressions, each: scalar / array (non-scalar) / failing'}) as ob:
        ex = Executor(P, models_with([])); ex.seed = chk.seed
        f_ev = P.find_method('Variable', 'evaluate', None, 'core'); f_try = P.find_method('Variable', 'try_evaluate', None, 'core')
        kinds = ('scalar', 'array', 'fail')
        for n in range(3):
            for ks in itertools.product(kinds, repeat=n):
                res = {}
                for which, fn in (('evaluate', f_ev), ('try_evaluate', f_try)):
                    st = State()
                    idx = []
                    for i, k in enumerate(ks):
                        if k == 'scalar': idx.append(expr_stub(value_scalar(scalar_int(50 + i)), f'ix{i}'))
                        elif k == 'array': idx.append(expr_stub(to_value([1]), f'ix{i}'))
                        else:
                            def h(ctx, me, args, s, i=i):
                                m = method_of(ctx.callee); log_call(s, 'expr', (f'ix{i}', m))
                                if m == 'evaluate': return ret(s, Err(Adt('LiquidError', None, [Opaque(('msg', 'ix'))])))
                                if m == 'try_evaluate': return ret(s, NONE)
                                return None
                            idx.append(Abs(f'expr:ix{i}', h))
                    self_ = st.ref(Adt('Variable', None, [scalar_str('head'), VecV(idx)], ['variable', 'indexes']))
                    outs = list(ex.run(fn, [self_, st.ref(Opaque(('RT',)))], st))
                    ob.paths += len(outs); ob.reached()
                    if len(outs) != 1: res[which] = ('multi',); continue
                    s2, kind, val = outs[0]
                    if kind == 'panic': res[which] = ('panic', str(val)[:60])
                    elif val.variant in ('Ok', 'Some'):
                        p = s2.deref_all(val.items[0]); items = p.items[0].items
                        res[which] = ('path', tuple(concrete_value(s2, value_scalar(x)) for x in items))
                    else: res[which] = ('none',)
                ok_all = all(k == 'scalar' for k in ks)
                want = ('path', ('head',) + tuple(50 + i for i in range(n))) if ok_all else ('none',)
                if res['evaluate'] != want or res['try_evaluate'] != want:
                    if ok_all:
                        sc = {'kind': 'template', 'template': '[{{ d[i][j] }}]', 'globals': {'d': {'1': {'2': 'ok'}}, 'i': 1, 'j': 2}}
                        conf = lambda r: r.get('output') != '[ok]'
                    else:
                        # a non-scalar / failing index must make the output tag fail
                        sc = {'kind': 'template', 'template': '[{{ d[arr] }}][{{ d.k[arr].j }}]', 'globals': {'d': {'k': {'j': 1}}, 'arr': [1]}}
                        conf = lambda r: r.get('outcome') != 'err'
                    ob.violation('Variable::evaluate/' + ('scalar-indexes' if ok_all else 'non-scalar-index'), f'indexes {ks}: evaluate -> {res["evaluate"]}, try_evaluate -> {res["try_evaluate"]}, expected {want}', {'indexes': ks}, sc, conf)
            ob.sample({'indexes': n})
        ob.absorb(ex)


_kani_run = run


def run(chk):
    _kani_run(chk)
    P = chk.program(('core',))
    ob_array_index(chk, P, 4 if chk.tier == 'quick' else 6)
    ob_overlays(chk, P)
    ob_find(chk, P, 2 if chk.tier == 'quick' else 3)
    ob_variable(chk, P)
    from checks.C01 import ob_parse_literal, ob_parse_literal_strings
    ob_parse_literal_strings(chk, P)
    ob_parse_literal(chk, P)      # 'every literal prints as the value it denotes': integer literals over the whole 64-bit range
    # translator validation: the reference lookup itself against the native build on a sample of paths
    for path in [('a', 0), ('a', -1, 'size'), ('a', 2, 'k'), ('s', 'size'), ('e', 'size'), ('o', 'x', 'y'), ('size',), ('a', 'last', 'first')]:
        exp = py_lookup(DATA, path)
        r = render_py(exp[1]) if exp[0] == 'ok' else None
        if r is None: continue
        chk.validate(f'path {path}', '[' + r + ']', {'kind': 'template', 'template': '[' + path_template(path) + ']', 'globals': {'d': DATA}}, lambda res: res.get('output'))
