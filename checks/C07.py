"""C07 -- variable paths and literals denote the right value or fail loudly."""
from vlib import kani_runner
from checks.kani_specs import C07_SPECS


def run(chk):
    kani_runner.obligations(chk, C07_SPECS, chk.tier)
