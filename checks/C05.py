"""C05 -- loops visit exactly the selected elements, with truthful loop metadata."""
import z3
from mirsym.exec import Executor, State, Unsupported
from mirsym.values import *
from mirsym.models import ALL_MODELS
from checks import common


def ref_window(n, offset, limit, reversed_):
    off = min(offset, n)
    cnt = n - off if limit is None else min(limit, n - off)
    w = list(range(off, off + cnt))
    return w[::-1] if reversed_ else w


def ob_iter_array(chk, P, maxlen):
    with chk.obligation('iter_array/window', 'iter_array(range, limit, offset, reversed) returns exactly range[off..off+cnt] (reversed if asked), '
                        'off=min(offset,len), cnt=min(limit,len-off): no invented, lost or repeated element, no panic',
                        {'len': f'0..{maxlen}', 'offset': 'any usize', 'limit': 'None or any usize', 'reversed': 'both'}) as ob:
        fn = P.find(r'^fn iter_array\(')
        ex = Executor(P, ALL_MODELS); ex.seed = chk.seed
        for n in range(maxlen + 1):
            for has_limit in (False, True):
                for rev in (False, True):
                    st = State()
                    vec = VecV([Opaque(f'e{k}') for k in range(n)])
                    off = Int(z3.BitVec('offset', 64), 'usize'); lim = Int(z3.BitVec('limit', 64), 'usize')
                    limit = Some(lim) if has_limit else NONE
                    for s2, kind, val in ex.run(fn, [vec, limit, off, Bool(rev)], st):
                        ob.paths += 1
                        ob.reached()
                        if kind == 'panic':
                            m = ob.decide(ex, s2.conds, z3.BoolVal(True))
                            o = m.eval(off.e, model_completion=True).as_long(); l = m.eval(lim.e, model_completion=True).as_long() if has_limit else None
                            report(ob, 'iter_array/panic', f'iter_array panics: {val}', n, o, l, rev, None)
                            continue
                        if not isinstance(val, VecV):
                            raise Unsupported(f'iter_array returned {val!r}')
                        out = [(e.tag if isinstance(e, Opaque) else 'PHANTOM') for e in val.items]
                        # the oracle, symbolically: the path's output must equal the reference window for EVERY (offset, limit) on this path
                        good = []
                        for offc in range(n + 1):
                            for cnt in range(n - offc + 1):
                                exp = [f'e{k}' for k in range(offc, offc + cnt)]
                                if rev: exp = exp[::-1]
                                if exp != out: continue
                                c_off = (off.e == offc) if offc < n else z3.UGE(off.e, z3.BitVecVal(n, 64))
                                if has_limit:
                                    rem = n - offc
                                    c_cnt = (lim.e == cnt) if cnt < rem else z3.UGE(lim.e, z3.BitVecVal(rem, 64))
                                else:
                                    c_cnt = z3.BoolVal(cnt == n - offc)
                                good.append(z3.And(c_off, c_cnt))
                        post = z3.Or(*good) if good else z3.BoolVal(False)
                        m = ob.decide(ex, s2.conds, z3.Not(post))
                        if m is not None:
                            o = m.eval(off.e, model_completion=True).as_long(); l = m.eval(lim.e, model_completion=True).as_long() if has_limit else None
                            role = 'iter_array/phantom-nil' if 'PHANTOM' in out else 'iter_array/wrong-window'
                            report(ob, role, f'loop window wrong: len={n} offset={o} limit={l} reversed={rev} -> {out}', n, o, l, rev, out)
                        else:
                            ob.sample({'len': n, 'has_limit': has_limit, 'reversed': rev, 'path_result': out})
        ob.absorb(ex)


def report(ob, role, what, n, o, l, rev, out):
    # public-API scenario reaching the kernel: a for loop over a = [1..n]
    o_r = min(o, 10 ** 6); l_r = None if l is None else min(l, 10 ** 6)   # clamp huge solver values: same window, literal stays i64
    params = (f' limit:{l_r}' if l_r is not None else '') + f' offset:{o_r}' + (' reversed' if rev else '')
    tpl = '{% for i in a' + params + ' %}[{{i}}]{% else %}ELSE{% endfor %}'
    exp_idx = ref_window(n, o_r, l_r, rev)
    expected = ''.join(f'[{k + 1}]' for k in exp_idx) if exp_idx else 'ELSE'
    sc = {'kind': 'template', 'template': tpl, 'globals': {'a': list(range(1, n + 1))}}
    ob.violation(role, what, {'len': n, 'offset': o, 'limit': l, 'reversed': rev, 'kernel_result': out, 'expected_output': expected},
                 sc, lambda res: res.get('outcome') != 'ok' or res.get('output') != expected)


def ob_forloop_new(chk, P):
    with chk.obligation('ForloopObject::new/fields', 'every field of the loop record is truthful for all 0 <= i < len <= 2^63-1',
                        {'i,len': 'all usize with i < len <= i64::MAX'}) as ob:
        fn = P.find(r'::new\(_1: usize, _2: usize\) -> ForloopObject')
        ex = Executor(P, ALL_MODELS); ex.seed = chk.seed
        i = Int(z3.BitVec('i', 64), 'usize'); n = Int(z3.BitVec('n', 64), 'usize')
        st = State(); st.assume(z3.ULT(i.e, n.e)); st.assume(z3.ULE(n.e, z3.BitVecVal(2 ** 63 - 1, 64)))
        for s2, kind, val in ex.run(fn, [i, n], st):
            ob.paths += 1; ob.reached()
            if kind == 'panic':
                m = ob.decide(ex, s2.conds, z3.BoolVal(True))
                iv, nv = m.eval(i.e, model_completion=True).as_long(), m.eval(n.e, model_completion=True).as_long()
                ob.violation('ForloopObject::new/panic', f'panics for i={iv} len={nv}: {val}', {'i': iv, 'len': nv}, None, None)
                continue
            f = dict(zip(val.names, val.items))
            post = z3.And(f['length'].e == n.e, f['index0'].e == i.e, f['index'].e == i.e + 1, f['rindex'].e == n.e - i.e,
                          f['rindex0'].e == n.e - i.e - 1, f['first'].e == (i.e == 0), f['last'].e == (i.e == n.e - 1))
            if not (isinstance(f['parentloop'], Adt) and f['parentloop'].variant == 'None'):
                post = z3.BoolVal(False)
            m = ob.decide(ex, s2.conds, z3.Not(post))
            if m is not None:
                iv, nv = m.eval(i.e, model_completion=True).as_long(), m.eval(n.e, model_completion=True).as_long()
                got = {k: str(m.eval(v.e, model_completion=True)) for k, v in f.items() if hasattr(v, 'e')}
                iv2, nv2 = (iv, nv) if nv <= 40 else (min(iv, 3), 5)
                # replay: print every forloop field in a loop of nv2 elements and compare with the truthful record
                tpl = '{% for x in (1..' + str(nv2) + ') %}{{forloop.index0}},{{forloop.index}},{{forloop.rindex0}},{{forloop.rindex}},{{forloop.first}},{{forloop.last}},{{forloop.length}};{% endfor %}'
                expected = ''.join(f'{k},{k + 1},{nv2 - k - 1},{nv2 - k},{str(k == 0).lower()},{str(k == nv2 - 1).lower()},{nv2};' for k in range(nv2))
                ob.violation('ForloopObject::new/untruthful-field', f'forloop record wrong for i={iv} len={nv}: {got}', {'i': iv, 'len': nv, 'fields': got},
                             {'kind': 'template', 'template': tpl}, lambda res, e=expected: res.get('output') != e)
            else:
                ob.sample({'path': 'all i<len', 'fields': sorted(f)})
        ob.absorb(ex)


def ob_tablerow_new(chk, P):
    with chk.obligation('TableRowObject::new/fields', 'every field of the tablerow record is truthful for all 0<=i<len, 0<=col<cols',
                        {'i,len,col,cols': 'all usize with i < len <= i64::MAX, col < cols <= i64::MAX'}) as ob:
        fn = P.find(r'::new\(_1: usize, _2: usize, _3: usize, _4: usize\) -> TableRowObject')
        ex = Executor(P, ALL_MODELS); ex.seed = chk.seed
        i, n, c, cs = [Int(z3.BitVec(x, 64), 'usize') for x in ('i', 'n', 'col', 'cols')]
        st = State()
        st.assume(z3.ULT(i.e, n.e)); st.assume(z3.ULE(n.e, z3.BitVecVal(2 ** 63 - 1, 64)))
        st.assume(z3.ULT(c.e, cs.e)); st.assume(z3.ULE(cs.e, z3.BitVecVal(2 ** 63 - 1, 64)))
        for s2, kind, val in ex.run(fn, [i, n, c, cs], st):
            ob.paths += 1; ob.reached()
            if kind == 'panic':
                ob.violation('TableRowObject::new/panic', f'panics: {val}', {}, None, None); continue
            f = dict(zip(val.names, val.items))
            last = i.e == n.e - 1
            post = z3.And(f['length'].e == n.e, f['index0'].e == i.e, f['index'].e == i.e + 1, f['rindex'].e == n.e - i.e,
                          f['rindex0'].e == n.e - i.e - 1, f['first'].e == (i.e == 0), f['last'].e == last,
                          f['col0'].e == c.e, f['col'].e == c.e + 1, f['col_first'].e == (c.e == 0),
                          f['col_last'].e == z3.Or(c.e == cs.e - 1, last))
            m = ob.decide(ex, s2.conds, z3.Not(post))
            if m is not None:
                w = {k: m.eval(v.e, model_completion=True).as_long() for k, v in (('i', i), ('len', n), ('col', c), ('cols', cs))}
                got = {k: str(m.eval(v.e, model_completion=True)) for k, v in f.items()}
                tpl = '{% tablerow x in (1..5) cols:2 %}{{tablerow.index0}},{{tablerow.index}},{{tablerow.rindex0}},{{tablerow.rindex}},{{tablerow.first}},{{tablerow.last}},{{tablerow.length}},{{tablerow.col0}},{{tablerow.col}},{{tablerow.col_first}},{{tablerow.col_last}};{% endtablerow %}'
                def exp_row(k, nn=5, cols=2):
                    col = k % cols
                    body = f'{k},{k + 1},{nn - k - 1},{nn - k},{str(k == 0).lower()},{str(k == nn - 1).lower()},{nn},{col},{col + 1},{str(col == 0).lower()},{str(col == cols - 1 or k == nn - 1).lower()};'
                    s = ''
                    if col == 0: s += f'<tr class="row{k // cols + 1}">'
                    s += f'<td class="col{col + 1}">' + body + '</td>'
                    if col == cols - 1 or k == nn - 1: s += '</tr>'
                    return s
                expected = ''.join(exp_row(k) for k in range(5))
                ob.violation('TableRowObject::new/untruthful-field', f'tablerow record wrong at {w}: {got}', {'at': w, 'fields': got},
                             {'kind': 'template', 'template': tpl}, lambda res, e=expected: res.get('output') != e)
            else:
                ob.sample({'path': 'all', 'fields': sorted(f)})
        ob.absorb(ex)


def run(chk):
    P = chk.program(('core', 'lib'))
    maxlen = 6 if chk.tier == 'quick' else 9
    ob_iter_array(chk, P, maxlen)
    ob_forloop_new(chk, P)
    ob_tablerow_new(chk, P)
