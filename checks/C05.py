"""C05 -- loops visit exactly the selected elements, with truthful loop metadata."""
import z3, re
from mirsym.exec import Executor, State, Unsupported
from mirsym.values import *
from mirsym.models import ALL_MODELS
from checks import common


def ref_window(n, offset, limit, reversed_):
    off = min(offset, n)
    cnt = n - off if limit is None else min(limit, n - off)
    w = list(range(off, off + cnt))
    return w[::-1] if reversed_ else w


def ob_iter_array(chk, P, maxlen):
    with chk.obligation('iter_array/window', 'iter_array(range, limit, offset, reversed) returns exactly range[off..off+cnt] (reversed if asked), '
                        'off=min(offset,len), cnt=min(limit,len-off): no invented, lost or repeated element, no panic',
                        {'len': f'0..{maxlen}', 'offset': 'any usize', 'limit': 'None or any usize', 'reversed': 'both'}) as ob:
        fn = P.find(r'^fn iter_array\(')
        ex = Executor(P, ALL_MODELS); ex.seed = chk.seed
        for n in range(maxlen + 1):
            for has_limit in (False, True):
                for rev in (False, True):
                    st = State()
                    vec = VecV([Opaque(f'e{k}') for k in range(n)])
                    off = Int(z3.BitVec('offset', 64), 'usize'); lim = Int(z3.BitVec('limit', 64), 'usize')
                    limit = Some(lim) if has_limit else NONE
                    for s2, kind, val in ex.run(fn, [vec, limit, off, Bool(rev)], st):
                        ob.paths += 1
                        ob.reached()
                        if kind == 'panic':
                            m = ob.decide(ex, s2.conds, z3.BoolVal(True))
                            o = m.eval(off.e, model_completion=True).as_long(); l = m.eval(lim.e, model_completion=True).as_long() if has_limit else None
                            report(ob, 'iter_array/panic', f'iter_array panics: {val}', n, o, l, rev, None)
                            continue
                        if not isinstance(val, VecV):
                            raise Unsupported(f'iter_array returned {val!r}')
                        out = [(e.tag if isinstance(e, Opaque) else 'PHANTOM') for e in val.items]
                        # the oracle, symbolically: the path's output must equal the reference window for EVERY (offset, limit) on this path
                        good = []
                        for offc in range(n + 1):
                            for cnt in range(n - offc + 1):
                                exp = [f'e{k}' for k in range(offc, offc + cnt)]
                                if rev: exp = exp[::-1]
                                if exp != out: continue
                                c_off = (off.e == offc) if offc < n else z3.UGE(off.e, z3.BitVecVal(n, 64))
                                if has_limit:
                                    rem = n - offc
                                    c_cnt = (lim.e == cnt) if cnt < rem else z3.UGE(lim.e, z3.BitVecVal(rem, 64))
                                else:
                                    c_cnt = z3.BoolVal(cnt == n - offc)
                                good.append(z3.And(c_off, c_cnt))
                        post = z3.Or(*good) if good else z3.BoolVal(False)
                        m = ob.decide(ex, s2.conds, z3.Not(post))
                        if m is not None:
                            o = m.eval(off.e, model_completion=True).as_long(); l = m.eval(lim.e, model_completion=True).as_long() if has_limit else None
                            role = 'iter_array/phantom-nil' if 'PHANTOM' in out else 'iter_array/wrong-window'
                            report(ob, role, f'loop window wrong: len={n} offset={o} limit={l} reversed={rev} -> {out}', n, o, l, rev, out)
                        else:
                            ob.sample({'len': n, 'has_limit': has_limit, 'reversed': rev, 'path_result': out})
        ob.absorb(ex)


def report(ob, role, what, n, o, l, rev, out):
    # public-API scenario reaching the kernel: a for loop over a = [1..n]
    o_r = min(o, 10 ** 6); l_r = None if l is None else min(l, 10 ** 6)   # clamp huge solver values: same window, literal stays i64
    params = (f' limit:{l_r}' if l_r is not None else '') + f' offset:{o_r}' + (' reversed' if rev else '')
    tpl = '{% for i in a' + params + ' %}[{{i}}]{% else %}ELSE{% endfor %}'
    exp_idx = ref_window(n, o_r, l_r, rev)
    expected = ''.join(f'[{k + 1}]' for k in exp_idx) if exp_idx else 'ELSE'
    sc = {'kind': 'template', 'template': tpl, 'globals': {'a': list(range(1, n + 1))}}
    ob.violation(role, what, {'len': n, 'offset': o, 'limit': l, 'reversed': rev, 'kernel_result': out, 'expected_output': expected},
                 sc, lambda res: res.get('outcome') != 'ok' or res.get('output') != expected)


def ob_forloop_new(chk, P):
    with chk.obligation('ForloopObject::new/fields', 'every field of the loop record is truthful for all 0 <= i < len <= 2^63-1',
                        {'i,len': 'all usize with i < len <= i64::MAX'}) as ob:
        fn = P.find(r'::new\(_1: usize, _2: usize\) -> ForloopObject')
        ex = Executor(P, ALL_MODELS); ex.seed = chk.seed
        i = Int(z3.BitVec('i', 64), 'usize'); n = Int(z3.BitVec('n', 64), 'usize')
        st = State(); st.assume(z3.ULT(i.e, n.e)); st.assume(z3.ULE(n.e, z3.BitVecVal(2 ** 63 - 1, 64)))
        for s2, kind, val in ex.run(fn, [i, n], st):
            ob.paths += 1; ob.reached()
            if kind == 'panic':
                m = ob.decide(ex, s2.conds, z3.BoolVal(True))
                iv, nv = m.eval(i.e, model_completion=True).as_long(), m.eval(n.e, model_completion=True).as_long()
                ob.violation('ForloopObject::new/panic', f'panics for i={iv} len={nv}: {val}', {'i': iv, 'len': nv}, None, None)
                continue
            f = dict(zip(val.names, val.items))
            post = z3.And(f['length'].e == n.e, f['index0'].e == i.e, f['index'].e == i.e + 1, f['rindex'].e == n.e - i.e,
                          f['rindex0'].e == n.e - i.e - 1, f['first'].e == (i.e == 0), f['last'].e == (i.e == n.e - 1))
            if not (isinstance(f['parentloop'], Adt) and f['parentloop'].variant == 'None'):
                post = z3.BoolVal(False)
            m = ob.decide(ex, s2.conds, z3.Not(post))
            if m is not None:
                iv, nv = m.eval(i.e, model_completion=True).as_long(), m.eval(n.e, model_completion=True).as_long()
                got = {k: str(m.eval(v.e, model_completion=True)) for k, v in f.items() if hasattr(v, 'e')}
                iv2, nv2 = (iv, nv) if nv <= 40 else (min(iv, 3), 5)
                # replay: print every forloop field in a loop of nv2 elements and compare with the truthful record
                tpl = '{% for x in (1..' + str(nv2) + ') %}{{forloop.index0}},{{forloop.index}},{{forloop.rindex0}},{{forloop.rindex}},{{forloop.first}},{{forloop.last}},{{forloop.length}};{% endfor %}'
                expected = ''.join(f'{k},{k + 1},{nv2 - k - 1},{nv2 - k},{str(k == 0).lower()},{str(k == nv2 - 1).lower()},{nv2};' for k in range(nv2))
                ob.violation('ForloopObject::new/untruthful-field', f'forloop record wrong for i={iv} len={nv}: {got}', {'i': iv, 'len': nv, 'fields': got},
                             {'kind': 'template', 'template': tpl}, lambda res, e=expected: res.get('output') != e)
            else:
                ob.sample({'path': 'all i<len', 'fields': sorted(f)})
        ob.absorb(ex)


def ob_tablerow_new(chk, P):
    with chk.obligation('TableRowObject::new/fields', 'every field of the tablerow record is truthful for all 0<=i<len, 0<=col<cols',
                        {'i,len,col,cols': 'all usize with i < len <= i64::MAX, col < cols <= i64::MAX'}) as ob:
        fn = P.find(r'::new\(_1: usize, _2: usize, _3: usize, _4: usize\) -> TableRowObject')
        ex = Executor(P, ALL_MODELS); ex.seed = chk.seed
        i, n, c, cs = [Int(z3.BitVec(x, 64), 'usize') for x in ('i', 'n', 'col', 'cols')]
        st = State()
        st.assume(z3.ULT(i.e, n.e)); st.assume(z3.ULE(n.e, z3.BitVecVal(2 ** 63 - 1, 64)))
        st.assume(z3.ULT(c.e, cs.e)); st.assume(z3.ULE(cs.e, z3.BitVecVal(2 ** 63 - 1, 64)))
        for s2, kind, val in ex.run(fn, [i, n, c, cs], st):
            ob.paths += 1; ob.reached()
            if kind == 'panic':
                ob.violation('TableRowObject::new/panic', f'panics: {val}', {}, None, None); continue
            f = dict(zip(val.names, val.items))
            last = i.e == n.e - 1
            post = z3.And(f['length'].e == n.e, f['index0'].e == i.e, f['index'].e == i.e + 1, f['rindex'].e == n.e - i.e,
                          f['rindex0'].e == n.e - i.e - 1, f['first'].e == (i.e == 0), f['last'].e == last,
                          f['col0'].e == c.e, f['col'].e == c.e + 1, f['col_first'].e == (c.e == 0),
                          f['col_last'].e == z3.Or(c.e == cs.e - 1, last))
            m = ob.decide(ex, s2.conds, z3.Not(post))
            if m is not None:
                w = {k: m.eval(v.e, model_completion=True).as_long() for k, v in (('i', i), ('len', n), ('col', c), ('cols', cs))}
                got = {k: str(m.eval(v.e, model_completion=True)) for k, v in f.items()}
                tpl = '{% tablerow x in (1..5) cols:2 %}{{tablerow.index0}},{{tablerow.index}},{{tablerow.rindex0}},{{tablerow.rindex}},{{tablerow.first}},{{tablerow.last}},{{tablerow.length}},{{tablerow.col0}},{{tablerow.col}},{{tablerow.col_first}},{{tablerow.col_last}};{% endtablerow %}'
                def exp_row(k, nn=5, cols=2):
                    col = k % cols
                    body = f'{k},{k + 1},{nn - k - 1},{nn - k},{str(k == 0).lower()},{str(k == nn - 1).lower()},{nn},{col},{col + 1},{str(col == 0).lower()},{str(col == cols - 1 or k == nn - 1).lower()};'
                    s = ''
                    if col == 0: s += f'<tr class="row{k // cols + 1}">'
                    s += f'<td class="col{col + 1}">' + body + '</td>'
                    if col == cols - 1 or k == nn - 1: s += '</tr>'
                    return s
                expected = ''.join(exp_row(k) for k in range(5))
                ob.violation('TableRowObject::new/untruthful-field', f'tablerow record wrong at {w}: {got}', {'at': w, 'fields': got},
                             {'kind': 'template', 'template': tpl}, lambda res, e=expected: res.get('output') != e)
            else:
                ob.sample({'path': 'all', 'fields': sorted(f)})
        ob.absorb(ex)


def validate_translator(chk, P):
    """concrete windows (the shapes used by the repo's own for_block tests and a few more) through the interpreter and natively"""
    fn = P.find(r'^fn iter_array\(')
    ex = Executor(P, ALL_MODELS)
    for (n, off, lim, rev) in [(4, 0, None, False), (4, 2, None, False), (4, 0, 2, False), (4, 2, 2, False), (4, 0, None, True), (4, 1, 2, True), (4, 0, 10, False), (3, 5, None, False), (5, 3, 4, False), (0, 0, None, False)]:
        st = State()
        vec = VecV([Opaque(f'e{k}') for k in range(n)])
        outs = list(ex.run(fn, [vec, Some(Int(lim, 'usize')) if lim is not None else NONE, Int(off, 'usize'), Bool(rev)], st))
        got = None
        if len(outs) == 1 and outs[0][1] == 'ret':
            got = ''.join(f'[{int(e.tag[1:]) + 1}]' if isinstance(e, Opaque) else '[]' for e in outs[0][2].items) or 'ELSE'
        params = (f' limit:{lim}' if lim is not None else '') + f' offset:{off}' + (' reversed' if rev else '')
        sc = {'kind': 'template', 'template': '{% for i in a' + params + ' %}[{{i}}]{% else %}ELSE{% endfor %}', 'globals': {'a': list(range(1, n + 1))}}
        chk.validate(f'iter_array(len={n},offset={off},limit={lim},reversed={rev})', got, sc, lambda r: r.get('output'))


def run(chk):
    P = chk.program(('core', 'lib'))
    validate_translator(chk, P)
    maxlen = 6 if chk.tier == 'quick' else 9
    ob_iter_array(chk, P, maxlen)
    ob_forloop_new(chk, P)
    ob_tablerow_new(chk, P)
    ob_for_render(chk, P, 3 if chk.tier == 'quick' else 4)
    ob_tablerow_render(chk, P, 3 if chk.tier == 'quick' else 4)
    from checks import C02
    C02.ob_ranges(chk, P)       # (a..b) materialises exactly a..=b (one element when a == b, none when a > b)


# ============================================================================ For::render_to
from checks.common import *


def py_for_reference(n, offset, limit, rev, brk, cont, has_else, outer=2):
    """independent reference renderer for the replay template below"""
    out = ''
    for o in range(1, outer + 1):
        out += '<'
        w = ref_window(n, offset, limit, rev)
        if not w:
            out += 'ELSE' if has_else else ''
        L = len(w)
        for k, idx in enumerate(w):
            e = idx + 1
            out += f'[{e}|{k},{k + 1},{L - k - 1},{L - k},{str(k == 0).lower()},{str(k == L - 1).lower()},{L},{o}]'
            if e == brk: break
            if e == cont: continue
            out += 'x'
        out += '>'
    return out + '|after'


def for_scenario(n, offset, limit, rev, brk, cont, has_else):
    o_r = None if offset is None else min(offset, 10 ** 6); l_r = None if limit is None else min(limit, 10 ** 6)
    params = (f' limit:{l_r}' if l_r is not None else '') + (f' offset:{o_r}' if o_r is not None else '') + (' reversed' if rev else '')
    body = ('[{{i}}|{{forloop.index0}},{{forloop.index}},{{forloop.rindex0}},{{forloop.rindex}},{{forloop.first}},{{forloop.last}},{{forloop.length}},{{forloop.parentloop.index}}]'
            '{% if i == brk %}{% break %}{% endif %}{% if i == cont %}{% continue %}{% endif %}x')
    tpl = '{% for o in (1..2) %}<{% for i in a' + params + ' %}' + body + ('{% else %}ELSE' if has_else else '') + '{% endfor %}>{% endfor %}|after'
    sc = {'kind': 'template', 'template': tpl, 'globals': {'a': list(range(1, n + 1)), 'brk': brk if brk else -1, 'cont': cont if cont else -1}}
    exp = py_for_reference(n, o_r or 0, l_r, rev, brk, cont, has_else)
    return sc, exp


def ob_for_render(chk, P, maxn):
    with chk.obligation('For::render_to/iteration', 'for loop: the body is rendered once per selected element, in order, in a scope holding exactly {forloop, var} over the '
                        "caller's runtime, with a truthful forloop record and parentloop; else iff nothing selected; break ends the loop, continue only the iteration; "
                        'the interrupt never leaks out; an error stops the loop and is returned; no panic',
                        {'array length': f'0..{maxn}', 'offset': 'absent or any i64', 'limit': 'absent or any i64', 'reversed': 'both', 'else': 'both',
                         'enclosing forloop': 'present/absent', 'body': 'abstract child: any of Ok / Ok+break / Ok+continue / Err per iteration'}) as ob:
        fn = P.find_method('For', 'render_to', 'Renderable', 'lib')
        ex = Executor(P, models_with(registers_models())); ex.seed = chk.seed; ex.max_steps = 20000
        ob.stubs += ['runtime: abstract parent (Inv)', 'body / else: abstract children inside a real Template', 'collection expression: stub returning a concrete array of distinct integers',
                     'limit/offset expressions: stub returning a symbolic integer']
        ob.assumptions += ['error-message construction neither panics nor has effects']
        for n in range(maxn + 1):
            for has_limit in (False, True):
                for has_offset in (False, True):
                    for rev in (False, True):
                        for has_else in (False, True) if n <= 1 else (True,):
                            for outer in (False, True) if n == 2 else (True,):
                                run_for_case(ob, ex, fn, n, has_limit, has_offset, rev, has_else, outer)
        ob.absorb(ex)


def run_for_case(ob, ex, fn, n, has_limit, has_offset, rev, has_else, outer):
    st = State()
    penv = ParentEnv(('forloop',) if outer else ())
    body = ChildEnv('body', None, 0)
    els = ChildEnv('else', None, 0, may_interrupt=False)
    lim = z3.BitVec('limit', 64); off = z3.BitVec('offset', 64)
    arr = Adt('Value', 'Array', [VecV([value_scalar(scalar_int(k + 1)) for k in range(n)])])
    from checks.C15 import expr_stub
    self_ = Adt('For', None, [StrV('i', 'KString'), Adt('RangeExpression', 'Array', [expr_stub(arr)]), mk_template(st, [body]),
                              Some(mk_template(st, [els])) if has_else else NONE,
                              Some(expr_stub(value_scalar(scalar_int(Int(lim, 'i64'))))) if has_limit else NONE,
                              Some(expr_stub(value_scalar(scalar_int(Int(off, 'i64'))))) if has_offset else NONE,
                              Bool(rev)], ['var_name', 'range', 'item_template', 'else_template', 'limit', 'offset', 'reversed'])
    writer = st.ref(SinkEnv('W', may_fail=False).abs(), True)
    rt = st.ref(penv.abs())
    for s2, kind_, val in ex.run(fn, [st.ref(self_), writer, rt], st):
        ob.paths += 1; ob.reached()
        cl = [c[1] for c in calls(s2, 'child')]
        outcomes = list(s2.env.get('child_outcomes', ()))
        body_calls = [c for c in cl if c[0] == 'body']; else_calls = [c for c in cl if c[0] == 'else']
        body_out = [o for o in outcomes if o[0] == 'body']
        def witness():
            m = ob.decide(ex, s2.conds, z3.BoolVal(True))
            o = m.eval(off, model_completion=True).as_long() if has_offset else None
            l = m.eval(lim, model_completion=True).as_long() if has_limit else None
            return m, o, l
        def report(role, what):
            m, o, l = witness()
            # element values at which the body broke / continued
            brk = cont = None
            for (c, oc) in zip(body_calls, body_out):
                elem = dict(c[1][2]).get('i') if len(c[1]) > 2 and isinstance(c[1][2], tuple) else None
                ev = elem[1] if isinstance(elem, tuple) else None
                if oc[3] == 'Break' and brk is None: brk = ev
                if oc[3] == 'Continue' and cont is None: cont = ev
            sc, exp = for_scenario(n, o, l, rev, brk, cont, has_else)
            ob.violation(role, f'{what} (len={n} offset={o} limit={l} reversed={rev} else={has_else} break_at={brk} continue_at={cont})',
                         {'len': n, 'offset': o, 'limit': l, 'reversed': rev, 'body_calls': repr(body_calls)[:600], 'outcomes': repr(outcomes)}, sc,
                         lambda res, e=exp: res.get('outcome') != 'ok' or res.get('output') != e)
        if kind_ == 'panic':
            report('For::render_to/panic', f'for loop panics: {val}'); continue
        # ---- what the body saw
        seen = []; bad = None
        L = None
        for k, c in enumerate(body_calls):
            scope = c[1]
            if not (scope[0] == 'StackFrame' and scope[1] == ('abs', 'parent:P')):
                bad = f'body scope is not a plain frame over the caller runtime: {scope}'; break
            d = dict(scope[2]) if isinstance(scope[2], tuple) else {}
            if set(d) != {'forloop', 'i'}:
                bad = f'body scope must hold exactly forloop and the loop variable, holds {sorted(d)}'; break
            fl = d['forloop']; el = d['i']
            if not (isinstance(fl, tuple) and fl[0] == 'ForloopObject'):
                bad = f'forloop is {fl}'; break
            f = dict(fl[1])
            L = f['length'] if L is None else L
            truth = dict(length=L, index0=k, index=k + 1, rindex0=L - k - 1, rindex=L - k, first=(k == 0), last=(k == L - 1))
            got = {x: f[x] for x in truth}
            if got != truth:
                bad = f'forloop record untruthful at iteration {k}: {got}'; break
            want_parent = ('abs', ('PVAL', ('forloop',))) if outer else None
            if f['parentloop'] != want_parent:
                bad = f'parentloop = {f["parentloop"]}, expected {want_parent}'; break
            if c[2] != "Abs(sink:W)": bad = f'body rendered into a different writer: {c[2]}'; break
            seen.append(el[1] if isinstance(el, tuple) else el)
        # ---- control flow of the loop
        terminated = None
        for k, oc in enumerate(body_out):
            if oc[2] == 'err': terminated = ('err', k); break
            if oc[3] == 'Break': terminated = ('break', k); break
        if bad is None:
            if terminated and len(body_calls) != terminated[1] + 1:
                bad = f'body rendered {len(body_calls)} times although iteration {terminated[1]} ended the loop with {terminated[0]}'
            elif (val.variant == 'Err') != (terminated is not None and terminated[0] == 'err' or any(o[0] == 'else' and o[2] == 'err' for o in outcomes)):
                bad = f'result {val.variant} does not match the children\'s outcomes {outcomes}'
            elif interrupt_get(s2) is not None:
                bad = f'interrupt {interrupt_get(s2)} left pending after the loop returned'
            elif else_calls and (not has_else or body_calls):
                bad = 'else branch rendered although elements were selected'
            elif else_calls and else_calls[0][1] != ('abs', 'parent:P'):
                bad = f'else rendered in scope {else_calls[0][1]}'
        if bad:
            report('For::render_to/' + bad.split(':')[0].split(' at ')[0][:48].replace(' ', '-'), bad); continue
        # ---- the visited elements are exactly the selected window, for EVERY offset/limit on this path
        good = []
        for offc in range(n + 1):
            for cnt in range(n - offc + 1):
                expw = [k + 1 for k in range(offc, offc + cnt)]
                if rev: expw = expw[::-1]
                if terminated: okseq = (seen == expw[:terminated[1] + 1]) and len(expw) > terminated[1]
                else: okseq = (seen == expw)
                if not okseq: continue
                if expw and L != len(expw): continue
                if not expw and has_else and val.variant != 'Err' and not else_calls: continue
                c_off = (off == offc) if offc < n else z3.UGE(off, z3.BitVecVal(n, 64))
                if not has_offset: c_off = z3.BoolVal(offc == 0)
                if has_limit:
                    rem = n - offc
                    c_cnt = (lim == cnt) if cnt < rem else z3.UGE(lim, z3.BitVecVal(rem, 64))
                else:
                    c_cnt = z3.BoolVal(cnt == n - offc)
                good.append(z3.And(c_off, c_cnt))
        post = z3.Or(*good) if good else z3.BoolVal(False)
        m = ob.decide(ex, s2.conds, z3.Not(post))
        if m is not None:
            report('For::render_to/wrong-elements', f'body saw elements {seen} (forloop.length={L}, else rendered={bool(else_calls)})')
        else:
            ob.sample({'len': n, 'limit': has_limit, 'offset': has_offset, 'reversed': rev, 'seen': seen, 'outcomes': [(o[2], o[3]) for o in body_out]})


# ============================================================================ TableRow::render_to
def py_tablerow(n, cols, body='x'):
    out = ''
    c = cols if cols is not None else n
    for i in range(n):
        col = i % c; row = i // c
        if col == 0: out += f'<tr class="row{row + 1}">'
        out += f'<td class="col{col + 1}">' + body.replace('$I', str(i + 1)) + '</td>'
        if col == c - 1 or i == n - 1: out += '</tr>'
    return out


def ob_tablerow_render(chk, P, maxn):
    with chk.obligation('TableRow::render_to/markup', 'tablerow renders the body once per selected element inside balanced <tr class="rowR"><td class="colC"> markup with truthful R, C and a truthful tablerow record; '
                        'cols may be any integer: a zero column count is an error and no column count panics (division by zero, overflow)',
                        {'array length': f'0..{maxn}', 'cols': 'absent or any i64 (symbolic)', 'body': 'abstract child (Ok/Err)'}) as ob:
        fn = P.find_method('TableRow', 'render_to', 'Renderable', 'lib')
        ex = Executor(P, models_with(registers_models())); ex.seed = chk.seed; ex.max_steps = 30000
        from checks.C15 import expr_stub
        for n in range(maxn + 1):
            for has_cols in (False, True):
                st = State(); sink = SinkEnv('W', may_fail=False); penv = ParentEnv(())
                body = ChildEnv('cell', sink, 0, may_interrupt=False)
                cols = z3.BitVec('cols', 64)
                arr = Adt('Value', 'Array', [VecV([value_scalar(scalar_int(k + 1)) for k in range(n)])])
                self_ = Adt('TableRow', None, [StrV('i', 'KString'), Adt('RangeExpression', 'Array', [expr_stub(arr)]), mk_template(st, [body]),
                                               Some(expr_stub(value_scalar(scalar_int(Int(cols, 'i64'))))) if has_cols else NONE, NONE, NONE], ['var_name', 'range', 'item_template', 'cols', 'limit', 'offset'])
                for s2, kind, val in ex.run(fn, [st.ref(self_), st.ref(sink.abs(), True), st.ref(penv.abs())], st):
                    ob.paths += 1; ob.reached()
                    m = ob.decide(ex, s2.conds, z3.BoolVal(True))
                    cv = m.eval(cols, model_completion=True).as_signed_long() if has_cols else None
                    def report(role, what):
                        cr = cv if cv is None or abs(cv) < 10 ** 6 else (10 ** 6 if cv > 0 else -10 ** 6)
                        tpl = '{% tablerow i in a' + (f' cols:{cr}' if cr is not None else '') + ' %}{{i}}{% endtablerow %}'
                        exp = py_tablerow(n, cr, '$I') if (cr is None or cr > 0) and not (cr is None and n == 0) else None
                        if cr is None and n == 0: exp = ''
                        sc = {'kind': 'template', 'template': tpl, 'globals': {'a': list(range(1, n + 1))}}
                        ob.violation(role, f'{what} (len={n}, cols={cv})', {'len': n, 'cols': cv}, sc,
                                     lambda r, e=exp: (r.get('outcome') == 'panic' or r.get('outcome') == 'ok') if e is None else (r.get('outcome') != 'ok' or r.get('output') != e))
                    if kind == 'panic':
                        report('TableRow/panic/' + ('div-by-zero' if 'zero' in str(val) else 'other'), f'tablerow panics: {val}'); continue
                    outs = s2.env.get('child_outcomes', ())
                    body_err = any(o[2] == 'err' for o in outs)
                    log = sink.text(s2)
                    cells = [c[1] for c in calls(s2, 'child')]
                    if has_cols and cv is not None and cv == 0 and n > 0:
                        if val.variant != 'Err' or cells: report('TableRow/zero-cols-accepted', f'cols=0 accepted: wrote {log}')
                        continue
                    if has_cols and cv is not None and cv <= 0:
                        continue      # negative column counts: only panic-freedom is claimed (the property quantifies over cols >= 1)
                    if body_err:
                        if val.variant != 'Err': report('TableRow/body-error-swallowed', 'body failed but tablerow returned Ok')
                        continue
                    # ---- markup: structure is fixed by the path, the printed numbers may be symbolic in `cols`
                    C = cols if has_cols else z3.BitVecVal(n, 64)
                    cons = []; i = 0; ok_shape = True; expect_open = True
                    for e in log:
                        parts = e[1] if e[0] == 'fmt' else None
                        if parts is None: ok_shape = False; break
                        head = parts[0] if parts and isinstance(parts[0], str) else ''
                        num = [p for p in parts if isinstance(p, tuple) and p[0] == 'int']
                        lits = ''.join(p for p in parts if isinstance(p, str))
                        if head.startswith('<tr class="row'):
                            exp = z3.UDiv(z3.BitVecVal(i, 64), C) + 1
                            cons.append(z3.URem(z3.BitVecVal(i, 64), C) == 0)
                        elif head.startswith('<td class="col'):
                            exp = z3.URem(z3.BitVecVal(i, 64), C) + 1
                        elif lits == '</td>':
                            i += 1; continue
                        elif lits == '</tr>':
                            cons.append(z3.Or(z3.URem(z3.BitVecVal(i - 1, 64), C) == C - 1, z3.BoolVal(i == n))); continue
                        else:
                            ok_shape = False; break
                        if num: cons.append(num[0][1].e == exp)
                        else:
                            mnum = re.search(r'(\d+)', lits)
                            cons.append(z3.BitVecVal(int(mnum.group(1)), 64) == exp if mnum else z3.BoolVal(False))
                    opens = sum(1 for e in log if ''.join(p for p in e[1] if isinstance(p, str)).startswith('<tr')); closes = sum(1 for e in log if ''.join(p for p in e[1] if isinstance(p, str)) == '</tr>')
                    tds = sum(1 for e in log if ''.join(p for p in e[1] if isinstance(p, str)).startswith('<td'))
                    if not ok_shape or val.variant != 'Ok' or i != n or tds != n or opens != closes or len(cells) != n:
                        report('TableRow/markup', f'tablerow wrote {log} for {n} elements'); continue
                    mm = ob.decide(ex, s2.conds + [C != 0], z3.Not(z3.And(*cons))) if cons else None
                    if mm is not None:
                        cv = mm.eval(cols, model_completion=True).as_signed_long() if has_cols else None
                        report('TableRow/markup', f'tablerow markup/numbering wrong: wrote {log}'); continue
                    # ---- tablerow record handed to the body
                    rcons = []; bad_rec = None
                    for k, sc_ in enumerate(cells):
                        d = dict(sc_[1][2]) if sc_[1][0] == 'StackFrame' and isinstance(sc_[1][2], tuple) else {}
                        tr = dict(d.get('tablerow', (None, ()))[1]) if isinstance(d.get('tablerow'), tuple) else {}
                        colz = z3.URem(z3.BitVecVal(k, 64), C)
                        truth = dict(length=n, index0=k, index=k + 1, rindex0=n - k - 1, rindex=n - k, first=(k == 0), last=(k == n - 1),
                                     col0=colz, col=colz + 1, col_first=(colz == 0), col_last=z3.Or(colz == C - 1, z3.BoolVal(k == n - 1)))
                        if set(d) != {'tablerow', 'i'} or d['i'] != ('Integer', k + 1): bad_rec = f'cell {k}: scope {d}'; break
                        for fld, exp in truth.items():
                            got = tr.get(fld)
                            if isinstance(got, SymField): rcons.append(got.v.e == exp)
                            elif isinstance(exp, (int, bool)):
                                if got != exp: bad_rec = f'cell {k}: tablerow.{fld} = {got}, expected {exp}'
                            else:
                                rcons.append((z3.BitVecVal(got, 64) if not isinstance(got, bool) else z3.BoolVal(got)) == exp)
                        if bad_rec: break
                    if bad_rec:
                        report('TableRow/record', bad_rec); continue
                    mm = ob.decide(ex, s2.conds + [C != 0], z3.Not(z3.And(*rcons))) if rcons else None
                    if mm is not None:
                        cv = mm.eval(cols, model_completion=True).as_signed_long() if has_cols else None
                        report('TableRow/record', 'tablerow record untruthful'); continue
                ob.sample({'len': n, 'cols': 'symbolic' if has_cols else 'absent'})
        ob.absorb(ex)
