"""Builders for the renderables of the three crates with abstract children / expressions / conditions,
used by C10 (sink faults), C04 (scoping), C06 (conditionals), C08 (include/render)."""
import z3
from mirsym.exec import Executor, State, Unsupported
from mirsym.values import *
from mirsym.models.maps import MapV
from checks.common import *


def expr_stub(value, name='expr', may_err=False):
    """liquid_core::Expression whose evaluate/try_evaluate returns `value` (or nondeterministically an error)"""
    ev = z3.Bool(f'{name}_errs')
    def handler(ctx, me, args, st):
        m = method_of(ctx.callee)
        if m in ('evaluate', 'try_evaluate'):
            log_call(st, 'expr', (name, m))
            v = value() if callable(value) else value
            def g():
                if may_err:
                    for s2, e in ctx.ex.fork_bool(st, ev):
                        if e:
                            yield s2, 'ret', (Err(Adt('LiquidError', None, [Opaque(('msg', f'{name} failed'))])) if m == 'evaluate' else NONE)
                        else:
                            yield s2, 'ret', (Ok(Adt('ValueCow', 'Owned', [v])) if m == 'evaluate' else Some(Adt('ValueCow', 'Owned', [v])))
                else:
                    yield st, 'ret', (Ok(Adt('ValueCow', 'Owned', [v])) if m == 'evaluate' else Some(Adt('ValueCow', 'Owned', [v])))
            return g()
        return None
    return Abs('expr:' + name, handler, name)


def cond_stub(name='cond', may_err=True):
    """if_block::Condition whose evaluate returns a solver-chosen bool or an error"""
    b = z3.Bool(f'{name}_value'); e = z3.Bool(f'{name}_errs')
    def handler(ctx, me, args, st):
        if method_of(ctx.callee) != 'evaluate': return None
        log_call(st, 'cond', (name,))
        def g():
            if may_err:
                for s1, er in ctx.ex.fork_bool(st, e):
                    if er:
                        yield s1, 'ret', Err(Adt('LiquidError', None, [Opaque(('msg', f'{name} failed'))])); continue
                    for s2, v in ctx.ex.fork_bool(s1, b):
                        yield s2, 'ret', Ok(Bool(v))
            else:
                for s2, v in ctx.ex.fork_bool(st, b):
                    yield s2, 'ret', Ok(Bool(v))
        return g()
    a = Abs('cond:' + name, handler, name)
    a_b = b
    return a, b, e


ANY_SCALAR_VALUE = lambda tag: value_scalar(scalar_int(Int(z3.BitVec(tag, 64), 'i64')))


class Rcase:
    """one renderable set up for execution"""
    def __init__(self, name, ty, selfval, extra_models=(), children=(), pre=None, crate='lib', notes=''):
        self.name, self.ty, self.selfval, self.extra_models, self.children, self.pre, self.crate, self.notes = name, ty, selfval, list(extra_models), list(children), pre, crate, notes


def build_cases(P, st, sink, penv, which=None):
    """returns list of Rcase; `sink` is the SinkEnv the children write to, penv the ParentEnv"""
    cases = []
    def child(n, **kw):
        return ChildEnv(n, sink, **kw)
    def want(n): return which is None or n in which

    if want('Text'):
        cases.append(Rcase('Text', 'Text', Adt('Text', None, [StrV('lit', 'String')], ['text']), crate='core'))
    if want('RawT'):
        cases.append(Rcase('RawT', 'RawT', Adt('RawT', None, [StrV('{{raw}}', 'String')], ['content'])))
    if want('FilterChain'):
        cases.append(Rcase('FilterChain', 'FilterChain', Adt('FilterChain', None, [expr_stub(ANY_SCALAR_VALUE('fc_v'), 'entry', True), VecV([])], ['entry', 'filters']), crate='core'))
    if want('Template'):
        cs = [child('t0'), child('t1'), child('t2')]
        cases.append(Rcase('core::Template', 'Template', mk_template(st, cs), children=cs, crate='core'))
    if want('Conditional'):
        for has_else in (False, True):
            c, b, e = cond_stub('cond')
            ct, cf = child('if_true'), child('if_false')
            for mode in (True, False):
                cases.append(Rcase(f'Conditional(mode={mode},else={has_else})', 'Conditional',
                                   Adt('Conditional', None, [c, Bool(mode), mk_template(st, [ct]), Some(mk_template(st, [cf])) if has_else else NONE],
                                       ['condition', 'mode', 'if_true', 'if_false']), children=[ct, cf]))
    if want('Increment'):
        cases.append(Rcase('Increment', 'Increment', Adt('Increment', None, [StrV('n', 'KString')], ['id'])))
    if want('Decrement'):
        cases.append(Rcase('Decrement', 'Decrement', Adt('Decrement', None, [StrV('n', 'KString')], ['id'])))
    if want('Capture'):
        cb = child('captured')
        cases.append(Rcase('Capture', 'Capture', Adt('Capture', None, [StrV('v', 'KString'), mk_template(st, [cb])], ['id', 'template']), children=[cb]))
    if want('IfChanged'):
        cb = child('ifchanged_body')
        cases.append(Rcase('IfChanged', 'IfChanged', Adt('IfChanged', None, [mk_template(st, [cb])], ['if_changed']), children=[cb]))
    if want('Case'):
        for has_else in (False, True):
            arms = []
            chs = []
            for i in range(2):
                ch = child(f'when{i}'); chs.append(ch)
                arms.append(Adt('CaseOption', None, [VecV([expr_stub(ANY_SCALAR_VALUE(f'arm{i}_v'), f'arm{i}', True)]), mk_template(st, [ch])], ['args', 'template']))
            ce = child('case_else'); chs.append(ce)
            cases.append(Rcase(f'Case(else={has_else})', 'Case', Adt('Case', None, [expr_stub(ANY_SCALAR_VALUE('case_target'), 'target', True), VecV(arms),
                                                                                  Some(mk_template(st, [ce])) if has_else else NONE], ['target', 'cases', 'else_block']), children=chs))
    if want('Cycle'):
        cases.append(Rcase('Cycle', 'Cycle', Adt('Cycle', None, [StrV('grp', 'String'), VecV([expr_stub(ANY_SCALAR_VALUE('cy0'), 'cy0', True), expr_stub(ANY_SCALAR_VALUE('cy1'), 'cy1', True)])],
                                                 ['name', 'values'])))
    if want('For') or want('TableRow'):
        n = 2
        arr = Adt('Value', 'Array', [VecV([value_scalar(scalar_int(k + 1)) for k in range(n)])])
        if want('For'):
            for has_else in (False, True):
                b, e = child('for_body'), child('for_else')
                cases.append(Rcase(f'For(else={has_else})', 'For',
                                   Adt('For', None, [StrV('i', 'KString'), Adt('RangeExpression', 'Array', [expr_stub(arr, 'range', True)]), mk_template(st, [b]),
                                                     Some(mk_template(st, [e])) if has_else else NONE,
                                                     Some(expr_stub(value_scalar(scalar_int(Int(z3.BitVec('limit', 64), 'i64'))), 'limit', True)),
                                                     NONE, Bool(False)], ['var_name', 'range', 'item_template', 'else_template', 'limit', 'offset', 'reversed']), children=[b, e]))
        if want('TableRow'):
            for cols in (None, 1, 2):
                b = child('row_body')
                cases.append(Rcase(f'TableRow(cols={cols})', 'TableRow',
                                   Adt('TableRow', None, [StrV('i', 'KString'), Adt('RangeExpression', 'Array', [expr_stub(arr, 'range', True)]), mk_template(st, [b]),
                                                          Some(expr_stub(value_scalar(scalar_int(cols)), 'cols', False)) if cols is not None else NONE,
                                                          NONE, NONE], ['var_name', 'range', 'item_template', 'cols', 'limit', 'offset']), children=[b]))
    return cases


def run_renderable(ex, P, rc, st, writer, rt):
    fn = P.find_method(rc.ty, 'render_to', 'Renderable', rc.crate)
    self_ref = st.ref(rc.selfval)
    yield from ex.run(fn, [self_ref, writer, rt], st)
