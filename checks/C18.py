"""C18 -- scope layers compose predictably (runtime stack algebra): one inductive step per frame type."""
import itertools
import re
import z3
from mirsym.exec import Executor, State, Unsupported
from mirsym.values import *
from mirsym.models.maps import MapV, SetV
from checks.common import *

ALPHA = ('a', 'b')
OTHER = 'z'
FRAMES = {
    'StackFrame': dict(kind='plain', data='abs'),
    'SandboxedStackFrame': dict(kind='sandbox', data='abs'),
    'GlobalFrame': dict(kind='plain', data='cell'),
    'IndexFrame': dict(kind='plain', data='cell'),
}
VAL7 = value_scalar(scalar_int(7))


def subsets(xs):
    for r in range(len(xs) + 1):
        yield from itertools.combinations(xs, r)


def all_paths(maxlen):
    ks = ALPHA + (OTHER,)
    yield ()
    for n in range(1, maxlen + 1):
        yield from itertools.product(ks, repeat=n)


def build_frame(st, ft, penv, dkeys):
    parent = penv.abs()
    if FRAMES[ft]['data'] == 'abs':
        denv = DataEnv(dkeys, 'D')
        data = denv.abs()
    else:
        data = Adt('RefCell', None, [MapV(dkeys, [VAL7 for _ in dkeys], 'Object')])
    if ft == 'StackFrame':
        fr = Adt('StackFrame', None, [parent, NONE, data], ['parent', 'name', 'data'])
    elif ft == 'SandboxedStackFrame':
        fr = Adt('SandboxedStackFrame', None, [parent, NONE, data, Opaque(('OWN_REGISTERS',))], ['parent', 'name', 'data', 'registers'])
    else:
        fr = Adt(ft, None, [parent, data], ['parent', 'data'])
    return st.ref(fr)


def expected_lookup(ft, dkeys, penv, keys):
    """spec: ('own', keys) / ('parent', keys) / ('missing',) as a function of which side must answer"""
    if not keys: return 'missing'
    if keys[0] in dkeys: return 'own'
    if FRAMES[ft]['kind'] == 'sandbox': return 'missing'
    return 'parent'


def scenario_for(ft, dkeys, roots, keys=None, op=None, deep=None):
    """native replay scenario: the same situation built from real runtime types (parent = a built runtime whose globals are `roots`).
    deep = {'own': set of (k, s) that must resolve in own data, 'parent': likewise} -- taken from the solver model"""
    kind = {'StackFrame': 'plain', 'SandboxedStackFrame': 'sandbox', 'GlobalFrame': 'global', 'IndexFrame': None}[ft]
    deep = deep or {'own': set(), 'parent': set()}
    def val(side, k):
        inner = {s: 1 if side == 'own' else 2 for (kk, s) in deep[side] if kk == k}
        inner['x' if side == 'own' else 'g'] = 1 if side == 'own' else 2
        return inner
    ops = []
    data = {k: (None if k in deep.get('nil', ()) else val('own', k)) for k in dkeys}
    if kind in ('plain', 'sandbox'): ops.append({'push': kind, 'data': data})
    elif kind == 'global':
        ops.append({'push': 'global'})
        for k in dkeys: ops.append({'set_global': [k, data[k]]})
    else:
        # IndexFrame is crate-private: reachable only as the counter layer of a built runtime
        for k in dkeys: ops.append({'set_index': [k, 7]})
    if op: ops.append(op)
    qs = [list(keys)] if keys is not None else [[k] for k in ALPHA + (OTHER,)]
    return {'kind': 'stack', 'globals': {k: val('parent', k) for k in roots} if ft != 'IndexFrame' else {}, 'ops': ops, 'queries': qs}


def deep_from_model(m, penv, fenv):
    deep = {'own': set(), 'parent': set()}
    if m is None: return deep
    for keys, b in penv.has.items():
        if len(keys) == 2 and z3.is_true(m.eval(b, model_completion=True)): deep['parent'].add(keys)
    for (tag, keys), b in fenv.vars.items():
        if len(keys) == 2 and z3.is_true(m.eval(b, model_completion=True)): deep['own'].add(keys)
    # own bindings whose value is nil in the solver's model
    deep['nil'] = set()
    for d in m.decls():
        mm = re.match(r'^\w+?_(\w+)_is_nil$', d.name())
        if mm and z3.is_true(m[d]): deep['nil'].add(mm.group(1))
    return deep


def reference_stack(sc):
    """independent reference model: a stack of maps"""
    layers = [{'kind': 'index', 'data': {}}, {'kind': 'plain', 'data': dict(sc['globals'])}, {'kind': 'global', 'data': {}}]
    for op in sc['ops']:
        if 'push' in op:
            layers.append({'kind': op['push'], 'data': dict(op.get('data', {}))})
        elif 'set_global' in op:
            k, v = op['set_global']
            for l in reversed(layers):
                if l['kind'] == 'global': l['data'][k] = v; break
        elif 'set_index' in op:
            k, v = op['set_index']; layers[0]['data'][k] = v
    MISSING = '<missing>'
    def lookup(path):
        for l in reversed(layers):
            if path and path[0] in l['data']:
                v = l['data']
                for p in path:
                    if isinstance(v, dict) and p in v: v = v[p]
                    else: return MISSING
                return v          # may be None: a binding to nil is a binding
            if l['kind'] == 'sandbox': return MISSING
        return MISSING
    roots = set()
    for l in layers:
        if l['kind'] == 'sandbox': roots = set()
        roots |= set(l['data'])
    base_int = 'none'; top_int = 'none'
    for i, op in enumerate(sc['ops']):
        if 'set_interrupt' in op:
            top_int = op['set_interrupt']
            sandboxed = any(o.get('push') == 'sandbox' for o in sc['ops'][:i])
            base_int = 'none' if sandboxed else op['set_interrupt']
    index = dict(layers[0]['data'])
    return {'lookups': [lookup(q) for q in sc['queries']], 'roots': sorted(roots), 'base_interrupt': base_int, 'top_interrupt': top_int, 'index': index}


def confirm_stack(sc):
    ref = reference_stack(sc)
    def f(res):
        if res.get('outcome') != 'ok': return True
        for q, exp, got in zip(sc['queries'], ref['lookups'], res['queries']):
            missing = exp == '<missing>'
            if missing != (not got.get('try_get_present', got['try_get'] is not None)): return True
            if missing != (not got.get('get_present', got['get'] is not None)): return True
            if not missing and (got['try_get'] != exp or got['get'] != exp): return True
        if res['roots'] != ref['roots']: return True
        if res.get('base_interrupt') != ref['base_interrupt'] or res.get('top_interrupt') != ref['top_interrupt']: return True
        return {k: v for k, v in res.get('index', {}).items()} != {k: v for k, v in ref['index'].items() if k in ('a', 'b', 'z')}
    return f


def ob_lookup(chk, P, ft, maxlen):
    kind = FRAMES[ft]['kind']
    with chk.obligation(f'{ft}/lookup', f'{ft}: get/try_get answer from own data iff it defines the first key, else '
                        + ('missing (never the parent)' if kind == 'sandbox' else "exactly the parent's answer") + '; get Ok <=> try_get Some with the same value; no panic',
                        {'path length': f'0..{maxlen}', 'alphabet': 'a,b + other', 'own keys': 'all subsets', 'parent roots': 'all subsets', 'parent/own deeper lookups': 'symbolic'}) as ob:
        fenv = FindEnv()
        ex = Executor(P, models_with(fenv.models())); ex.seed = chk.seed
        f_try = P.find_method(ft, 'try_get', 'Runtime', 'core'); f_get = P.find_method(ft, 'get', 'Runtime', 'core')
        ob.stubs += ['parent runtime: abstract, satisfies Inv', 'own data: ' + ('abstract ObjectView with a concrete key set' if FRAMES[ft]['data'] == 'abs' else 'RefCell<Object> map model'),
                     'find/try_find: uninterpreted with contract find Ok <=> try_find Some (real bodies checked in C07)']
        for dkeys in subsets(ALPHA):
            for roots in subsets(ALPHA):
                for keys in all_paths(maxlen):
                    penv = ParentEnv(roots)
                    exp = expected_lookup(ft, dkeys, penv, keys)
                    outs = {}
                    for which, fn in (('try_get', f_try), ('get', f_get)):
                        st = State()
                        fr = build_frame(st, ft, penv, dkeys)
                        path = mk_path(st, keys)
                        res = []
                        for s2, kind_, val in ex.run(fn, [fr, path], st):
                            ob.paths += 1; ob.reached()
                            if kind_ == 'panic':
                                ob.violation(f'{ft}/{which}/panic', f'{ft}::{which} panics: {val} (own keys {dkeys}, parent roots {roots}, path {keys})',
                                             {'frame': ft, 'own': dkeys, 'parent_roots': roots, 'path': keys}, scenario_for(ft, dkeys, roots, keys), lambda r: r.get('outcome') != 'ok')
                                continue
                            present = val.variant in ('Some', 'Ok')
                            tok = value_token_st(s2, val.items[0]) if present else None
                            pcalls = [c[1] for c in calls(s2, 'P')]
                            res.append((s2, present, tok, pcalls))
                            # spec per path
                            bad = None
                            if exp == 'missing' and present: bad = f'answers {tok} but nothing should resolve'
                            if exp == 'missing' and pcalls and kind == 'sandbox': bad = f'sandbox consulted its parent: {pcalls}'
                            if exp == 'own':
                                if pcalls: bad = f'own key but parent consulted: {pcalls}'
                                elif present and not (isinstance(tok, tuple) and tok[0] == 'FOUND' and tok[2] == keys): bad = f'own key but answered {tok}'
                            if exp == 'parent':
                                if present and tok != ('PVAL', keys): bad = f'expected the parent\'s value, got {tok}'
                                if (which, keys) not in pcalls: bad = f'transparent lookup must ask the parent for the same path; parent calls: {pcalls}'
                            if bad:
                                sc = scenario_for(ft, dkeys, roots, keys, None, deep_from_model(ob.decide(ex, s2.conds, z3.BoolVal(True)), penv, fenv))
                                ob.violation(f'{ft}/{which}/{exp}', f'{ft}::{which}: {bad} (own keys {dkeys}, parent roots {roots}, path {keys})',
                                             {'frame': ft, 'own': dkeys, 'parent_roots': roots, 'path': keys, 'result': str(val)}, sc, confirm_stack(sc))
                        outs[which] = res
                    # Inv: get Ok <=> try_get Some, same value -- for every pair of compatible paths
                    for (s1, p1, t1, _) in outs['try_get']:
                        for (s2, p2, t2, _) in outs['get']:
                            m = ob.decide(ex, s1.conds + s2.conds, z3.BoolVal(True))
                            if m is None: continue
                            if p1 != p2 or (p1 and t1 != t2):
                                sc = scenario_for(ft, dkeys, roots, keys, None, deep_from_model(m, penv, fenv))
                                ob.violation(f'{ft}/get-vs-try_get', f'{ft}: get and try_get disagree on path {keys} (own {dkeys}, parent roots {roots}): try_get={p1}:{t1} get={p2}:{t2}',
                                             {'frame': ft, 'own': dkeys, 'parent_roots': roots, 'path': keys}, sc, confirm_stack(sc))
                    ob.sample({'own': dkeys, 'parent_roots': roots, 'path': keys, 'expect': exp})
        ob.absorb(ex)


def ob_roots(chk, P, ft):
    kind = FRAMES[ft]['kind']
    with chk.obligation(f'{ft}/roots', f'{ft}: roots() = ' + ('own keys only' if kind == 'sandbox' else "parent's roots + own keys"),
                        {'own keys': 'all subsets of {a,b}', 'parent roots': 'all subsets of {a,b,z}'}) as ob:
        ex = Executor(P, models_with(FindEnv().models())); ex.seed = chk.seed
        fn = P.find_method(ft, 'roots', 'Runtime', 'core')
        for dkeys in subsets(ALPHA):
            for roots in subsets(ALPHA + (OTHER,)):
                st = State(); penv = ParentEnv(roots)
                fr = build_frame(st, ft, penv, dkeys)
                for s2, k_, val in ex.run(fn, [fr], st):
                    ob.paths += 1; ob.reached()
                    exp = set(dkeys) | (set() if kind == 'sandbox' else set(roots))
                    sc = scenario_for(ft, dkeys, [r for r in roots])
                    if k_ == 'panic':
                        ob.violation(f'{ft}/roots/panic', f'{ft}::roots panics: {val}', {'own': dkeys, 'parent_roots': roots}, sc, lambda r: r.get('outcome') != 'ok'); continue
                    got = set(val.keys) if isinstance(val, SetV) else None
                    if got != exp:
                        ob.violation(f'{ft}/roots/wrong-set', f'{ft}::roots = {sorted(got) if got is not None else val} but expected {sorted(exp)} (own {dkeys}, parent {roots})',
                                     {'own': dkeys, 'parent_roots': roots, 'got': sorted(got) if got is not None else str(val)}, sc, confirm_stack(sc))
                    if s2.env.get(('borrow',)) is not None: pass
                ob.sample({'own': dkeys, 'parent_roots': roots})
        ob.absorb(ex)


def ob_forwarding(chk, P, ft):
    """set_global / set_index / get_index / registers / name / partials"""
    kind = FRAMES[ft]['kind']
    with chk.obligation(f'{ft}/forwarding', f'{ft}: set_global, set_index, get_index, registers forward to the parent unchanged, except: GlobalFrame stores set_global locally, '
                        'IndexFrame stores set_index/get_index locally, the sandbox owns its registers; no RefCell double borrow',
                        {'name': 'a, b (present or absent in own data)'}) as ob:
        ex = Executor(P, models_with(FindEnv().models())); ex.seed = chk.seed
        NEWV = value_scalar(scalar_int(9))
        for dkeys in subsets(ALPHA):
            for name in ALPHA:
                for method in ('set_global', 'set_index', 'get_index', 'registers'):
                    fn = P.find_method(ft, method, 'Runtime', 'core')
                    st = State(); penv = ParentEnv(ALPHA)
                    fr = build_frame(st, ft, penv, dkeys)
                    if method in ('set_global', 'set_index'): args = [fr, StrV(name, 'KString'), NEWV]
                    elif method == 'get_index': args = [fr, st.ref(StrV(name, 'str'))]
                    else: args = [fr]
                    local = (ft == 'GlobalFrame' and method == 'set_global') or (ft == 'IndexFrame' and method in ('set_index', 'get_index')) or (ft == 'SandboxedStackFrame' and method == 'registers')
                    for s2, k_, val in ex.run(fn, args, st):
                        ob.paths += 1; ob.reached()
                        opj = {'set_global': [name, 9]} if method == 'set_global' else ({'set_index': [name, 9]} if method == 'set_index' else ({'set_interrupt': 'break'} if method == 'registers' else None))
                        sc = scenario_for(ft, dkeys, ALPHA, None, opj)
                        role = f'{ft}/{method}'
                        if k_ == 'panic':
                            ob.violation(role + '/panic', f'{ft}::{method} panics: {val}', {'own': dkeys, 'name': name}, sc, lambda r: r.get('outcome') != 'ok'); continue
                        pc = [c[1] for c in calls(s2, 'P')]
                        bad = None
                        if not local:
                            want = {'set_global': ('set_global', name, repr(NEWV)), 'set_index': ('set_index', name, repr(NEWV)), 'get_index': ('get_index', name), 'registers': ('registers',)}[method]
                            if pc != [want]: bad = f'must forward exactly once to the parent as {want}; parent calls: {pc}'
                            else:
                                tok = value_token_st(s2, val.items[0]) if method != 'registers' else value_token_st(s2, val)
                                exp_tok = {'set_global': ('P_set_global_old', name), 'set_index': ('P_set_index_old', name), 'get_index': ('PIDX', name), 'registers': ('P_REGISTERS',)}[method]
                                if tok != exp_tok: bad = f'must return the parent\'s answer {exp_tok}, returned {tok}'
                            if FRAMES[ft]['data'] == 'cell':
                                mv = s2.deref(fr).items[1].items[0]
                                if mv.keys != tuple(dkeys): bad = f'own data changed by a forwarded {method}: {mv}'
                        else:
                            if pc: bad = f'{method} must be answered locally, parent calls: {pc}'
                            elif method in ('set_global', 'set_index'):
                                mv = s2.deref(fr).items[1].items[0]
                                i = mv.index(name)
                                if i is None or repr(mv.items[i]) != repr(NEWV): bad = f'{method}({name}) not stored: {mv}'
                                elif set(mv.keys) != set(dkeys) | {name}: bad = f'{method}({name}) disturbed other keys: {mv}'
                                else:
                                    old_ok = (val.variant == 'Some') == (name in dkeys)
                                    if not old_ok: bad = f'{method} returned {val} but previous binding present={name in dkeys}'
                            elif method == 'get_index':
                                if (val.variant == 'Some') != (name in dkeys): bad = f'get_index({name}) = {val} but key present={name in dkeys}'
                                elif val.variant == 'Some' and repr(s2.deref_all(val.items[0].items[0])) != repr(VAL7): bad = f'get_index({name}) returned {val}'
                            elif method == 'registers':
                                if value_token_st(s2, val) != ('OWN_REGISTERS',): bad = f'sandbox must use its own registers, returned {value_token_st(s2, val)}'
                        # no borrow may be left open
                        for key, v in s2.env.items():
                            if isinstance(key, tuple) and key and key[0] == 'borrow' and v != (0, False): bad = f'RefCell borrow left open after {method}: {v}'
                        if bad:
                            ob.violation(role, f'{ft}::{method}: {bad} (own keys {dkeys})', {'own': dkeys, 'name': name, 'result': str(val)}, sc,
                                         confirm_forwarding(sc, ft, method, name))
                    ob.sample({'own': dkeys, 'method': method, 'name': name})
        ob.absorb(ex)


def confirm_forwarding(sc, ft, method, name):
    return confirm_stack(sc)


def run(chk):
    P = chk.program(('core',))
    maxlen = 3 if chk.tier == 'quick' else 5
    for ft in FRAMES:
        ob_lookup(chk, P, ft, maxlen)
        ob_roots(chk, P, ft)
        ob_forwarding(chk, P, ft)
