"""C11 -- value equality and ordering are coherent and construction-independent."""
from vlib import kani_runner
from checks.kani_specs import C11_SPECS


def run(chk):
    kani_runner.obligations(chk, C11_SPECS, chk.tier)
