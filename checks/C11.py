"""C11 -- value equality and ordering are coherent and construction-independent."""
from vlib import kani_runner
from checks.kani_specs import C11_SPECS


def run(chk):
    # scalars: Kani harnesses, one per kind pair
    kani_runner.obligations(chk, C11_SPECS, chk.tier)
    # compound values (arrays) and membership, which must agree with ==: the MIR executor (shared with C06, where the operators are used)
    from checks import C06
    P = chk.program(('core', 'lib'))
    C06.ob_binary_values(chk, P)
