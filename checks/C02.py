"""C02 -- rendering is total: panic-freedom of the kernels that index, slice, divide or loop (umbrella over the kernels owned by C05/C07/C13/C15 plus cycle and ranges)."""
import itertools
import z3
from mirsym.exec import Executor, State, Unsupported
from mirsym.values import *
from checks.common import *
from checks.renderables import expr_stub


def ob_cycle(chk, P):
    with chk.obligation('cycle/no-empty-group', "a cycle tag always has at least one value (a group name followed by nothing is a parse error), so the position arithmetic `% values.len()` "
                        'never divides by zero; the position handed out is always a valid index and advances by one modulo the number of values',
                        {'token streams': 'value | name : values | trailing comma | name : (nothing) ...', 'register': 'position symbolic (any usize below the group size)'}) as ob:
        ex = Executor(P, models_with(registers_models())); ex.seed = chk.seed
        f_parse = P.find(r'^fn (?:\w+::)*parse_cycle\(', 'lib')
        V = lambda i: ('value', f'v{i}'); W = lambda t: ('word', t)
        streams = [[V(0)], [V(0), W(','), V(1)], [V(0), W(','), V(1), W(','), V(2)], [W('grp'), W(':'), V(0)], [W('grp'), W(':'), V(0), W(','), V(1)], [W('grp'), W(':')], [V(0), W(':')],
                   [V(0), W(',')], [W('grp'), W(':'), V(0), W(',')], [], [W(':')], [V(0), V(1)], [W('grp'), W(':'), V(0), V(1)], [V(0), W(':'), V(1)]]
        for toks in streams:
            st = State(); ts = TokenStream(toks)
            for s2, kind, val in ex.run(f_parse, [ts.abs(), st.ref(Opaque(('LANG',)))], st):
                ob.paths += 1; ob.reached()
                text = ' '.join(t[1] if t[0] == 'word' else "'x'" for t in toks)
                sc = {'kind': 'template', 'template': '{% cycle ' + text.replace(' :', ':') + ' %}'}
                if kind == 'panic':
                    ob.violation('cycle/parse/panic', f'cycle {text!r}: parser panics: {val}', {'tokens': repr(toks)}, sc, lambda r: r.get('outcome') == 'panic'); continue
                if val.variant == 'Ok':
                    cyc = val.items[0]
                    nvals = len(s2.deref_all(cyc.items[1]).items) if isinstance(cyc, Adt) else None
                    if nvals == 0:
                        ob.violation('cycle/empty-group-accepted', f'cycle {text!r} parses to a cycle without values (rendering it divides by zero)', {'tokens': repr(toks)}, sc, lambda r: r.get('outcome') == 'panic')
            ob.sample({'tokens': [t[1] for t in toks]})
        # position arithmetic
        f_cyc = P.find_method('CycleRegister', 'cycle', None, 'lib')
        for n in (1, 2, 3):
            st = State()
            pos = z3.BitVec('pos', 64)
            st.assume(z3.ULT(pos, n))
            from mirsym.models.maps import MapV
            reg = st.ref(Adt('CycleRegister', None, [MapV(('g',), (Int(pos, 'usize'),), 'HashMap')], ['cycles']), True)
            vals = st.ref(VecV([expr_stub(VALUE_NIL, f'e{i}') for i in range(n)], 'slice'))
            for s2, kind, val in ex.run(f_cyc, [reg, st.ref(StrV('g', 'str')), vals], st):
                ob.paths += 1
                if kind == 'panic' or val.variant != 'Ok':
                    ob.violation('cycle/position', f'cycle over {n} values at a valid position: {kind} {val}', {'n': n}, {'kind': 'template', 'template': "{% cycle 1, 2 %}{% cycle 1, 2 %}{% cycle 1, 2 %}"}, lambda r: r.get('output') != '121'); continue
                newpos = s2.deref(reg).items[0].items[0]
                got = s2.deref_all(val.items[0])
                idx = int(got.name.split('e')[-1]) if isinstance(got, Abs) else None
                m = ob.decide(ex, s2.conds, z3.Not(z3.And(pos == idx, newpos.e == z3.URem(pos + 1, z3.BitVecVal(n, 64)))))
                if m is not None:
                    ob.violation('cycle/position', f'cycle over {n} values: position {m.eval(pos)} handed out element {idx}, next position {m.eval(newpos.e)}', {'n': n},
                                 {'kind': 'template', 'template': "{% cycle 1, 2 %}{% cycle 1, 2 %}{% cycle 1, 2 %}"}, lambda r: r.get('output') != '121')
        ob.absorb(ex)


def ob_ranges(chk, P):
    with chk.obligation('for-ranges/materialisation', 'an integer range (a..b) materialises as a, a+1, .., b in order (empty when a > b) for every pair of bounds whose width is at most 10^4 ... checked for widths up to 8; '
                        'loop attributes (limit/offset) and range bounds that are not whole numbers are errors; no panic',
                        {'start': 'any i64', 'width': '0..8 (stop - start symbolic within the width bound) or descending', 'attribute values': 'integer / float / string / nil'}) as ob:
        ex = Executor(P, models_with([])); ex.seed = chk.seed; ex.max_steps = 30000
        f_eval = P.find_method('Range', 'evaluate', None, 'lib')
        a = z3.BitVec('a', 64); w = z3.BitVec('w', 64)
        st = State(); st.assume(z3.And(w >= -3, w <= 8)); st.assume(z3.And(z3.BVAddNoOverflow(a, w, True), z3.BVAddNoUnderflow(a, w)))      # every start, the stop included when it is i64::MAX or i64::MIN
        rng = st.ref(Adt('Range', 'Counted', [Int(a, 'i64'), Int(a + w, 'i64')]))
        for s2, kind, val in ex.run(f_eval, [rng], st):
            ob.paths += 1; ob.reached()
            sc = {'kind': 'template', 'template': '{% for i in (3..6) %}{{i}},{% endfor %}|{% for i in (5..3) %}{{i}}{% else %}E{% endfor %}|{% for i in (-2..1) %}{{i}},{% endfor %}|{% for i in (4..4) %}{{i}}{% else %}E{% endfor %}|{% for i in (0..0) %}{{i}}{% else %}E{% endfor %}', '_e': '3,4,5,6,|E|-2,-1,0,1,|4|0'}
            conf = lambda r: r.get('output') != '3,4,5,6,|E|-2,-1,0,1,|4|0'
            if kind == 'panic' or val.variant != 'Ok':
                m = ob.decide(ex, s2.conds, z3.BoolVal(True))
                if m is None: continue
                av = m.eval(a, model_completion=True).as_signed_long(); bv = m.eval(a + w, model_completion=True).as_signed_long()
                exp = ''.join(f'{i},' for i in range(av, bv + 1))
                ob.violation('Range::evaluate/panic', f'range materialisation of ({av}..{bv}): {kind} {val}', {'start': av, 'stop': bv},
                             {'kind': 'template', 'template': '{% for i in (a..b) %}{{i}},{% endfor %}', 'globals': {'a': av, 'b': bv}}, lambda r, e=exp: r.get('outcome') != 'ok' or r.get('output') != e); continue
            items = s2.deref_all(val.items[0]).items
            cons = [w == len(items) - 1] if items else [w < 0]
            for k, it in enumerate(items):
                v = s2.deref_all(it)
                while isinstance(v, Adt) and v.ty in ('ValueCow', 'Value', 'ScalarCow', 'ScalarCowEnum'): v = v.items[0]
                cons.append(v.e == a + k)
            m = ob.decide(ex, s2.conds, z3.Not(z3.And(*cons)))
            if m is not None:
                ob.violation('Range::evaluate/wrong-elements', f'range ({m.eval(a)}..{m.eval(a + w)}) materialised {len(items)} elements', {}, sc, conf)
        # attributes
        f_attr = P.find(r'^fn (?:\w+::)*evaluate_attr\(', 'lib')
        for name, v, ok in (('int', value_scalar(scalar_int(Int(z3.BitVec('n', 64), 'i64'))), True), ('float', value_scalar(scalar_float(Float(z3.FP('f', z3.Float64())))), False),
                            ('string', value_scalar(scalar_str('abc')), False), ('numeric-string', value_scalar(scalar_str('12')), True), ('nil', VALUE_NIL, False), ('absent', None, True)):
            st = State()
            attr = st.ref(Some(expr_stub(v, 'attr')) if v is not None else NONE)
            for s2, kind, val in ex.run(f_attr, [attr, st.ref(Opaque(('RT',)))], st):
                ob.paths += 1
                if kind == 'panic' or (val.variant == 'Ok') != ok:
                    ob.violation(f'evaluate_attr/{name}', f'loop attribute of kind {name}: {kind} {val}', {}, {'kind': 'template', 'template': '{% for i in a limit:x %}{{i}}{% endfor %}', 'globals': {'a': [1, 2], 'x': 1.5}},
                                 lambda r: r.get('outcome') != 'err')
        ob.absorb(ex)


# ---------------------------------------------------------------- every standard filter on every kind of input and argument
def stdlib_filter_structs(repo=None):
    """{FilterType: (liquid name, [(arg field, is_optional)])} read from the sources under stdlib/filters (struct definitions and #[filter(name = .., parsed(..))])"""
    import glob, os, re
    from mirsym.program import REPO
    structs, names = {}, {}
    for fn in glob.glob(os.path.join(repo or REPO, 'crates/lib/src/stdlib/filters/**/*.rs'), recursive=True):
        src = re.sub(r'//[^\n]*', '', open(fn).read())
        for m in re.finditer(r'#\[filter\(\s*name\s*=\s*"([^"]+)"(?:[^\[\]"]|"(?:[^"\\]|\\[\s\S])*")*?parsed\((\w+)\)', src):
            names[m.group(2)] = m.group(1)
        src = re.sub(r'#\[(?:[^\[\]"]|"(?:[^"\\]|\\[\s\S])*")*\]', '', src)
        for m in re.finditer(r'struct (\w+)\s*(\{([^{}]*)\}|;)', src):
            structs[m.group(1)] = [(fm.group(1), fm.group(2).strip()) for fm in re.finditer(r'(\w+)\s*:\s*([^,]+),?', m.group(3) or '')]
    out = {}
    for ty, fields in structs.items():
        if ty not in names: continue
        args = structs.get(fields[0][1], []) if fields else []
        out[ty] = (names[ty], fields[0][1] if fields else None, [(a, 'Option' in t) for a, t in args])
    return out


SWEEP_INPUT_KINDS = ['nil', 'bool', 'int', 'float', 'str0', 'str2', 'array', 'object']
SWEEP_ARG_KINDS = ['nil', 'int', 'str1', 'float', 'array']


def sweep_value(kind, st, tag):
    """(value, concretiser(model) -> python datum)"""
    from mirsym.models.strings import valid_char
    from mirsym.models.maps import MapV
    from checks.C13 import str_value
    ev = lambda m, e: m.eval(e, model_completion=True)
    if kind == 'nil': return VALUE_NIL, lambda m: None
    if kind == 'bool':
        b = z3.Bool(f'{tag}_b'); return value_scalar(scalar_bool(Bool(b))), lambda m: z3.is_true(ev(m, b))
    if kind == 'int':
        i = z3.BitVec(f'{tag}_i', 64); return value_scalar(scalar_int(Int(i, 'i64'))), lambda m: ev(m, i).as_signed_long()
    if kind == 'float':
        f = z3.FP(f'{tag}_f', z3.Float64())
        def conc(m):
            import struct
            bits = ev(m, z3.fpToIEEEBV(f)).as_long(); x = struct.unpack('<d', struct.pack('<Q', bits))[0]
            return x if x == x and abs(x) != float('inf') else 1.5
        return value_scalar(scalar_float(Float(f))), conc
    if kind.startswith('str'):
        cs = [z3.BitVec(f'{tag}_c{i}', 32) for i in range(int(kind[3:]))]
        for c in cs: st.assume(valid_char(c))
        return str_value(cs), lambda m: ''.join(chr(ev(m, c).as_long()) for c in cs)
    if kind == 'array':
        a = z3.BitVec(f'{tag}_a0', 64)
        return Adt('Value', 'Array', [VecV([value_scalar(scalar_int(Int(a, 'i64'))), VALUE_NIL], 'Vec')]), lambda m: [ev(m, a).as_signed_long(), None]
    if kind == 'object':
        pv = z3.BitVec(f'{tag}_p', 64)
        return Adt('Value', 'Object', [MapV(['p'], [value_scalar(scalar_int(Int(pv, 'i64')))], 'Object')]), lambda m: {'p': ev(m, pv).as_signed_long()}
    raise ValueError(kind)


def ob_filter_sweep(chk, P):
    import json, os
    from mirsym.exec import BoundHit
    base_file = os.path.join(os.path.dirname(os.path.abspath(__file__)), 'C02_uncovered.json')
    baseline = json.load(open(base_file)) if os.path.exists(base_file) else {}
    with chk.obligation('stdlib-filters/every-kind', 'every standard filter (all Filter::evaluate bodies under stdlib/filters, found in the MIR) applied to an input of every kind with arguments of every kind '
                        'returns a value or an error: no reachable panic (overflow, division by zero, out-of-range index, slicing inside a character, unwrap/expect)',
                        {'input': 'nil, any boolean, any i64, any f64 (NaN and infinities included), the empty string, two arbitrary characters, a two-element array [any i64, nil], an object {p: any i64}',
                         'arguments': 'each declared argument independently: nil, any i64, one arbitrary character, any f64, an array; optional arguments also absent',
                         'not covered': 'combinations whose execution needs a string operation on the PRINTED form of a number/array/object (opaque in this executor): listed in checks/C02_uncovered.json; '
                                        'a combination that stops being executable and is not in that list makes the obligation inconclusive'}) as ob:
        ex = Executor(P, models_with([])); ex.seed = chk.seed; ex.max_steps = 60000
        S = stdlib_filter_structs()
        filters = []
        for f in P.by_short.get('evaluate', []):
            if f.crate != 'lib' or 'stdlib/filters' not in f.name: continue
            tr, ty = P.header(f)
            if tr == 'Filter': filters.append((ty, f))
        if len(filters) < 40: raise Unsupported(f'only {len(filters)} stdlib filters found in the MIR')
        uncovered = {}; ran = 0
        for ty, fn in sorted(filters, key=lambda x: x[0]):
            if ty not in S: raise Unsupported(f'no struct/#[filter] declaration found in the sources for {ty}')
            lname, argsty, argfields = S[ty]
            for ik in SWEEP_INPUT_KINDS:
                for aks in itertools.product(*[SWEEP_ARG_KINDS + (['absent'] if opt else []) for _, opt in argfields]):
                    st = State()
                    inp, cin = sweep_value(ik, st, 'in')
                    concs = []
                    if argsty:
                        items = []
                        for (an, opt), ak in zip(argfields, aks):
                            if ak == 'absent':
                                items.append(NONE); concs.append(None); continue
                            v, c = sweep_value(ak, st, 'a_' + an); concs.append(c)
                            e = expr_stub(v, an); items.append(Some(e) if opt else e)
                        self_ = Adt(ty, None, [Adt(argsty, None, items, [a for a, _ in argfields])], ['args'])
                    else:
                        self_ = Adt(ty, None, [])
                    key = f'{ty}|{ik}|{",".join(aks)}'
                    try:
                        for s2, kind, val in ex.run(fn, [st.ref(self_), st.ref(inp), st.ref(Opaque(('RT',)))], st):
                            ob.paths += 1; ob.reached()
                            if kind == 'panic':
                                m = ob.decide(ex, s2.conds, z3.BoolVal(True))
                                if m is None: continue
                                g = {'x': cin(m)}; call = lname; used = []
                                for i, c in enumerate(concs):
                                    if c is None: break
                                    g[f'a{i}'] = c(m); used.append(f'a{i}')
                                if used: call += ': ' + ', '.join(used)
                                ob.violation(f'{lname}/panic', f'{lname} panics ({val}) on input {g["x"]!r} with arguments {[g[u] for u in used]}', {'filter': lname, 'globals': g},
                                             {'kind': 'template', 'parser': 'stdlib', 'template': '{{ x | ' + call + ' }}', 'globals': g}, lambda r: r.get('outcome') == 'panic')
                            elif not (kind == 'ret' and isinstance(val, Adt) and val.variant in ('Ok', 'Err')):
                                ob.inconclusive(f'{key}: unexpected outcome {kind} {val}')
                        ran += 1
                    except (Unsupported, BoundHit) as e:
                        uncovered[key] = str(e)[:60]
            ob.sample({'filter': lname, 'type': ty, 'arguments': [a + ('?' if o else '') for a, o in argfields]})
        new_unc = sorted(k for k in uncovered if k not in baseline)
        ob.bounds['combinations executed'] = ran; ob.bounds['combinations not covered (in the committed list)'] = len(uncovered) - len(new_unc)
        if os.environ.get('VERIF_WRITE_BASELINE'):
            json.dump(uncovered, open(base_file, 'w'), indent=0, sort_keys=True)
        elif new_unc:
            ob.inconclusive(f'{len(new_unc)} combination(s) cannot be executed and are not in the committed not-covered list, e.g. {new_unc[0]}: {uncovered[new_unc[0]]}')
        ob.absorb(ex)


def run(chk):
    P = chk.program(('core', 'lib'))
    ob_cycle(chk, P)
    ob_ranges(chk, P)
    ob_filter_sweep(chk, P)
    # kernels owned by other properties, re-run here for their panic-freedom clause (same obligations, same oracles)
    from checks import C05, C07, C13, C15
    chk.role_filter = lambda role: 'panic' in role          # C02 only claims totality; wrong values belong to the owning property
    chk.notes.append('obligations borrowed from C05/C07/C13/C15 are re-run with their own oracles; only their panic roles count for C02')
    C05.ob_iter_array(chk, P, 5)
    C05.ob_tablerow_render(chk, P, 3)
    C05.ob_for_render(chk, P, 2)
    C07.ob_array_index(chk, P, 4)
    C07.ob_overlays(chk, P)
    C13.ob_slice(chk, P, 3)
    C13.ob_truncate(chk, P, 3)
    for name in ('plus', 'minus', 'times', 'divided_by', 'modulo'):
        C15.ob_binary(chk, P, name)
    C15.ob_abs(chk, P)
    from checks import C14, C16, C17
    C14.ob_sort(chk, P, 3)                      # comparator over incomparable kinds must not panic
    C14.ob_sort_comparator(chk, P)              # ... and must be a total order, or std's sort may panic on long arrays
    C14.ob_uniq(chk, P, 3)
    C16.ob_escape(chk, P, 3)                    # byte-offset slicing in escape()
    C16.ob_escape_once(chk, P, 2, 3, 1)         # the entity look-ahead of escape_once (nr_escaped) on entity-shaped text
    C17.ob_unknown_and_errors(chk, P)           # the date filter's format string: unknown / malformed directives never panic
