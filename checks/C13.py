"""C13 -- string filters compute their documented function on every string (facets built so far: slice, filter chain)."""
import itertools
import z3
from mirsym.exec import Executor, State, Unsupported
from mirsym.values import *
from checks.common import *
from checks.renderables import expr_stub
from mirsym.models.strings import valid_char


def sym_string(st, n, name='c'):
    cs = [z3.BitVec(f'{name}{i}', 32) for i in range(n)]
    for c in cs: st.assume(valid_char(c))
    return cs


def model_string(m, cs):
    return ''.join(chr(m.eval(c, model_completion=True).as_long()) for c in cs)


def py_slice(s, off, ln):
    """reference (Ruby/Liquid semantics on characters): s[off, ln]; negative offsets count from the end; out of range -> ''"""
    n = len(s)
    if ln < 1: return None      # error
    if off < 0: off += n
    if off < 0 or off > n: return ''
    return s[off:off + ln]


def result_string(st, val):
    """Ok(Value::Scalar(Str(..))) -> list of chars (python ints / BV) ; None if not a string result"""
    if val.variant != 'Ok': return None
    v = val.items[0]
    if isinstance(v, Adt) and v.ty == 'Value' and v.variant == 'Scalar':
        inner = v.items[0].items[0]
        if inner.variant == 'Str': return list(st.deref_all(inner.items[0]).chars)
    return None


def ob_slice(chk, P, maxlen):
    with chk.obligation('slice/strings', "slice on a string returns the contiguous piece of at most `length` CHARACTERS starting at character `offset` (negative offsets count from the end, "
                        "out-of-range starts give the empty string), length < 1 is an error; no panic for any offset/length",
                        {'string': f'0..{maxlen} characters, each any Unicode scalar value', 'offset': 'any i64', 'length': 'absent or any i64'}) as ob:
        ex = Executor(P, models_with([])); ex.seed = chk.seed; ex.max_steps = 20000
        fn = P.find_method('SliceFilter', 'evaluate', 'Filter', 'lib')
        for n in range(maxlen + 1):
            for has_len in (False, True):
                st = State()
                cs = sym_string(st, n)
                off = z3.BitVec('off', 64); ln = z3.BitVec('len', 64)
                args = Adt('SliceArgs', None, [expr_stub(value_scalar(scalar_int(Int(off, 'i64'))), 'offset'),
                                               Some(expr_stub(value_scalar(scalar_int(Int(ln, 'i64'))), 'length')) if has_len else NONE], ['offset', 'length'])
                inp = value_scalar(Adt('ScalarCow', None, [Adt('ScalarCowEnum', 'Str', [StrV(cs, 'KStringCow')])]))
                for s2, kind, val in ex.run(fn, [st.ref(Adt('SliceFilter', None, [args], ['args'])), st.ref(inp), st.ref(Opaque(('RT',)))], st):
                    ob.paths += 1; ob.reached()
                    def report(role, what, m):
                        s = model_string(m, cs); o = m.eval(off, model_completion=True).as_signed_long(); l = m.eval(ln, model_completion=True).as_signed_long() if has_len else None
                        exp = py_slice(s, o, 1 if l is None else l)
                        sc = {'kind': 'template', 'template': '[{{ s | slice: o' + (', l' if has_len else '') + ' }}]', 'globals': {'s': s, 'o': o, 'l': l}}
                        ob.violation(role, f'{what}: {s!r} | slice: {o}' + (f', {l}' if has_len else ''), {'string': s, 'offset': o, 'length': l, 'expected': exp}, sc,
                                     lambda r, e=exp: (r.get('outcome') != 'err') if e is None else (r.get('outcome') != 'ok' or r.get('output') != '[' + e + ']'))
                    if kind == 'panic':
                        m = ob.decide(ex, s2.conds, z3.BoolVal(True))
                        report('slice/panic/' + ('overflow' if 'overflow' in str(val) else 'other'), f'slice panics ({val})', m); continue
                    lnv = ln if has_len else z3.BitVecVal(1, 64)
                    res = result_string(s2, val)
                    # specification, for every (offset, length) on this path
                    if res is None:
                        post = lnv < 1 if val.variant == 'Err' else z3.BoolVal(False)
                    else:
                        good = []
                        for a in range(n + 1):
                            for k in range(0, n - a + 1):
                                exp = cs[a:a + k]
                                if len(exp) != len(res): continue
                                same = z3.And(*[(x == y) if not isinstance(x, int) else (y == x) for x, y in zip(res, exp)]) if exp else z3.BoolVal(True)
                                if a < n or True:
                                    start_ok = z3.Or(off == a, off == a - n) if a < n else z3.Or(off == n, off == 0 if n == 0 else z3.BoolVal(False))
                                    start_ok = z3.Or(off == a, off == a - n) if n > 0 else (off == 0)
                                    if a == n and n > 0: start_ok = (off == n)
                                cnt_ok = (lnv == k) if k < n - a else (lnv >= n - a)
                                if k == 0 and n - a > 0: cnt_ok = z3.BoolVal(False)     # length >= 1 always takes at least one char when one is there
                                good.append(z3.And(start_ok, cnt_ok, same, lnv >= 1))
                        if len(res) == 0:
                            good.append(z3.And(z3.Or(off > n, off < -n), lnv >= 1))    # start out of range -> ''
                        post = z3.Or(*good) if good else z3.BoolVal(False)
                    m = ob.decide(ex, s2.conds, z3.Not(post))
                    if m is not None:
                        m_ascii = ob.decide(ex, s2.conds + [z3.ULT(c, 128) for c in cs], z3.Not(post))
                        mm = m_ascii if m_ascii is not None else m
                        got = ''.join(chr(mm.eval(c, model_completion=True).as_long()) if not isinstance(c, int) else chr(c) for c in res) if res is not None else val.variant
                        report('slice/wrong-piece' + ('' if m_ascii is not None else '/only-with-multibyte-characters'), f'slice returns {got!r}', mm)
                ob.sample({'len': n, 'has_length': has_len})
        ob.absorb(ex)


def py_truncate(s, length, ell):
    """reference (characters): strings longer than `length` are cut to max(length - len(ellipsis), 0) characters plus the ellipsis; negative length = no limit"""
    if length < 0: return s
    if len(s) <= length: return s
    keep = max(length - len(ell), 0)
    return s[:keep] + ell


def ob_truncate(chk, P, maxlen):
    with chk.obligation('truncate/strings', 'truncate counts CHARACTERS: a string of at most `length` characters is returned unchanged, a longer one is cut to max(length - |ellipsis|, 0) characters '
                        'followed by the ellipsis, so the result is never longer than max(length, |ellipsis|); no panic',
                        {'string': f'0..{maxlen} characters, each any Unicode scalar value (one grapheme per character: no combining marks U+0300..U+036F, no CR)', 'length': 'any i64', 'ellipsis': "absent ('...') or a string of 0..2 characters"}) as ob:
        ex = Executor(P, models_with([])); ex.seed = chk.seed; ex.max_steps = 20000
        fn = P.find_method('TruncateFilter', 'evaluate', 'Filter', 'lib')
        ob.assumptions += ['grapheme clusters are single code points (inputs without combining marks / ZWJ / regional indicators)']
        for n in range(maxlen + 1):
            for ell_n in (None, 0, 1, 2):
                st = State()
                cs = sym_string(st, n); es = sym_string(st, ell_n or 0, 'e')
                for c in cs: st.assume(z3.And(z3.Or(z3.ULT(c, 0x300), z3.UGT(c, 0x36F)), c != 13))       # one grapheme per character (see the stated assumption)
                ln = z3.BitVec('len', 64)
                args = Adt('TruncateArgs', None, [Some(expr_stub(value_scalar(scalar_int(Int(ln, 'i64'))), 'length')),
                                                  Some(expr_stub(value_scalar(Adt('ScalarCow', None, [Adt('ScalarCowEnum', 'Str', [StrV(es, 'KStringCow')])])), 'ellipsis')) if ell_n is not None else NONE], ['length', 'ellipsis'])
                inp = value_scalar(Adt('ScalarCow', None, [Adt('ScalarCowEnum', 'Str', [StrV(cs, 'KStringCow')])]))
                ell = list(es) if ell_n is not None else [ord('.')] * 3
                for s2, kind, val in ex.run(fn, [st.ref(Adt('TruncateFilter', None, [args], ['args'])), st.ref(inp), st.ref(Opaque(('RT',)))], st):
                    ob.paths += 1; ob.reached()
                    def report(role, what, m):
                        s = model_string(m, cs); l = m.eval(ln, model_completion=True).as_signed_long(); e = model_string(m, es) if ell_n is not None else '...'
                        exp = py_truncate(s, l, e)
                        sc = {'kind': 'template', 'template': '[{{ s | truncate: l' + (', e' if ell_n is not None else '') + ' }}]', 'globals': {'s': s, 'l': l, 'e': e}}
                        ob.violation(role, f'{what}: {s!r} | truncate: {l}' + (f', {e!r}' if ell_n is not None else ''), {'string': s, 'length': l, 'ellipsis': e, 'expected': exp}, sc,
                                     lambda r, x=exp: r.get('outcome') != 'ok' or r.get('output') != '[' + x + ']')
                    if kind == 'panic':
                        report('truncate/panic', f'truncate panics ({val})', ob.decide(ex, s2.conds, z3.BoolVal(True))); continue
                    res = result_string(s2, val)
                    if res is None:
                        report('truncate/error', f'truncate fails: {val}', ob.decide(ex, s2.conds, z3.BoolVal(True))); continue
                    # spec: unchanged iff n <= length or length < 0; else cs[:keep] + ell with keep = max(length - |ell|, 0)
                    def eqs(a, b):
                        if len(a) != len(b): return z3.BoolVal(False)
                        return z3.And(*[(x == y) if not (isinstance(x, int) and isinstance(y, int)) else z3.BoolVal(x == y) for x, y in zip(a, b)]) if a else z3.BoolVal(True)
                    good = [z3.And(z3.Or(ln < 0, ln >= n), eqs(res, list(cs)))]
                    for keep in range(0, n + 1):
                        cond_keep = (ln - len(ell) == keep) if keep > 0 else (ln - len(ell) <= 0)
                        good.append(z3.And(ln >= 0, ln < n, cond_keep, eqs(res, list(cs[:keep]) + ell)))
                    m = ob.decide(ex, s2.conds, z3.Not(z3.Or(*good)))
                    if m is not None:
                        # prefer an ASCII-only witness: the byte-vs-character finding needs a multi-byte character, anything else does not
                        ascii_only = [z3.ULT(c, 128) for c in list(cs) + list(es)]
                        m_ascii = ob.decide(ex, s2.conds + ascii_only, z3.Not(z3.Or(*good)))
                        mm = m_ascii if m_ascii is not None else m
                        got = ''.join(chr(mm.eval(c, model_completion=True).as_long()) if not isinstance(c, int) else chr(c) for c in res)
                        report('truncate/wrong-result' + ('' if m_ascii is not None else '/only-with-multibyte-characters'), f'truncate returns {got!r}', mm)
                ob.sample({'len': n, 'ellipsis_len': ell_n})
        ob.absorb(ex)


# ============================================================================ simple string filters against independent symbolic references
from mirsym.models.strings import is_whitespace_expr, upper_expr, lower_expr, ch_expr


def str_value(chars):
    return value_scalar(Adt('ScalarCow', None, [Adt('ScalarCowEnum', 'Str', [StrV(chars, 'KStringCow')])]))


def eq_chars(a, b):
    if len(a) != len(b): return z3.BoolVal(False)
    cs = []
    for x, y in zip(a, b):
        if isinstance(x, int) and isinstance(y, int):
            if x != y: return z3.BoolVal(False)
        else: cs.append(ch_expr(x) == ch_expr(y))
    return z3.And(*cs) if cs else z3.BoolVal(True)


def bool_expr(p): return z3.BoolVal(p) if isinstance(p, bool) else p


def spec_trim(left, right):
    def spec(cs, args, res):
        n = len(cs); good = []
        ws = [bool_expr(is_whitespace_expr(c)) for c in cs]
        for a in range(n + 1):
            for b in range(a, n + 1):
                if not left and a != 0: continue
                if not right and b != n: continue
                conds = []
                if left: conds += ws[:a] + ([z3.Not(ws[a])] if a < n else [])
                if right: conds += ws[b:] + ([z3.Not(ws[b - 1])] if b > a else [])
                if left and right and a == n and b != n: continue
                good.append(z3.And(*conds, eq_chars(res, cs[a:b])))
        return z3.Or(*good)
    return spec


def spec_map(f):
    return lambda cs, args, res: eq_chars(res, [f(c) for c in cs])


def spec_capitalize(cs, args, res):
    return eq_chars(res, ([upper_expr(cs[0])] + list(cs[1:])) if cs else [])


def spec_strip_newlines(cs, args, res):
    good = []
    for mask in itertools.product((False, True), repeat=len(cs)):
        conds = [(z3.Or(c == 10, c == 13) if not keep else z3.And(c != 10, c != 13)) for c, keep in zip(cs, mask)]
        good.append(z3.And(*conds, eq_chars(res, [c for c, keep in zip(cs, mask) if keep])))
    return z3.Or(*good) if good else z3.BoolVal(len(res) == 0)


def spec_newline_to_br(cs, args, res):
    good = []
    for mask in itertools.product((False, True), repeat=len(cs)):
        out = []
        for c, nl in zip(cs, mask): out += ([ord(x) for x in '<br />\n'] if nl else [c])
        good.append(z3.And(*[(c == 10) if nl else (c != 10) for c, nl in zip(cs, mask)], eq_chars(res, out)))
    return z3.Or(*good) if good else z3.BoolVal(len(res) == 0)


def spec_first_last(first):
    return lambda cs, args, res: eq_chars(res, ([cs[0]] if first else [cs[-1]]) if cs else [])


def scan_spec(cs, pat, build, limit=None):
    """reference for replace/remove/split: truth table over 'pattern occurs at position i', scanned leftmost-non-overlapping"""
    n, m = len(cs), len(pat)
    positions = list(range(0, n - m + 1)) if m else []
    occ = {i: eq_chars(cs[i:i + m], pat) for i in positions}
    good = []
    for bits in itertools.product((False, True), repeat=len(positions)):
        table = dict(zip(positions, bits))
        pieces = []; start = 0; i = 0; hits = 0
        while i <= n - m and m:
            if table.get(i) and (limit is None or hits < limit):
                pieces.append(cs[start:i]); start = i + m; i += m; hits += 1
            else: i += 1
        pieces.append(cs[start:])
        good.append(z3.And(*[(occ[i] if b else z3.Not(occ[i])) for i, b in table.items()], build(pieces)))
    return z3.Or(*good) if good else build([cs])


def spec_replace(limit, with_to):
    def spec(cs, args, res):
        pat = args[0]; to = args[1] if with_to and len(args) > 1 else []
        if not pat:
            # the empty string occurs at every character boundary, both ends included (what Ruby's sub/gsub and Rust's replacen/replace do)
            if limit == 1: return eq_chars(res, list(to) + list(cs))
            out = list(to)
            for c in cs: out += [c] + list(to)
            return eq_chars(res, out)
        def build(pieces):
            out = []
            for k, p in enumerate(pieces):
                if k: out += list(to)
                out += list(p)
            return eq_chars(res, out)
        return scan_spec(cs, pat, build, limit)
    return spec


SIMPLE = [
    # (filter struct, args struct or None, [(arg field, max len)], spec, template suffix for replay, python reference)
    ('StripFilter', None, [], spec_trim(True, True), 'strip', lambda s, a: s.strip(''.join(chr(c) for lo, hi in __import__('mirsym.models.strings', fromlist=['WS_RANGES']).WS_RANGES for c in range(lo, hi + 1)))),
    ('LstripFilter', None, [], spec_trim(True, False), 'lstrip', None),
    ('RstripFilter', None, [], spec_trim(False, True), 'rstrip', None),
    ('UpcaseFilter', None, [], spec_map(upper_expr), 'upcase', None),
    ('DowncaseFilter', None, [], spec_map(lower_expr), 'downcase', None),
    ('CapitalizeFilter', None, [], spec_capitalize, 'capitalize', None),
    ('StripNewlinesFilter', None, [], spec_strip_newlines, 'strip_newlines', None),
    ('AppendFilter', 'AppendArgs', [('string', 2)], lambda cs, a, r: eq_chars(r, list(cs) + list(a[0])), 'append: a0', None),
    ('PrependFilter', 'PrependArgs', [('string', 2)], lambda cs, a, r: eq_chars(r, list(a[0]) + list(cs)), 'prepend: a0', None),
    ('ReplaceFilter', 'ReplaceArgs', [('search', 2), ('replace', 1)], spec_replace(None, True), 'replace: a0, a1', None),
    ('ReplaceFirstFilter', 'ReplaceFirstArgs', [('search', 2), ('replace', 1)], spec_replace(1, True), 'replace_first: a0, a1', None),
    ('RemoveFilter', 'RemoveArgs', [('search', 2)], spec_replace(None, False), 'remove: a0', None),
    ('RemoveFirstFilter', 'RemoveFirstArgs', [('search', 2)], spec_replace(1, False), 'remove_first: a0', None),
    ('NewlineToBrFilter', None, [], spec_newline_to_br, 'newline_to_br', None),
    ('FirstFilter', None, [], spec_first_last(True), 'first', None),
    ('LastFilter', None, [], spec_first_last(False), 'last', None),
]


def ob_simple_filters(chk, P, maxlen):
    for (filt, argsty, argspec, spec, tsuffix, _pyref) in SIMPLE:
        name = tsuffix.split(':')[0]
        with chk.obligation(f'{name}/strings', f'{name}: the documented function of the input characters (independent symbolic reference), for every string; no panic',
                            {'input': f'0..{maxlen} characters, each any Unicode scalar value', 'arguments': ', '.join(f'{a}: 0..{k} characters' for a, k in argspec) or 'none',
                             'case mapping': 'ASCII exact, non-ASCII as an uninterpreted per-character function (multi-character expansions such as ß -> SS are outside)'}) as ob:
            ex = Executor(P, models_with([])); ex.seed = chk.seed; ex.max_steps = 20000
            fn = P.find_method(filt, 'evaluate', 'Filter', 'lib')
            arg_lens = list(itertools.product(*[range(0, k + 1) for _, k in argspec])) if argspec else [()]
            for n in range(maxlen + 1):
                for lens in arg_lens:
                    st = State()
                    cs = sym_string(st, n)
                    argv = [sym_string(st, ln, f'a{i}_') for i, ln in enumerate(lens)]
                    if argsty:
                        fields = [expr_stub(str_value(a), f'arg{i}') if i == 0 or True else None for i, a in enumerate(argv)]
                        # optional second argument (replace): Some(expr)
                        struct_fields = []
                        for i, ((fname, _), e) in enumerate(zip(argspec, fields)):
                            struct_fields.append(Some(e) if (fname == 'replace') else e)
                        self_ = Adt(filt, None, [Adt(argsty, None, struct_fields, [a for a, _ in argspec])], ['args'])
                    else:
                        self_ = Adt(filt, None, [])
                    for s2, kind, val in ex.run(fn, [st.ref(self_), st.ref(str_value(cs)), st.ref(Opaque(('RT',)))], st):
                        ob.paths += 1; ob.reached()
                        def report(role, what, m):
                            s = model_string(m, cs); av = [model_string(m, a) for a in argv]
                            g = {'s': s}; g.update({f'a{i}': a for i, a in enumerate(av)})
                            tpl = '[{{ s | ' + tsuffix + ' }}]'
                            ob.violation(role, f'{what}: {s!r} | {tsuffix} with {av}', {'input': s, 'args': av}, {'kind': 'template', 'template': tpl, 'globals': g, '_py': name},
                                         py_confirm(name, s, av))
                        if kind == 'panic':
                            report(f'{name}/panic', f'{name} panics ({val})', ob.decide(ex, s2.conds, z3.BoolVal(True))); continue
                        res = result_string(s2, val)
                        if res is None:
                            report(f'{name}/not-a-string', f'{name} returns {val}', ob.decide(ex, s2.conds, z3.BoolVal(True))); continue
                        post = spec(list(cs), [list(a) for a in argv], res)
                        m = ob.decide(ex, s2.conds, z3.Not(post))
                        if m is not None:
                            ascii_only = [z3.ULT(c, 128) for c in list(cs) + [x for a in argv for x in a]]
                            m2 = ob.decide(ex, s2.conds + ascii_only, z3.Not(post))
                            mm = m2 if m2 is not None else m
                            if m2 is None:      # prefer a Latin-1 witness (case mapping is exact there) to one that rests on the uninterpreted part
                                m3 = ob.decide(ex, s2.conds + [z3.And(z3.ULT(c, 0x100), c != 0xDF) for c in list(cs) + [x for a in argv for x in a]], z3.Not(post))
                                if m3 is not None: mm = m3
                            got = ''.join(chr(mm.eval(ch_expr(c), model_completion=True).as_long()) for c in res)
                            report(f'{name}/wrong-result' + ('' if m2 is not None else '/only-with-non-ascii'), f'{name} returns {got!r}', mm)
                ob.sample({'len': n})
            ob.absorb(ex)


WS_CHARS = ''.join(chr(c) for lo, hi in [(0x09, 0x0D), (0x20, 0x20), (0x85, 0x85), (0xA0, 0xA0), (0x1680, 0x1680), (0x2000, 0x200A), (0x2028, 0x2029), (0x202F, 0x202F), (0x205F, 0x205F), (0x3000, 0x3000)] for c in range(lo, hi + 1))


def py_reference(name, s, av):
    if name == 'strip': return s.strip(WS_CHARS)
    if name == 'lstrip': return s.lstrip(WS_CHARS)
    if name == 'rstrip': return s.rstrip(WS_CHARS)
    if name == 'upcase': return s.upper() if all(len(c.upper()) == 1 for c in s) else None
    if name == 'downcase': return s.lower() if all(len(c.lower()) == 1 for c in s) else None
    if name == 'capitalize': return (s[0].upper() + s[1:]) if s and len(s[0].upper()) == 1 else (s if not s else None)
    if name == 'strip_newlines': return s.replace('\n', '').replace('\r', '')
    if name == 'append': return s + av[0]
    if name == 'prepend': return av[0] + s
    if name == 'replace': return s.replace(av[0], av[1])
    if name == 'replace_first': return s.replace(av[0], av[1], 1)
    if name == 'remove': return s.replace(av[0], '')
    if name == 'remove_first': return s.replace(av[0], '', 1)
    if name == 'newline_to_br': return s.replace('\n', '<br />\n')
    if name == 'first': return s[:1]
    if name == 'last': return s[-1:]
    return None


def py_confirm(name, s, av):
    exp = py_reference(name, s, av)
    def f(r):
        if exp is None: return r.get('outcome') == 'panic'
        return r.get('outcome') != 'ok' or r.get('output') != '[' + exp + ']'
    return f


def ob_size(chk, P, maxlen):
    with chk.obligation('size/strings', 'size of a string is its number of CHARACTERS', {'input': f'0..{maxlen} characters, each any Unicode scalar value'}) as ob:
        ex = Executor(P, models_with([])); ex.seed = chk.seed
        fn = P.find_method('SizeFilter', 'evaluate', 'Filter', 'lib')
        for n in range(maxlen + 1):
            st = State(); cs = sym_string(st, n)
            for s2, kind, val in ex.run(fn, [st.ref(Adt('SizeFilter', None, [])), st.ref(str_value(cs)), st.ref(Opaque(('RT',)))], st):
                ob.paths += 1; ob.reached()
                r = None
                if kind == 'ret' and val.variant == 'Ok':
                    inner = val.items[0].items[0].items[0] if val.items[0].variant == 'Scalar' else None
                    if inner is not None and inner.variant == 'Integer': r = inner.items[0].e
                post = (r == n) if r is not None else z3.BoolVal(False)
                m = ob.decide(ex, s2.conds, z3.Not(post))
                if m is not None:
                    m2 = ob.decide(ex, s2.conds + [z3.ULT(c, 128) for c in cs], z3.Not(post))
                    mm = m2 if m2 is not None else m
                    s = model_string(mm, cs)
                    ob.violation('size/wrong-count' + ('' if m2 is not None else '/only-with-multibyte-characters'), f'{s!r} | size = {mm.eval(r, model_completion=True) if r is not None else val}', {'input': s},
                                 {'kind': 'template', 'template': '[{{ s | size }}|{{ s.size }}]', 'globals': {'s': s}}, lambda res, k=len(s): res.get('output') != f'[{k}|{k}]')
            ob.sample({'len': n})
        ob.absorb(ex)


def ob_default(chk, P, maxlen):
    with chk.obligation('default/values', 'default returns its argument exactly when the input is nil, false, the empty string or an empty array, and the input unchanged otherwise -- '
                        'in particular a whitespace-only string, 0 and true are kept',
                        {'input': f'nil | any bool | any i64 | a string of 0..{maxlen} characters (each any Unicode scalar value) | an array of 0..2 elements', 'argument': 'abstract value'}) as ob:
        ex = Executor(P, models_with([])); ex.seed = chk.seed
        fn = P.find_method('DefaultFilter', 'evaluate', 'Filter', 'lib')
        b = z3.Bool('in_b'); iv = z3.BitVec('in_i', 64)
        inputs = [('nil', lambda st: (VALUE_NIL, [])), ('bool', lambda st: (value_scalar(scalar_bool(Bool(b))), [])), ('int', lambda st: (value_scalar(scalar_int(Int(iv, 'i64'))), []))]
        for n in range(maxlen + 1):
            inputs.append((f'str{n}', lambda st, n=n: (lambda cs: (str_value(cs), cs))(sym_string(st, n))))
        for n in range(3):
            inputs.append((f'array{n}', lambda st, n=n: (Adt('Value', 'Array', [VecV([value_scalar(scalar_int(Int(z3.BitVec(f'el{i}', 64), 'i64'))) for i in range(n)])]), [])))
        for name, mk in inputs:
            st = State()
            inp, cs = mk(st)
            args = Adt('DefaultArgs', None, [expr_stub(Abs('token', found_handler, ('DEFAULT',)), 'default')], ['default'])
            for s2, kind, val in ex.run(fn, [st.ref(Adt('DefaultFilter', None, [args], ['args'])), st.ref(inp), st.ref(Opaque(('RT',)))], st):
                ob.paths += 1; ob.reached()
                def report(role, what, m):
                    if name.startswith('str'): v = model_string(m, cs)
                    elif name == 'bool': v = z3.is_true(m.eval(b, model_completion=True))
                    elif name == 'int': v = m.eval(iv, model_completion=True).as_signed_long()
                    elif name == 'nil': v = None
                    else: v = [0] * int(name[5:])
                    keep = not (v is None or v is False or v == '' or v == [])
                    exp = ('[' + (('true' if v is True else str(v)) if not isinstance(v, list) else ''.join(map(str, v))) + ']') if keep else '[D]'
                    ob.violation(role, f'{what}: input {v!r}', {'input': repr(v)}, {'kind': 'template', 'template': "[{{ v | default: 'D' }}]", 'globals': {'v': v}},
                                 lambda r, e=exp: r.get('outcome') != 'ok' or r.get('output') != e)
                if kind != 'ret' or val.variant != 'Ok':
                    report('default/fails', f'default ends with {kind} {val}', ob.decide(ex, s2.conds, z3.BoolVal(True))); continue
                out = s2.deref_all(val.items[0])
                is_default = value_token(out) == ('DEFAULT',)
                if name == 'nil': want_default = z3.BoolVal(True)
                elif name == 'bool': want_default = z3.Not(b)
                elif name == 'int': want_default = z3.BoolVal(False)
                elif name.startswith('str'): want_default = z3.BoolVal(len(cs) == 0)
                else: want_default = z3.BoolVal(name == 'array0')
                m = ob.decide(ex, s2.conds, z3.Not(want_default) if is_default else want_default)
                if m is not None:
                    m2 = ob.decide(ex, s2.conds + [z3.ULT(c, 128) for c in cs], z3.Not(want_default) if is_default else want_default) if cs else None
                    report('default/' + ('replaced-a-present-value' if is_default else 'kept-an-absent-value'), f'default returns {"its argument" if is_default else "the input"}', m2 if m2 is not None else m); continue
                if not is_default and name.startswith('str'):
                    res = result_string(s2, val)
                    m = ob.decide(ex, s2.conds, z3.Not(eq_chars(res, list(cs))) if res is not None else z3.BoolVal(True))
                    if m is not None: report('default/changed-the-input', f'default returns {val}', m)
            ob.sample({'input': name})
        ob.absorb(ex)


def ob_split_join(chk, P, maxlen):
    with chk.obligation('split-join/strings', 'split cuts the input at every (leftmost, non-overlapping) occurrence of a non-empty separator and returns the pieces in order (the empty string gives the empty array); '
                        'joining the pieces with the same separator gives the input back',
                        {'input': f'0..{maxlen} characters, each any Unicode scalar value', 'separator': '1..2 characters'}) as ob:
        ex = Executor(P, models_with([])); ex.seed = chk.seed; ex.max_steps = 40000
        f_split = P.find_method('SplitFilter', 'evaluate', 'Filter', 'lib')
        f_join = P.find_method('JoinFilter', 'evaluate', 'Filter', 'lib', where='stdlib/filters/array.rs')
        for n in range(maxlen + 1):
            for pn in (1, 2):
                st = State()
                cs = sym_string(st, n); pat = sym_string(st, pn, 'p')
                sargs = Adt('SplitArgs', None, [expr_stub(str_value(pat), 'pattern')], ['pattern'])
                for s2, kind, val in ex.run(f_split, [st.ref(Adt('SplitFilter', None, [sargs], ['args'])), st.ref(str_value(cs)), st.ref(Opaque(('RT',)))], st):
                    ob.paths += 1; ob.reached()
                    def report(role, what, m):
                        s = model_string(m, cs); pv = model_string(m, pat)
                        exp = '[' + ']['.join(s.split(pv)) + ']' if s else ''
                        ob.violation(role, f'{what}: {s!r} | split: {pv!r}', {'input': s, 'separator': pv},
                                     {'kind': 'template', 'template': "{% assign r = s | split: p %}{% for x in r %}[{{ x }}]{% endfor %}|{{ s | split: p | join: p }}", 'globals': {'s': s, 'p': pv}},
                                     lambda r, e=exp, s=s: r.get('outcome') != 'ok' or r.get('output') != e + '|' + s)
                    if kind != 'ret' or val.variant != 'Ok':
                        report('split/fails', f'split ends with {kind} {val}', ob.decide(ex, s2.conds, z3.BoolVal(True))); continue
                    arr = s2.deref_all(val.items[0])
                    if not (isinstance(arr, Adt) and arr.variant == 'Array'):
                        report('split/not-an-array', f'split returns {arr}', ob.decide(ex, s2.conds, z3.BoolVal(True))); continue
                    items = [s2.deref_all(x) for x in s2.deref_all(arr.items[0]).items]
                    pieces = []
                    for it in items:
                        inner = it.items[0].items[0]
                        pieces.append(list(s2.deref_all(inner.items[0]).chars))
                    def build(ref_pieces):
                        if n == 0: return z3.BoolVal(len(pieces) == 0)
                        if len(ref_pieces) != len(pieces): return z3.BoolVal(False)
                        return z3.And(*[eq_chars(a, list(b)) for a, b in zip(pieces, ref_pieces)])
                    post = scan_spec(list(cs), list(pat), build) if n > 0 else z3.BoolVal(len(pieces) == 0)
                    m = ob.decide(ex, s2.conds, z3.Not(post))
                    if m is not None:
                        report('split/wrong-pieces', f'split returns {[model_string(m, p_) for p_ in pieces]}', m); continue
                    # law: join with the same separator is the identity
                    jargs = Adt('JoinArgs', None, [Some(expr_stub(str_value(pat), 'separator'))], ['separator'])
                    for s3, k3, v3 in ex.run(f_join, [s2.ref(Adt('JoinFilter', None, [jargs], ['args'])), s2.ref(arr), s2.ref(Opaque(('RT',)))], s2.clone()):
                        ob.paths += 1
                        res = result_string(s3, v3) if k3 == 'ret' else None
                        m = ob.decide(ex, s3.conds, z3.Not(eq_chars(res, list(cs))) if res is not None else z3.BoolVal(True))
                        if m is not None: report('split-join/not-identity', f'split then join gives {model_string(m, res) if res is not None else v3}', m)
                ob.sample({'len': n, 'separator_len': pn})
        ob.absorb(ex)


def py_truncatewords(s, n, ell):
    """reference: words are the pieces between single spaces; more than n words -> the first n joined by one space, then the ellipsis; negative n = no limit"""
    if n < 0: return s
    words = s.split(' ')
    if len(words) <= n: return s
    return ' '.join(words[:n]) + ell


def ob_truncatewords(chk, P, maxlen):
    with chk.obligation('truncatewords/strings', 'truncatewords: a string of at most `length` space-separated words is returned unchanged, a longer one is cut to its first `length` words '
                        '(joined by one space) followed by the ellipsis; no panic',
                        {'string': f'0..{maxlen} characters, each any Unicode scalar value', 'length': 'any i64', 'ellipsis': "absent ('...') or a string of 0..2 characters"}) as ob:
        ex = Executor(P, models_with([])); ex.seed = chk.seed; ex.max_steps = 40000
        fn = P.find_method('TruncateWordsFilter', 'evaluate', 'Filter', 'lib')
        for n in range(maxlen + 1):
            for ell_n in (None, 0, 2):
                st = State()
                cs = sym_string(st, n); es = sym_string(st, ell_n or 0, 'e')
                ln = z3.BitVec('len', 64)
                args = Adt('TruncateWordsArgs', None, [Some(expr_stub(value_scalar(scalar_int(Int(ln, 'i64'))), 'length')),
                                                       Some(expr_stub(str_value(es), 'ellipsis')) if ell_n is not None else NONE], ['length', 'ellipsis'])
                ell = list(es) if ell_n is not None else [ord('.')] * 3
                for s2, kind, val in ex.run(fn, [st.ref(Adt('TruncateWordsFilter', None, [args], ['args'])), st.ref(str_value(cs)), st.ref(Opaque(('RT',)))], st):
                    ob.paths += 1; ob.reached()
                    def report(role, what, m):
                        s = model_string(m, cs); l = m.eval(ln, model_completion=True).as_signed_long(); e = model_string(m, es) if ell_n is not None else '...'
                        exp = py_truncatewords(s, l, e)
                        sc = {'kind': 'template', 'template': '[{{ s | truncatewords: l' + (', e' if ell_n is not None else '') + ' }}]', 'globals': {'s': s, 'l': l, 'e': e}}
                        ob.violation(role, f'{what}: {s!r} | truncatewords: {l}' + (f', {e!r}' if ell_n is not None else ''), {'string': s, 'length': l, 'ellipsis': e, 'expected': exp}, sc,
                                     lambda r, x=exp: r.get('outcome') != 'ok' or r.get('output') != '[' + x + ']')
                    if kind == 'panic':
                        report('truncatewords/panic', f'truncatewords panics ({val})', ob.decide(ex, s2.conds, z3.BoolVal(True))); continue
                    res = result_string(s2, val)
                    if res is None:
                        report('truncatewords/error', f'truncatewords fails: {val}', ob.decide(ex, s2.conds, z3.BoolVal(True))); continue
                    good = []
                    for pat in itertools.product((False, True), repeat=n):          # which characters are spaces
                        shape = z3.And(*[(c == 32) if sp else (c != 32) for c, sp in zip(cs, pat)]) if n else z3.BoolVal(True)
                        words, cur = [], []
                        for c, sp in zip(cs, pat):
                            if sp: words.append(cur); cur = []
                            else: cur.append(c)
                        words.append(cur)
                        alts = [z3.And(z3.Or(ln < 0, ln >= len(words)), eq_chars(res, list(cs)))]
                        for k in range(len(words)):
                            exp = []
                            for i, w in enumerate(words[:k]):
                                if i: exp.append(32)
                                exp += w
                            alts.append(z3.And(ln == k, eq_chars(res, exp + ell)))
                        good.append(z3.And(shape, z3.Or(*alts)))
                    m = ob.decide(ex, s2.conds, z3.Not(z3.Or(*good)))
                    if m is not None:
                        got = ''.join(chr(m.eval(ch_expr(c), model_completion=True).as_long()) for c in res)
                        report('truncatewords/wrong-result', f'truncatewords returns {got!r}', m)
                ob.sample({'len': n, 'ellipsis_len': ell_n})
        ob.absorb(ex)


def ob_strip_law(chk, P, maxlen):
    with chk.obligation('strip-law/strings', 'strip equals lstrip applied to the result of rstrip (the three real bodies run on the same symbolic string)',
                        {'input': f'0..{maxlen} characters, each any Unicode scalar value'}) as ob:
        ex = Executor(P, models_with([])); ex.seed = chk.seed; ex.max_steps = 40000
        fs = {k: P.find_method(k, 'evaluate', 'Filter', 'lib') for k in ('StripFilter', 'LstripFilter', 'RstripFilter')}
        for n in range(maxlen + 1):
            st = State(); cs = sym_string(st, n)
            for s1, k1, v1 in ex.run(fs['StripFilter'], [st.ref(Adt('StripFilter', None, [])), st.ref(str_value(cs)), st.ref(Opaque(('RT',)))], st):
                r1 = result_string(s1, v1) if k1 == 'ret' else None
                for s2, k2, v2 in ex.run(fs['RstripFilter'], [s1.ref(Adt('RstripFilter', None, [])), s1.ref(str_value(cs)), s1.ref(Opaque(('RT',)))], s1.clone()):
                    r2 = result_string(s2, v2) if k2 == 'ret' else None
                    if r2 is None: continue
                    for s3, k3, v3 in ex.run(fs['LstripFilter'], [s2.ref(Adt('LstripFilter', None, [])), s2.ref(str_value(r2)), s2.ref(Opaque(('RT',)))], s2.clone()):
                        ob.paths += 1; ob.reached()
                        r3 = result_string(s3, v3) if k3 == 'ret' else None
                        bad = z3.BoolVal(True) if (r1 is None or r3 is None) else z3.Not(eq_chars(r1, r3))
                        m = ob.decide(ex, s3.conds, bad)
                        if m is not None:
                            s = model_string(m, cs)
                            ob.violation('strip-law/differs', f'strip differs from lstrip after rstrip on {s!r}', {'input': s},
                                         {'kind': 'template', 'template': '[{{ s | strip }}][{{ s | rstrip | lstrip }}]', 'globals': {'s': s}},
                                         lambda r, s=s: r.get('outcome') != 'ok' or r.get('output') != '[' + s.strip(WS_CHARS) + '][' + s.strip(WS_CHARS) + ']')
            ob.sample({'len': n})
        ob.absorb(ex)


def token_of(v):
    return value_token(v)


def ob_filter_chain(chk, P):
    with chk.obligation('FilterChain::evaluate/composition', 'the value of `entry | f1 | f2 | ...` is fn(...f2(f1(entry))): every filter receives exactly the previous result, in order; '
                        'the first failing filter (or a failing entry) ends the evaluation with its error',
                        {'filters': '0..4 abstract filters (each Err, Ok(nil) or Ok(a fresh value))', 'entry': 'abstract value, may fail'}) as ob:
        from mirsym.models import core as _core
        ex = Executor(P, models_with([])); ex.seed = chk.seed
        fn = P.find_method('FilterChain', 'evaluate', None, 'core')
        def mk_filter(i):
            errs = z3.Bool(f'f{i}_errs'); nils = z3.Bool(f'f{i}_nil')
            def h(ctx, me, args, st):
                m = method_of(ctx.callee)
                if m != 'evaluate': return None
                inp = st.deref_all(args[1])
                tok = token_of(inp)
                log_call(st, 'filter', (i, tok))
                def g():
                    for s2, e in ctx.ex.fork_bool(st, errs):
                        if e:
                            yield s2, 'ret', Err(Adt('LiquidError', None, [Opaque(('msg', f'filter {i}'))])); continue
                        for s3, nl in ctx.ex.fork_bool(s2, nils):      # a filter may legitimately produce nil (first of an empty array): the chain goes on
                            if nl: yield s3, 'ret', Ok(VALUE_NIL)
                            else: yield s3, 'ret', Ok(Abs('token', found_handler, ('F', i, tok)))
                return g()
            return Abs(f'filter{i}', h), errs, nils
        for k in range(0, 5):
            st = State()
            fs = [mk_filter(i) for i in range(k)]
            entry = expr_stub(Abs('token', found_handler, ('ENTRY',)), 'entry', True)
            self_ = st.ref(Adt('FilterChain', None, [entry, VecV([st.ref(f[0], True) for f in fs])], ['entry', 'filters']))
            for s2, kind, val in ex.run(fn, [self_, st.ref(Opaque(('RT',)))], st):
                ob.paths += 1; ob.reached()
                m = ob.decide(ex, s2.conds, z3.BoolVal(True))
                entry_err = z3.is_true(m.eval(z3.Bool('entry_errs'), model_completion=True))
                ferr = [z3.is_true(m.eval(f[1], model_completion=True)) for f in fs]
                fnil = [z3.is_true(m.eval(f[2], model_completion=True)) for f in fs]
                seen = [c[1] for c in calls(s2, 'filter')]
                want_calls = []; tok = ('ENTRY',); failed = entry_err
                if not entry_err:
                    for i in range(k):
                        want_calls.append((i, tok))
                        if ferr[i]: failed = True; break
                        tok = token_of(VALUE_NIL) if fnil[i] else ('F', i, tok)
                bad = None
                if kind == 'panic': bad = f'panics: {val}'
                elif seen != want_calls: bad = f'filters were called as {seen}, expected {want_calls}'
                elif failed != (val.variant == 'Err'): bad = f'result {val.variant} but a step failed={failed}'
                elif not failed and value_token_st(s2, val.items[0]) != tok: bad = f'result {val.items[0]!r}, expected {tok}'
                if bad:
                    sc = {'kind': 'template', 'template': "[{{ ' aXb ' | strip | downcase | append: '!' | replace: 'x', 'yy' | upcase }}][{{ 'a,b' | split: ',' | first | append: nope.x | upcase }}]", '_e': None}
                    ob.violation('FilterChain/composition', f'chain of {k} filters: {bad}', {'filters': k}, {'kind': 'template', 'template': "[{{ ' aXb ' | strip | downcase | append: '!' | replace: 'x', 'yy' | upcase }}][{{ e | first | default: 'none' | upcase }}]", 'globals': {'e': []}},
                                 lambda r: r.get('output') != '[AYYB!][NONE]')
            ob.sample({'filters': k})
        ob.absorb(ex)


def run(chk):
    P = chk.program(('core', 'lib'))
    ob_slice(chk, P, 5 if chk.tier == 'quick' else 6)
    ob_truncate(chk, P, 5 if chk.tier == 'quick' else 6)
    ob_simple_filters(chk, P, 5 if chk.tier == 'quick' else 6)
    ob_size(chk, P, 4)
    ob_default(chk, P, 3)
    ob_split_join(chk, P, 4 if chk.tier == 'quick' else 5)
    ob_truncatewords(chk, P, 5 if chk.tier == 'quick' else 6)
    ob_strip_law(chk, P, 4 if chk.tier == 'quick' else 5)
    ob_filter_chain(chk, P)
