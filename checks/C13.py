"""C13 -- string filters compute their documented function on every string (facets built so far: slice, filter chain)."""
import itertools
import z3
from mirsym.exec import Executor, State, Unsupported
from mirsym.values import *
from checks.common import *
from checks.renderables import expr_stub
from mirsym.models.strings import valid_char


def sym_string(st, n, name='c'):
    cs = [z3.BitVec(f'{name}{i}', 32) for i in range(n)]
    for c in cs: st.assume(valid_char(c))
    return cs


def model_string(m, cs):
    return ''.join(chr(m.eval(c, model_completion=True).as_long()) for c in cs)


def py_slice(s, off, ln):
    """reference (Ruby/Liquid semantics on characters): s[off, ln]; negative offsets count from the end; out of range -> ''"""
    n = len(s)
    if ln < 1: return None      # error
    if off < 0: off += n
    if off < 0 or off > n: return ''
    return s[off:off + ln]


def result_string(st, val):
    """Ok(Value::Scalar(Str(..))) -> list of chars (python ints / BV) ; None if not a string result"""
    if val.variant != 'Ok': return None
    v = val.items[0]
    if isinstance(v, Adt) and v.ty == 'Value' and v.variant == 'Scalar':
        inner = v.items[0].items[0]
        if inner.variant == 'Str': return list(st.deref_all(inner.items[0]).chars)
    return None


def ob_slice(chk, P, maxlen):
    with chk.obligation('slice/strings', "slice on a string returns the contiguous piece of at most `length` CHARACTERS starting at character `offset` (negative offsets count from the end, "
                        "out-of-range starts give the empty string), length < 1 is an error; no panic for any offset/length",
                        {'string': f'0..{maxlen} characters, each any Unicode scalar value', 'offset': 'any i64', 'length': 'absent or any i64'}) as ob:
        ex = Executor(P, models_with([])); ex.seed = chk.seed; ex.max_steps = 20000
        fn = P.find_method('SliceFilter', 'evaluate', 'Filter', 'lib')
        for n in range(maxlen + 1):
            for has_len in (False, True):
                st = State()
                cs = sym_string(st, n)
                off = z3.BitVec('off', 64); ln = z3.BitVec('len', 64)
                args = Adt('SliceArgs', None, [expr_stub(value_scalar(scalar_int(Int(off, 'i64'))), 'offset'),
                                               Some(expr_stub(value_scalar(scalar_int(Int(ln, 'i64'))), 'length')) if has_len else NONE], ['offset', 'length'])
                inp = value_scalar(Adt('ScalarCow', None, [Adt('ScalarCowEnum', 'Str', [StrV(cs, 'KStringCow')])]))
                for s2, kind, val in ex.run(fn, [st.ref(Adt('SliceFilter', None, [args], ['args'])), st.ref(inp), st.ref(Opaque(('RT',)))], st):
                    ob.paths += 1; ob.reached()
                    def report(role, what, m):
                        s = model_string(m, cs); o = m.eval(off, model_completion=True).as_signed_long(); l = m.eval(ln, model_completion=True).as_signed_long() if has_len else None
                        exp = py_slice(s, o, 1 if l is None else l)
                        sc = {'kind': 'template', 'template': '[{{ s | slice: o' + (', l' if has_len else '') + ' }}]', 'globals': {'s': s, 'o': o, 'l': l}}
                        ob.violation(role, f'{what}: {s!r} | slice: {o}' + (f', {l}' if has_len else ''), {'string': s, 'offset': o, 'length': l, 'expected': exp}, sc,
                                     lambda r, e=exp: (r.get('outcome') != 'err') if e is None else (r.get('outcome') != 'ok' or r.get('output') != '[' + e + ']'))
                    if kind == 'panic':
                        m = ob.decide(ex, s2.conds, z3.BoolVal(True))
                        report('slice/panic/' + ('overflow' if 'overflow' in str(val) else 'other'), f'slice panics ({val})', m); continue
                    lnv = ln if has_len else z3.BitVecVal(1, 64)
                    res = result_string(s2, val)
                    # specification, for every (offset, length) on this path
                    if res is None:
                        post = lnv < 1 if val.variant == 'Err' else z3.BoolVal(False)
                    else:
                        good = []
                        for a in range(n + 1):
                            for k in range(0, n - a + 1):
                                exp = cs[a:a + k]
                                if len(exp) != len(res): continue
                                same = z3.And(*[(x == y) if not isinstance(x, int) else (y == x) for x, y in zip(res, exp)]) if exp else z3.BoolVal(True)
                                if a < n or True:
                                    start_ok = z3.Or(off == a, off == a - n) if a < n else z3.Or(off == n, off == 0 if n == 0 else z3.BoolVal(False))
                                    start_ok = z3.Or(off == a, off == a - n) if n > 0 else (off == 0)
                                    if a == n and n > 0: start_ok = (off == n)
                                cnt_ok = (lnv == k) if k < n - a else (lnv >= n - a)
                                if k == 0 and n - a > 0: cnt_ok = z3.BoolVal(False)     # length >= 1 always takes at least one char when one is there
                                good.append(z3.And(start_ok, cnt_ok, same, lnv >= 1))
                        if len(res) == 0:
                            good.append(z3.And(z3.Or(off > n, off < -n), lnv >= 1))    # start out of range -> ''
                        post = z3.Or(*good) if good else z3.BoolVal(False)
                    m = ob.decide(ex, s2.conds, z3.Not(post))
                    if m is not None:
                        m_ascii = ob.decide(ex, s2.conds + [z3.ULT(c, 128) for c in cs], z3.Not(post))
                        mm = m_ascii if m_ascii is not None else m
                        got = ''.join(chr(mm.eval(c, model_completion=True).as_long()) if not isinstance(c, int) else chr(c) for c in res) if res is not None else val.variant
                        report('slice/wrong-piece' + ('' if m_ascii is not None else '/only-with-multibyte-characters'), f'slice returns {got!r}', mm)
                ob.sample({'len': n, 'has_length': has_len})
        ob.absorb(ex)


def py_truncate(s, length, ell):
    """reference (characters): strings longer than `length` are cut to max(length - len(ellipsis), 0) characters plus the ellipsis; negative length = no limit"""
    if length < 0: return s
    if len(s) <= length: return s
    keep = max(length - len(ell), 0)
    return s[:keep] + ell


def ob_truncate(chk, P, maxlen):
    with chk.obligation('truncate/strings', 'truncate counts CHARACTERS: a string of at most `length` characters is returned unchanged, a longer one is cut to max(length - |ellipsis|, 0) characters '
                        'followed by the ellipsis, so the result is never longer than max(length, |ellipsis|); no panic',
                        {'string': f'0..{maxlen} characters, each any Unicode scalar value (one grapheme per character: no combining marks)', 'length': 'any i64', 'ellipsis': "absent ('...') or a string of 0..2 characters"}) as ob:
        ex = Executor(P, models_with([])); ex.seed = chk.seed; ex.max_steps = 20000
        fn = P.find_method('TruncateFilter', 'evaluate', 'Filter', 'lib')
        ob.assumptions += ['grapheme clusters are single code points (inputs without combining marks / ZWJ / regional indicators)']
        for n in range(maxlen + 1):
            for ell_n in (None, 0, 1, 2):
                st = State()
                cs = sym_string(st, n); es = sym_string(st, ell_n or 0, 'e')
                ln = z3.BitVec('len', 64)
                args = Adt('TruncateArgs', None, [Some(expr_stub(value_scalar(scalar_int(Int(ln, 'i64'))), 'length')),
                                                  Some(expr_stub(value_scalar(Adt('ScalarCow', None, [Adt('ScalarCowEnum', 'Str', [StrV(es, 'KStringCow')])])), 'ellipsis')) if ell_n is not None else NONE], ['length', 'ellipsis'])
                inp = value_scalar(Adt('ScalarCow', None, [Adt('ScalarCowEnum', 'Str', [StrV(cs, 'KStringCow')])]))
                ell = list(es) if ell_n is not None else [ord('.')] * 3
                for s2, kind, val in ex.run(fn, [st.ref(Adt('TruncateFilter', None, [args], ['args'])), st.ref(inp), st.ref(Opaque(('RT',)))], st):
                    ob.paths += 1; ob.reached()
                    def report(role, what, m):
                        s = model_string(m, cs); l = m.eval(ln, model_completion=True).as_signed_long(); e = model_string(m, es) if ell_n is not None else '...'
                        exp = py_truncate(s, l, e)
                        sc = {'kind': 'template', 'template': '[{{ s | truncate: l' + (', e' if ell_n is not None else '') + ' }}]', 'globals': {'s': s, 'l': l, 'e': e}}
                        ob.violation(role, f'{what}: {s!r} | truncate: {l}' + (f', {e!r}' if ell_n is not None else ''), {'string': s, 'length': l, 'ellipsis': e, 'expected': exp}, sc,
                                     lambda r, x=exp: r.get('outcome') != 'ok' or r.get('output') != '[' + x + ']')
                    if kind == 'panic':
                        report('truncate/panic', f'truncate panics ({val})', ob.decide(ex, s2.conds, z3.BoolVal(True))); continue
                    res = result_string(s2, val)
                    if res is None:
                        report('truncate/error', f'truncate fails: {val}', ob.decide(ex, s2.conds, z3.BoolVal(True))); continue
                    # spec: unchanged iff n <= length or length < 0; else cs[:keep] + ell with keep = max(length - |ell|, 0)
                    def eqs(a, b):
                        if len(a) != len(b): return z3.BoolVal(False)
                        return z3.And(*[(x == y) if not (isinstance(x, int) and isinstance(y, int)) else z3.BoolVal(x == y) for x, y in zip(a, b)]) if a else z3.BoolVal(True)
                    good = [z3.And(z3.Or(ln < 0, ln >= n), eqs(res, list(cs)))]
                    for keep in range(0, n + 1):
                        cond_keep = (ln - len(ell) == keep) if keep > 0 else (ln - len(ell) <= 0)
                        good.append(z3.And(ln >= 0, ln < n, cond_keep, eqs(res, list(cs[:keep]) + ell)))
                    m = ob.decide(ex, s2.conds, z3.Not(z3.Or(*good)))
                    if m is not None:
                        # prefer an ASCII-only witness: the byte-vs-character finding needs a multi-byte character, anything else does not
                        ascii_only = [z3.ULT(c, 128) for c in list(cs) + list(es)]
                        m_ascii = ob.decide(ex, s2.conds + ascii_only, z3.Not(z3.Or(*good)))
                        mm = m_ascii if m_ascii is not None else m
                        got = ''.join(chr(mm.eval(c, model_completion=True).as_long()) if not isinstance(c, int) else chr(c) for c in res)
                        report('truncate/wrong-result' + ('' if m_ascii is not None else '/only-with-multibyte-characters'), f'truncate returns {got!r}', mm)
                ob.sample({'len': n, 'ellipsis_len': ell_n})
        ob.absorb(ex)


def run(chk):
    P = chk.program(('core', 'lib'))
    ob_slice(chk, P, 3 if chk.tier == 'quick' else 4)
    ob_truncate(chk, P, 3 if chk.tier == 'quick' else 4)
