"""C06 -- conditionals render exactly one branch, chosen by Liquid truth and comparison."""
import itertools
import z3
from mirsym.exec import Executor, State, Unsupported
from mirsym.values import *
from checks.common import *
from checks.renderables import expr_stub, cond_stub


def tpl_conf(sc):
    exp = sc['_expect']
    return lambda res: res.get('outcome') != 'ok' or res.get('output') != exp


# ------------------------------------------------------------------ Conditional::render_to
def ob_conditional(chk, P):
    with chk.obligation('Conditional::render_to/branch', 'if/unless render exactly one of {true branch, else branch, nothing}: the true branch iff condition == mode, else the else branch when present; '
                        'a failing condition or branch is returned as the error; the branch gets the caller\'s writer and runtime',
                        {'condition': 'abstract: true / false / error', 'mode': 'if and unless', 'else': 'present / absent'}) as ob:
        ex = Executor(P, models_with(registers_models())); ex.seed = chk.seed
        fn = P.find_method('Conditional', 'render_to', 'Renderable', 'lib')
        for mode in (True, False):
            for has_else in (False, True):
                st = State(); sink = SinkEnv('W', may_fail=False); penv = ParentEnv(())
                c, b, e = cond_stub('cond')
                ct, cf = ChildEnv('T', sink, 0, may_interrupt=False), ChildEnv('F', sink, 0, may_interrupt=False)
                self_ = st.ref(Adt('Conditional', None, [c, Bool(mode), mk_template(st, [ct]), Some(mk_template(st, [cf])) if has_else else NONE], ['condition', 'mode', 'if_true', 'if_false']))
                for s2, kind, val in ex.run(fn, [self_, st.ref(sink.abs(), True), st.ref(penv.abs())], st):
                    ob.paths += 1; ob.reached()
                    m = ob.decide(ex, s2.conds, z3.BoolVal(True))
                    cerr = z3.is_true(m.eval(e, model_completion=True)); cval = z3.is_true(m.eval(b, model_completion=True))
                    rendered = [c_[1][0] for c_ in calls(s2, 'child')]
                    scopes = [c_[1][1:] for c_ in calls(s2, 'child')]
                    if cerr: want = []
                    elif cval == mode: want = ['T']
                    else: want = ['F'] if has_else else []
                    bad = None
                    if kind == 'panic': bad = f'panics: {val}'
                    elif rendered != want: bad = f'rendered branches {rendered}, expected {want}'
                    elif cerr and val.variant != 'Err': bad = 'condition error swallowed'
                    elif any(sc_ != (('abs', 'parent:P'), 'Abs(sink:W)') for sc_ in scopes): bad = f'branch rendered with another runtime/writer: {scopes}'
                    else:
                        outs = s2.env.get('child_outcomes', ())
                        if (val.variant == 'Err') != (cerr or any(o[2] == 'err' for o in outs)): bad = f'result {val.variant} does not reflect condition/branch outcome'
                    if bad:
                        t = ('{% if x %}T{% else %}F{% endif %}' if has_else else '{% if x %}T{% endif %}') if mode else ('{% unless x %}T{% else %}F{% endunless %}' if has_else else '{% unless x %}T{% endunless %}')
                        exp = ''.join(('T' if True == mode else ('F' if has_else else '')) if xv else ('T' if False == mode else ('F' if has_else else '')) for xv in (True, False))
                        sc = {'kind': 'template', 'template': '{% assign x = true %}' + t + '{% assign x = false %}' + t, '_expect': exp}
                        ob.violation(f'Conditional/mode={mode}/else={has_else}', f'Conditional(mode={mode}, else={has_else}): {bad} [condition value={cval} error={cerr}]', {}, sc, tpl_conf(sc))
                ob.sample({'mode': mode, 'else': has_else})
        ob.absorb(ex)


# ------------------------------------------------------------------ Condition trees
def mk_tree(st, shape, leaves):
    """shape: nested tuples ('and', l, r) / ('or', l, r) / leaf index"""
    if isinstance(shape, int):
        return Adt('Condition', 'Existence', [leaves[shape]])
    op, l, r = shape
    return Adt('Condition', 'Conjunction' if op == 'and' else 'Disjunction', [st.ref(mk_tree(st, l, leaves), True), st.ref(mk_tree(st, r, leaves), True)])


def py_eval(shape, vals, order):
    """reference: left-to-right short-circuit; vals[i] in (True, False, 'err'); records evaluation order"""
    if isinstance(shape, int):
        order.append(shape); return vals[shape]
    op, l, r = shape
    a = py_eval(l, vals, order)
    if a == 'err': return 'err'
    if op == 'and' and not a: return False
    if op == 'or' and a: return True
    return py_eval(r, vals, order)


SHAPES = [0, ('and', 0, 1), ('or', 0, 1), ('or', 0, ('and', 1, 2)), ('and', ('and', 0, 1), 2), ('or', ('or', 0, 1), 2), ('or', ('and', 0, 1), 2), ('or', ('and', 0, 1), ('and', 2, 3))]


def atom_stub(i):
    """ExistenceCondition stub: evaluate -> solver-chosen bool or error"""
    b = z3.Bool(f'atom{i}'); e = z3.Bool(f'atom{i}_err')
    def handler(ctx, me, args, st):
        if method_of(ctx.callee) != 'evaluate': return None
        log_call(st, 'atom', i)
        def g():
            for s1, er in ctx.ex.fork_bool(st, e):
                if er: yield s1, 'ret', Err(Adt('LiquidError', None, [Opaque(('msg', f'atom{i}'))])); continue
                for s2, v in ctx.ex.fork_bool(s1, b): yield s2, 'ret', Ok(Bool(v))
        return g()
    return Abs(f'atom{i}', handler), b, e


def ob_condition_tree(chk, P):
    with chk.obligation('Condition::evaluate/and-or', 'Conjunction is &&, Disjunction is ||, evaluated left to right with short-circuit; the first error is returned and nothing after it is evaluated',
                        {'trees': f'{len(SHAPES)} shapes up to 4 atoms', 'atoms': 'abstract: true / false / error'}) as ob:
        ex = Executor(P, models_with([])); ex.seed = chk.seed
        fn = P.find_method('Condition', 'evaluate', None, 'lib')
        for shape in SHAPES:
            st = State()
            atoms = [atom_stub(i) for i in range(4)]
            tree = mk_tree(st, shape, [a[0] for a in atoms])
            for s2, kind, val in ex.run(fn, [st.ref(tree), st.ref(Opaque(('RT',)))], st):
                ob.paths += 1; ob.reached()
                m = ob.decide(ex, s2.conds, z3.BoolVal(True))
                vals = ['err' if z3.is_true(m.eval(a[2], model_completion=True)) else z3.is_true(m.eval(a[1], model_completion=True)) for a in atoms]
                order = []
                want = py_eval(shape, vals, order)
                got_order = [c[1] for c in calls(s2, 'atom')]
                got = 'panic' if kind == 'panic' else ('err' if val.variant == 'Err' else val.items[0].concrete())
                if got != want or got_order != order:
                    def render_shape(s):
                        if isinstance(s, int): return f'v{s}'
                        return f'{render_shape(s[1])} {s[0]} {render_shape(s[2])}'
                    sc = and_or_scenario()
                    ob.violation('Condition::evaluate/and-or', f'{shape} with atoms {vals}: result {got} after evaluating {got_order}; expected {want} after {order}', {'shape': repr(shape), 'atoms': repr(vals)}, sc, tpl_conf(sc))
            ob.sample({'shape': repr(shape)})
        ob.absorb(ex)


def and_or_scenario():
    """all truth assignments of `a or b and c`, `a and b or c`, `a and b and c`, `a or b or c` through templates"""
    t = ''; exp = ''
    for a, b, c in itertools.product((True, False), repeat=3):
        t += f'{{% assign a = {str(a).lower()} %}}{{% assign b = {str(b).lower()} %}}{{% assign c = {str(c).lower()} %}}'
        for expr, f in (('a or b and c', lambda: a or (b and c)), ('a and b or c', lambda: (a and b) or c), ('a and b and c', lambda: a and b and c), ('a or b or c', lambda: a or b or c)):
            t += '{% if ' + expr + ' %}1{% else %}0{% endif %}'
            exp += '1' if f() else '0'
    # short-circuit: the right operand must not be evaluated (it would fail)
    t += "{% if true or missing.deep == 1 %}1{% else %}0{% endif %}{% if false and missing.deep == 1 %}1{% else %}0{% endif %}{% if false or true or missing.deep == 1 %}1{% else %}0{% endif %}"
    exp += '101'
    return {'kind': 'template', 'template': t, '_expect': exp}


# ------------------------------------------------------------------ parse_condition grouping
def py_parse(tokens):
    """reference grammar: cond := conj ('or' conj)* ; conj := atom ('and' atom)* ; atom := value (cmp value)?   -> tree or 'err'"""
    pos = [0]
    CMP = ('==', '!=', '<>', '<', '>', '<=', '>=', 'contains')
    def peek(): return tokens[pos[0]] if pos[0] < len(tokens) else None
    def nxt():
        t = peek(); pos[0] += 1; return t
    def atom():
        t = nxt()
        if t is None or t[0] != 'value': raise ValueError
        p = peek()
        if p is not None and p[0] == 'word' and p[1] in CMP:
            nxt(); r = nxt()
            if r is None or r[0] != 'value': raise ValueError
            return ('bin', t[1], '!=' if p[1] == '<>' else p[1], r[1])
        return ('ex', t[1])
    def conj():
        l = atom()
        while peek() == ('word', 'and'):
            nxt(); r = atom(); l = ('and', l, r)
        return l
    try:
        l = conj()
        while peek() is not None:
            t = nxt()
            if t != ('word', 'or'): raise ValueError
            r = conj(); l = ('or', l, r)
        return l
    except ValueError:
        return 'err'


def flatten(t):
    """homogeneous and/or chains evaluate identically whichever way they nest (left-to-right short-circuit): compare modulo associativity"""
    if not isinstance(t, tuple) or t[0] not in ('and', 'or'): return t
    op = t[0]; items = []
    def walk(x):
        if isinstance(x, tuple) and x[0] == op: walk(x[1]); walk(x[2])
        else: items.append(flatten(x))
    walk(t)
    return (op,) + tuple(items)


OPS = {'Equals': '==', 'NotEquals': '!=', 'LessThan': '<', 'GreaterThan': '>', 'LessThanEquals': '<=', 'GreaterThanEquals': '>=', 'Contains': 'contains'}


def tree_of(st, v):
    v = st.deref_all(v)
    if v.variant == 'Existence': return ('ex', st.deref_all(v.items[0].items[0]).data)
    if v.variant == 'Binary':
        b = v.items[0]
        return ('bin', st.deref_all(b.items[0]).data, OPS[b.items[1].variant], st.deref_all(b.items[2]).data)
    return ('and' if v.variant == 'Conjunction' else 'or', tree_of(st, v.items[0]), tree_of(st, v.items[1]))


def token_lists(max_atoms):
    vals = [('value', f'v{i}') for i in range(8)]
    out = []
    for n in range(1, max_atoms + 1):
        for kinds in itertools.product((0, 1), repeat=n):          # atom: bare value / comparison
            for conns in itertools.product(('and', 'or'), repeat=n - 1):
                toks = []; vi = 0
                for i, k in enumerate(kinds):
                    if i: toks.append(('word', conns[i - 1]))
                    toks.append(vals[vi]); vi += 1
                    if k:
                        toks.append(('word', ['==', '<', '>=', 'contains', '<>'][(i + n) % 5])); toks.append(vals[vi]); vi += 1
                out.append(toks)
    # malformed streams
    out += [[], [('word', 'and')], [vals[0], ('word', 'and')], [vals[0], ('word', '==')], [vals[0], vals[1]], [vals[0], ('word', 'or'), ('word', 'or'), vals[1]],
            [vals[0], ('word', 'xor'), vals[1]], [vals[0], ('word', '=='), vals[1], ('word', '=='), vals[2]]]
    return out


def ob_parse_condition(chk, P, max_atoms):
    with chk.obligation('parse_condition/grouping', "the condition parser builds the tree of the grammar cond := conj ('or' conj)*, conj := atom ('and' atom)*, atom := value (cmp value)? -- "
                        "'and' binds tighter than 'or' (trees compared modulo associativity of homogeneous chains, which evaluate alike), every comparison operator maps to its own variant; malformed token streams are errors, never panics",
                        {'token streams': f'all well-formed streams with up to {max_atoms} atoms (bare or comparison) x all and/or connective choices, plus 8 malformed streams'}) as ob:
        ex = Executor(P, models_with([])); ex.seed = chk.seed
        fn = P.find(r'^fn if_block::parse_condition\(', 'lib')
        ob.stubs += ['TagTokenIter/TagToken: abstract token stream (value / word tokens); token error construction opaque']
        for toks in token_lists(max_atoms):
            st = State(); ts = TokenStream(toks)
            want = py_parse(toks)
            outs = list(ex.run(fn, [ts.abs()], st))
            ob.paths += len(outs); ob.reached()
            bad = None
            if len(outs) != 1: bad = f'{len(outs)} outcomes'
            else:
                s2, kind, val = outs[0]
                if kind == 'panic': bad = f'panics: {val}'
                elif val.variant == 'Err': 
                    if want != 'err': bad = f'rejected, expected {want}'
                else:
                    got = tree_of(s2, val.items[0])
                    if want == 'err': bad = f'accepted as {got}, expected a parse error'
                    elif flatten(got) != flatten(want): bad = f'parsed as {got}, expected {want}'
            if bad:
                sc = and_or_scenario()
                ob.violation('parse_condition/grouping', f'tokens {[t[1] for t in toks]}: {bad}', {'tokens': repr(toks)}, sc, tpl_conf(sc))
        ob.sample({'example': [t[1] for t in token_lists(3)[10]]})
        ob.absorb(ex)


# ------------------------------------------------------------------ BinaryCondition / ExistenceCondition
def ob_binary(chk, P):
    with chk.obligation('BinaryCondition::evaluate/operators', 'each comparison operator yields the corresponding relation of the value model on the two operand values (integers x integers, integers x floats), '
                        'operands evaluated left then right, operand errors returned',
                        {'operands': 'all pairs of {i64, f64} x {i64, f64} values', 'operators': '== != < > <= >='}) as ob:
        ex = Executor(P, models_with([])); ex.seed = chk.seed
        fn = P.find_method('BinaryCondition', 'evaluate', None, 'lib')
        a = z3.BitVec('a', 64); b = z3.BitVec('b', 64); fb = z3.FP('fb', z3.Float64()); fa_ = z3.FP('fa', z3.Float64())
        for lk, rk in (('int', 'int'), ('int', 'float'), ('float', 'int'), ('float', 'float')):
            for opname, rel in (('Equals', '=='), ('NotEquals', '!='), ('LessThan', '<'), ('GreaterThan', '>'), ('LessThanEquals', '<='), ('GreaterThanEquals', '>=')):
                st = State()
                lv = value_scalar(scalar_int(Int(a, 'i64'))) if lk == 'int' else value_scalar(scalar_float(Float(fa_)))
                lh = expr_stub(lv, 'lh', True)
                rv = value_scalar(scalar_int(Int(b, 'i64'))) if rk == 'int' else value_scalar(scalar_float(Float(fb)))
                rh = expr_stub(rv, 'rh', True)
                self_ = st.ref(Adt('BinaryCondition', None, [lh, Adt('ComparisonOperator', opname, []), rh], ['lh', 'comparison', 'rh']))
                for s2, kind, val in ex.run(fn, [self_, st.ref(Opaque(('RT',)))], st):
                    ob.paths += 1; ob.reached()
                    if kind == 'panic':
                        ob.violation(f'BinaryCondition/{opname}/panic', f'{opname} panics: {val}', {}, ops_scenario(), tpl_conf(ops_scenario())); continue
                    m0 = ob.decide(ex, s2.conds, z3.BoolVal(True))
                    lerr = z3.is_true(m0.eval(z3.Bool('lh_errs'), model_completion=True)); rerr = z3.is_true(m0.eval(z3.Bool('rh_errs'), model_completion=True))
                    ev = [c[1][0] for c in calls(s2, 'expr')]
                    if lerr or rerr:
                        if val.variant != 'Err' or ev != (['lh'] if lerr else ['lh', 'rh']):
                            ob.violation(f'BinaryCondition/{opname}/operand-error', f'{opname}: operand error not returned or evaluation order wrong: {val.variant}, evaluated {ev}', {}, ops_scenario(), tpl_conf(ops_scenario()))
                        continue
                    if val.variant != 'Ok':
                        ob.violation(f'BinaryCondition/{opname}/spurious-error', f'{opname} fails on numbers', {}, ops_scenario(), tpl_conf(ops_scenario())); continue
                    r = val.items[0].e
                    if rk == 'int' and lk == 'int':
                        exp = {'==': a == b, '!=': a != b, '<': a < b, '>': a > b, '<=': a <= b, '>=': a >= b}[rel]
                    else:
                        fa = z3.fpSignedToFP(z3.RNE(), a, z3.Float64()) if lk == 'int' else fa_
                        fbb = z3.fpSignedToFP(z3.RNE(), b, z3.Float64()) if rk == 'int' else fb
                        exp = {'==': z3.fpEQ(fa, fbb), '!=': z3.Not(z3.fpEQ(fa, fbb)), '<': z3.fpLT(fa, fbb), '>': z3.fpGT(fa, fbb), '<=': z3.fpLEQ(fa, fbb), '>=': z3.fpGEQ(fa, fbb)}[rel]
                    m = ob.decide(ex, s2.conds, r != exp)
                    if m is not None:
                        av = m.eval(a, model_completion=True).as_signed_long() if lk == 'int' else fp_to_float(m.eval(fa_, model_completion=True))
                        bv = m.eval(b, model_completion=True).as_signed_long() if rk == 'int' else fp_to_float(m.eval(fb, model_completion=True))
                        sc = ops_scenario()
                        ob.violation(f'BinaryCondition/{opname}', f'{av} {rel} {bv} evaluates to {m.eval(r, model_completion=True)}', {'a': av, 'b': str(bv)}, sc, tpl_conf(sc))
                ob.sample({'operator': opname, 'lhs': lk, 'rhs': rk})
        ob.absorb(ex)


def ob_binary_values(chk, P):
    """== / != / contains beyond numbers: strings against blank and empty, arrays against arrays, membership in arrays and strings"""
    with chk.obligation('BinaryCondition::evaluate/values', "== on arrays holds exactly for equal length and pairwise equal elements; a string equals `blank` exactly when it consists of whitespace "
                        "(any Unicode white space) and `empty` exactly when it has no characters; `contains` on an array is membership by value equality (an integer is not a string that prints alike), "
                        "on a string it is the substring test",
                        {'strings': '0..2 characters, each any Unicode scalar value', 'arrays': '0..2 elements, integers (any i64) or one-character strings', 'operators': '== != contains'}) as ob:
        from checks.C13 import sym_string, str_value
        from mirsym.models.strings import is_whitespace_expr
        ex = Executor(P, models_with([])); ex.seed = chk.seed; ex.max_steps = 60000
        fn = P.find_method('BinaryCondition', 'evaluate', None, 'lib')
        def run_case(name, lv, op, rv, expected, st, scen):
            lh = expr_stub(lv, 'lh'); rh = expr_stub(rv, 'rh')
            self_ = st.ref(Adt('BinaryCondition', None, [lh, Adt('ComparisonOperator', op, []), rh], ['lh', 'comparison', 'rh']))
            for s2, kind, val in ex.run(fn, [self_, st.ref(Opaque(('RT',)))], st):
                ob.paths += 1; ob.reached()
                if kind != 'ret' or val.variant != 'Ok':
                    m = ob.decide(ex, s2.conds, z3.BoolVal(True))
                    sc, conf = scen(m)
                    ob.violation(f'values/{name}/fails', f'{name}: {kind} {val}', {}, sc, conf); continue
                r = val.items[0]
                re_ = r.e if isinstance(r, Bool) else z3.BoolVal(bool(r))
                exp = expected if isinstance(expected, z3.ExprRef) else z3.BoolVal(expected)
                m = ob.decide(ex, s2.conds, re_ != exp)
                if m is not None:
                    sc, conf = scen(m)
                    ob.violation(f'values/{name}', f'{name}: the condition is {m.eval(re_, model_completion=True)}, the value model says {m.eval(exp, model_completion=True)}', {}, sc, conf)
        def tpl(cond, g, want):
            sc = {'kind': 'template', 'template': '{% if ' + cond + ' %}1{% else %}0{% endif %}', 'globals': g}
            return sc, (lambda r, w=want: r.get('outcome') != 'ok' or r.get('output') != ('1' if w else '0'))
        # strings against blank / empty
        for n in range(3):
            for state in ('Blank', 'Empty'):
                for side in ('left', 'right'):
                    st = State(); cs = sym_string(st, n)
                    ws = z3.And(*[is_whitespace_expr(c) for c in cs]) if cs else z3.BoolVal(True)
                    expected = ws if state == 'Blank' else z3.BoolVal(n == 0)
                    sv = str_value(cs); stv = Adt('Value', 'State', [Adt('State', state, [])])
                    def scen(m, cs=cs, state=state, side=side):
                        s_ = ''.join(chr(m.eval(c, model_completion=True).as_long()) for c in cs)
                        want = (s_.strip() == '' and all(ch.isspace() or ord(ch) in (0x85,) for ch in s_)) if state == 'Blank' else (s_ == '')
                        lit = state.lower()
                        return tpl(f's == {lit}' if side == 'left' else f'{lit} == s', {'s': s_}, want)
                    run_case(f'string-vs-{state.lower()}', sv if side == 'left' else stv, 'Equals', stv if side == 'left' else sv, expected, st, scen)
        # arrays against arrays
        def arr(vals): return Adt('Value', 'Array', [VecV(vals, 'Vec')])
        for na in range(3):
            for nb in range(3):
                st = State()
                xs = [z3.BitVec(f'x{i}', 64) for i in range(na)]; ys = [z3.BitVec(f'y{i}', 64) for i in range(nb)]
                A = arr([value_scalar(scalar_int(Int(x, 'i64'))) for x in xs]); B = arr([value_scalar(scalar_int(Int(y, 'i64'))) for y in ys])
                eq = z3.And(*[x == y for x, y in zip(xs, ys)]) if (na == nb and na) else z3.BoolVal(na == nb)
                def scen(m, xs=xs, ys=ys, neg=False):
                    a_ = [m.eval(x, model_completion=True).as_signed_long() for x in xs]; b_ = [m.eval(y, model_completion=True).as_signed_long() for y in ys]
                    return tpl('a == b', {'a': a_, 'b': b_}, a_ == b_)
                run_case('array-equality', A, 'Equals', B, eq, st.clone(), scen)
                def scen2(m, xs=xs, ys=ys):
                    a_ = [m.eval(x, model_completion=True).as_signed_long() for x in xs]; b_ = [m.eval(y, model_completion=True).as_signed_long() for y in ys]
                    return tpl('a != b', {'a': a_, 'b': b_}, a_ != b_)
                run_case('array-inequality', A, 'NotEquals', B, z3.Not(eq), st.clone(), scen2)
        # membership
        for na in range(3):
            st = State()
            xs = [z3.BitVec(f'x{i}', 64) for i in range(na)]; y = z3.BitVec('y', 64); c = z3.BitVec('pc', 32); st.assume(z3.And(z3.UGE(c, 48), z3.ULE(c, 57)))
            A = arr([value_scalar(scalar_int(Int(x, 'i64'))) for x in xs])
            def scen(m, xs=xs):
                a_ = [m.eval(x, model_completion=True).as_signed_long() for x in xs]; y_ = m.eval(y, model_completion=True).as_signed_long()
                return tpl('a contains y', {'a': a_, 'y': y_}, y_ in a_)
            run_case('array-contains-integer', A, 'Contains', value_scalar(scalar_int(Int(y, 'i64'))), z3.Or(*[x == y for x in xs]) if xs else z3.BoolVal(False), st.clone(), scen)
            def scen3(m, xs=xs):
                a_ = [m.eval(x, model_completion=True).as_signed_long() for x in xs]; p_ = chr(m.eval(c, model_completion=True).as_long())
                if a_: a_[-1] = int(p_)      # the comparison of printed forms is abstract in the model: make an element print exactly as the probe
                return tpl('a contains p', {'a': a_, 'p': p_}, False)
            # a one-digit string is never a member of an array of integers, even when an element prints as that digit
            run_case('array-contains-string', A, 'Contains', str_value([c]), z3.BoolVal(False), st.clone(), scen3)
        for n in range(3):
            for pn in range(3):
                st = State(); cs = sym_string(st, n); ps = sym_string(st, pn, 'p')
                occ = [z3.And(*[cs[i + k] == ps[k] for k in range(pn)]) if pn else z3.BoolVal(True) for i in range(0, n - pn + 1)]
                expected = z3.Or(*occ) if occ else z3.BoolVal(False)
                def scen(m, cs=cs, ps=ps):
                    s_ = ''.join(chr(m.eval(x, model_completion=True).as_long()) for x in cs); p_ = ''.join(chr(m.eval(x, model_completion=True).as_long()) for x in ps)
                    return tpl('s contains p', {'s': s_, 'p': p_}, p_ in s_)
                run_case('string-contains', str_value(cs), 'Contains', str_value(ps), expected, st, scen)
        ob.absorb(ex)


def ops_scenario():
    t = ''; exp = ''
    pool = [(1, 2), (2, 1), (2, 2), (-1, 1), (1, 1.5), (2, 2.0), (3, 2.5), (1.5, 2), (2.5, 2), (2.0, 2), (1.5, 2.5), (2.5, 1.5)]
    for x, y in pool:
        for op, f in (('==', lambda: x == y), ('!=', lambda: x != y), ('<', lambda: x < y), ('>', lambda: x > y), ('<=', lambda: x <= y), ('>=', lambda: x >= y), ('<>', lambda: x != y)):
            t += '{% if ' + f'{x} {op} {y}' + ' %}1{% else %}0{% endif %}'
            exp += '1' if f() else '0'
    # contains
    t += "{% if 'hello' contains 'ell' %}1{% else %}0{% endif %}{% if 'hello' contains 'xyz' %}1{% else %}0{% endif %}{% if arr contains 2 %}1{% else %}0{% endif %}{% if arr contains 9 %}1{% else %}0{% endif %}{% if obj contains 'k' %}1{% else %}0{% endif %}{% if obj contains 'z' %}1{% else %}0{% endif %}"
    exp += '101010'
    return {'kind': 'template', 'template': t, 'globals': {'arr': [1, 2, 3], 'obj': {'k': 1}}, '_expect': exp}


def ob_existence(chk, P):
    with chk.obligation('ExistenceCondition::evaluate/truthiness', 'a bare value is true unless it is nil or false; an undefined name counts as nil (no error); 0, empty strings and empty arrays are true',
                        {'values': 'nil, true, false, every i64, every f64, empty / non-empty string, empty / non-empty array, undefined'}) as ob:
        ex = Executor(P, models_with([])); ex.seed = chk.seed
        fn = P.find_method('ExistenceCondition', 'evaluate', None, 'lib')
        i = z3.BitVec('i', 64); f = z3.FP('f', z3.Float64()); bb = z3.Bool('bv')
        cases = [('nil', VALUE_NIL, z3.BoolVal(False)), ('bool', value_scalar(scalar_bool(Bool(bb))), bb), ('int', value_scalar(scalar_int(Int(i, 'i64'))), z3.BoolVal(True)),
                 ('float', value_scalar(scalar_float(Float(f))), z3.BoolVal(True)), ('empty-string', value_scalar(scalar_str('')), z3.BoolVal(True)), ('string', value_scalar(scalar_str('x')), z3.BoolVal(True)),
                 ('empty-array', Adt('Value', 'Array', [VecV([])]), z3.BoolVal(True)), ('array', Adt('Value', 'Array', [VecV([VALUE_NIL])]), z3.BoolVal(True)), ('undefined', None, z3.BoolVal(False))]
        for name, v, exp in cases:
            st = State()
            if v is None:
                def handler(ctx, me, args, s):
                    m = method_of(ctx.callee)
                    if m == 'try_evaluate': return ret(s, NONE)
                    if m == 'evaluate': return ret(s, Err(Adt('LiquidError', None, [Opaque(('msg', 'unknown variable'))])))
                    return None
                lh = Abs('expr:undefined', handler)
            else:
                lh = expr_stub(v, 'lh')
            self_ = st.ref(Adt('ExistenceCondition', None, [lh], ['lh']))
            for s2, kind, val in ex.run(fn, [self_, st.ref(Opaque(('RT',)))], st):
                ob.paths += 1; ob.reached()
                sc = truth_scenario()
                if kind == 'panic' or val.variant != 'Ok':
                    ob.violation(f'ExistenceCondition/{name}', f'bare {name} value: {kind} {val}', {}, sc, tpl_conf(sc)); continue
                m = ob.decide(ex, s2.conds, val.items[0].e != exp)
                if m is not None:
                    ob.violation(f'ExistenceCondition/{name}', f'bare {name} value is {m.eval(val.items[0].e, model_completion=True)}', {}, sc, tpl_conf(sc))
            ob.sample({'value': name})
        ob.absorb(ex)


def truth_scenario():
    vals = [('nil', False), ('true', True), ('false', False), ('0', True), ('-1', True), ('0.0', True), ("''", True), ("'x'", True), ('earr', True), ('arr', True), ('undefined_name', False), ('obj', True)]
    t = ''.join('{% if ' + v + ' %}1{% else %}0{% endif %}' for v, _ in vals)
    return {'kind': 'template', 'template': t, 'globals': {'earr': [], 'arr': [0], 'obj': {}}, '_expect': ''.join('1' if b else '0' for _, b in vals)}


# ------------------------------------------------------------------ case / when
def ob_case(chk, P):
    with chk.obligation('Case::render_to/first-match', 'case renders exactly the first when-arm having a value equal to the target (arms and values in order), else the else branch, else nothing; '
                        'evaluation stops at the match; errors are returned',
                        {'target, arm values': 'symbolic i64', 'arms': '2 arms with 1..2 values each', 'else': 'present / absent'}) as ob:
        ex = Executor(P, models_with(registers_models())); ex.seed = chk.seed
        fn = P.find_method('Case', 'render_to', 'Renderable', 'lib')
        tv = z3.BitVec('target', 64)
        for has_else in (False, True):
            for arm_sizes in ((1, 1), (2, 1), (1, 2)):
                st = State(); sink = SinkEnv('W', may_fail=False); penv = ParentEnv(())
                arms = []; vals = []; kids = []
                for ai, n in enumerate(arm_sizes):
                    exprs = []
                    for vi in range(n):
                        x = z3.BitVec(f'w{ai}_{vi}', 64); vals.append((ai, x))
                        exprs.append(expr_stub(value_scalar(scalar_int(Int(x, 'i64'))), f'w{ai}_{vi}'))
                    kid = ChildEnv(f'arm{ai}', sink, 0, may_err=False, may_interrupt=False); kids.append(kid)
                    arms.append(Adt('CaseOption', None, [VecV(exprs), mk_template(st, [kid])], ['args', 'template']))
                ke = ChildEnv('else', sink, 0, may_err=False, may_interrupt=False)
                self_ = st.ref(Adt('Case', None, [expr_stub(value_scalar(scalar_int(Int(tv, 'i64'))), 'target'), VecV(arms), Some(mk_template(st, [ke])) if has_else else NONE], ['target', 'cases', 'else_block']))
                for s2, kind, val in ex.run(fn, [self_, st.ref(sink.abs(), True), st.ref(penv.abs())], st):
                    ob.paths += 1; ob.reached()
                    sc = case_scenario()
                    if kind == 'panic':
                        ob.violation('Case/panic', f'case panics: {val}', {}, sc, tpl_conf(sc)); continue
                    rendered = [c[1][0] for c in calls(s2, 'child')]
                    # expected, symbolically: first arm index whose any value equals target
                    conds = []
                    for ai in range(len(arm_sizes)):
                        hit = z3.Or(*[x == tv for (a_, x) in vals if a_ == ai])
                        earlier = z3.And(*[z3.Not(z3.Or(*[x == tv for (a_, x) in vals if a_ == aj])) for aj in range(ai)]) if ai else z3.BoolVal(True)
                        conds.append((f'arm{ai}', z3.And(earlier, hit)))
                    none = z3.And(*[z3.Not(x == tv) for (_, x) in vals])
                    exp_name = z3.BoolVal(False)
                    for nm, c in conds:
                        if rendered == [nm]: exp_name = c
                    if rendered == (['else'] if has_else else []): exp_name = none
                    m = ob.decide(ex, s2.conds, z3.Not(exp_name))
                    if m is not None or val.variant != 'Ok':
                        ob.violation('Case/first-match', f'case rendered {rendered} (result {val.variant}) for target {m.eval(tv, model_completion=True) if m else "?"} and when-values '
                                     f'{[(a_, str(m.eval(x, model_completion=True)) if m else "?") for a_, x in vals]}', {}, sc, tpl_conf(sc))
                ob.sample({'arms': arm_sizes, 'else': has_else})
        ob.absorb(ex)


def case_scenario():
    t = ''; exp = ''
    for x in (1, 2, 3, 4, 5):
        t += '{% assign x = ' + str(x) + ' %}{% case x %}{% when 1 %}a{% when 2, 3 %}b{% when 3 or 4 %}c{% when 1 %}d{% else %}e{% endcase %}{% case x %}{% when 5 %}f{% endcase %}|'
        exp += {1: 'a', 2: 'b', 3: 'b', 4: 'c', 5: 'e'}[x] + ('f' if x == 5 else '') + '|'
    return {'kind': 'template', 'template': t, '_expect': exp}


def run(chk):
    P = chk.program(('core', 'lib'))
    ob_conditional(chk, P)
    ob_condition_tree(chk, P)
    ob_parse_condition(chk, P, 3 if chk.tier == 'quick' else 4)
    ob_binary(chk, P)
    ob_binary_values(chk, P)
    ob_existence(chk, P)
    ob_case(chk, P)
    # translator validation: the reference scenarios themselves must hold natively on the unchanged tree
    for name, sc in (('and/or truth table', and_or_scenario()), ('operator table', ops_scenario()), ('truthiness table', truth_scenario()), ('case table', case_scenario())):
        chk.validate(name, sc['_expect'], {k: v for k, v in sc.items() if not k.startswith('_')}, lambda r: r.get('output'))
