"""C19 -- eager, lazy and on-demand partial compilation are observationally equivalent.

The real (generic) MIR of EagerCompiler/LazyCompiler/OnDemandCompiler::compile and of the three stores' contains / try_get / get
is executed over an abstract partial source whose two names are, independently and by the solver's choice, absent, present and
valid, or present and broken; `parser::parse` is a stub whose outcome is a function of the source text.  For every history of
store calls the three policies must answer alike, and as the reference says; building a store never fails."""
import itertools
import z3
from mirsym.exec import Executor, State, Unsupported
from mirsym.values import *
from mirsym.models.iters import mk_list_iter
from checks.common import *

NAMES = ['a', 'a.liquid']      # a name and its '.liquid' sibling: fallbacks between related names are observable
ABSENT, VALID, BROKEN, EMPTY = 0, 1, 2, 3          # EMPTY: present, its source is the empty string (which parses to the empty template)


def status(n): return z3.Int(f'status_{n}')


def fork_status(ex, st, n):
    key = ('status', n)
    if key in st.env:
        yield st, st.env[key]; return
    for k in (ABSENT, VALID, BROKEN, EMPTY):
        s2 = st.clone(); s2.assume(status(n) == k); s2.env[key] = k
        yield s2, k


def source_object():
    def handler(ctx, me, args, st):
        m = method_of(ctx.callee)
        ex = ctx.ex
        def name_of(a):
            s = st.deref_all(a)
            c = s.concrete() if isinstance(s, StrV) else None
            if c is None: raise Unsupported(f'partial name {s!r}')
            return c
        if m == 'contains':
            n = name_of(args[1])
            def g():
                if n not in NAMES:
                    yield st, 'ret', Bool(False); return
                for s2, k in fork_status(ex, st, n): yield s2, 'ret', Bool(k != ABSENT)
            return g()
        if m == 'names':
            def g():
                def go(s_, i, acc):
                    if i == len(NAMES):
                        yield s_, 'ret', VecV([s_.ref(StrV(x, 'str')) for x in acc], 'Vec'); return
                    for s2, k in fork_status(ex, s_, NAMES[i]):
                        yield from go(s2, i + 1, acc + ([NAMES[i]] if k != ABSENT else []))
                yield from go(st, 0, [])
            return g()
        if m in ('try_get', 'get'):
            n = name_of(args[1])
            def g():
                outs = [(st, ABSENT)] if n not in NAMES else list(fork_status(ex, st, n))
                for s2, k in outs:
                    log_call(s2, 'source', (m, n))
                    if k == ABSENT:
                        yield s2, 'ret', (NONE if m == 'try_get' else Err(Adt('LiquidError', None, [Opaque(('msg', f'unknown partial {n}'))])))
                    else:
                        text = StrV('' if k == EMPTY else 'SRC:' + n, 'str')
                        yield s2, 'ret', (Some(text) if m == 'try_get' else Ok(text))
            return g()
        return None
    return Abs('partial-source', handler)


def parse_stub(ctx, args, st):
    """parser::parse(text, language): Ok(renderables) or Err, decided by the (symbolic) status of the partial the text belongs to"""
    s = st.deref_all(args[0])
    text = s.concrete() if isinstance(s, StrV) else None
    if text == '':
        log_call(st, 'parse', '<empty text>')
        return ret(st, Ok(VecV([], 'Vec')))          # the empty text parses to the template without elements (grammar fact, C01)
    if text is None or not text.startswith('SRC:'): raise Unsupported(f'parse of {s!r}')
    n = text[4:]
    def g():
        for s2, k in fork_status(ctx.ex, st, n):
            log_call(s2, 'parse', n)
            if k == VALID: yield s2, 'ret', Ok(VecV([Opaque(('renderable-of', n))], 'Vec'))
            else: yield s2, 'ret', Err(Adt('LiquidError', None, [Opaque(('msg', f'partial {n} does not parse'))]))
    return g()


STUBS = [(r'^(?:parser::)?(?:parser::)?parse$', parse_stub, 'stub:parser::parse (outcome is a function of the partial source text)')]
POLICIES = [('eager', 'EagerCompiler', 'EagerStore', 'eager.rs'), ('lazy', 'LazyCompiler', 'LazyStore', 'lazy.rs'), ('ondemand', 'OnDemandCompiler', 'OnDemandStore', 'ondemand.rs')]
CALLS = [(m, n) for m in ('get', 'try_get', 'contains') for n in NAMES + ['zz']]


def classify(st, m, val):
    if m == 'get': return 'ok' if val.variant == 'Ok' else 'err'
    if m == 'try_get': return 'some' if val.variant == 'Some' else 'none'
    c = val.concrete()
    return c if c is not None else repr(val)


def template_of(st, m, val):
    """which partial's template was returned"""
    if (m == 'get' and val.variant == 'Ok') or (m == 'try_get' and val.variant == 'Some'):
        t = st.deref_all(val.items[0])
        return repr(t)
    return None


def reference(m, n, k):
    if m == 'get': return 'ok' if k in (VALID, EMPTY) else 'err'
    if m == 'try_get': return 'some' if k in (VALID, EMPTY) else 'none'
    return k != ABSENT


def ob_equivalence(chk, P, hist_len):
    with chk.obligation('stores/observational-equivalence', 'for every history of contains / try_get / get calls, the eager, lazy and on-demand stores built over the same source answer alike, and as the reference says: '
                        'get succeeds and try_get is Some exactly for a present partial that parses (always with the same template for the same name), contains tells presence; a missing or broken partial '
                        'never makes building the store fail; repeated use gives the same answer',
                        {'source': 'two names, each absent / present and valid / present and broken / present with the empty text by the solver\'s choice, plus an unknown name; truthful names()', 'histories': f'every sequence of 1..{hist_len} calls over {len(CALLS)} (method, name) pairs'}) as ob:
        ex = Executor(P, models_with(STUBS)); ex.seed = chk.seed; ex.max_steps = 100000
        ob.stubs += ['PartialSource: abstract (per-name status chosen by the solver)', 'parser::parse: outcome stub keyed by the source text']
        fns = {}
        for pol, comp, store, file in POLICIES:
            fns[pol] = {'compile': P.find(r'^fn \w+::<impl at crates/core/src/partials/' + file + r':\d+:\d+: \d+:\d+>::compile\(', 'core')}
            for m in ('get', 'try_get', 'contains'):
                fns[pol][m] = P.find(r'^fn \w+::<impl at crates/core/src/partials/' + file + r':\d+:\d+: \d+:\d+>::' + m + r'\(_1: &' + store, 'core')
        def build(st, pol, comp):
            compiler = Adt(comp, None, [source_object()], ['source'])
            lang = st.ref(Opaque(('LANG',)))
            for s2, kind, val in ex.run(fns[pol]['compile'], [compiler, lang], st):
                yield s2, kind, val
        def play(st, pol, store_ref, hist, i, acc):
            if i == len(hist):
                yield st, acc; return
            m, n = hist[i]
            for s2, kind, val in ex.run(fns[pol][m], [store_ref, s2_ref_str(st, n)], st):
                if kind != 'ret':
                    yield s2, acc + [('panic', str(val))]; continue
                yield from play(s2, pol, store_ref, hist, i + 1, acc + [(classify(s2, m, val), template_of(s2, m, val))])
        def s2_ref_str(st, n): return st.ref(StrV(n, 'str'))
        def all_policies(st, hist, pi, results):
            if pi == len(POLICIES):
                yield st, results; return
            pol, comp, store, _ = POLICIES[pi]
            for s2, kind, val in build(st, pol, comp):
                if kind != 'ret' or val.variant != 'Ok':
                    yield s2, results + [(pol, [('build-failed', f'{kind} {val}')])]; continue
                sref = val.items[0]
                if not isinstance(sref, Ref): sref = s2.ref(sref)
                for s3, acc in play(s2, pol, sref, hist, 0, []):
                    yield from all_policies(s3, hist, pi + 1, results + [(pol, acc)])
        for ln in range(1, hist_len + 1):
            for hist in itertools.product(CALLS, repeat=ln):
                st = State()
                for s2, results in all_policies(st, list(hist), 0, []):
                    ob.paths += 1; ob.reached()
                    m0 = ob.decide(ex, s2.conds, z3.BoolVal(True))
                    stat = {n: (m0.eval(status(n), model_completion=True).as_long() if ('status', n) in s2.env else None) for n in NAMES}
                    bad = None
                    for pol, acc in results:
                        for (m, n), (got, tmpl) in zip(hist, acc):
                            if got in ('panic', 'build-failed'): bad = f'{pol}: {got} {tmpl}'; break
                            k = stat.get(n) if n in NAMES else ABSENT
                            if k is None: continue       # the status of this name was never examined on this path: any answer consistent with the others
                            if got != reference(m, n, k): bad = f'{pol}: {m}({n!r}) answers {got}, expected {reference(m, n, k)} (partial is {["absent", "valid", "broken", "empty"][k]})'; break
                        if bad: break
                    if not bad:
                        base = results[0][1]
                        for pol, acc in results[1:]:
                            if [a[0] for a in acc] != [a[0] for a in base]: bad = f'{pol} answers {[a[0] for a in acc]} but eager answers {[a[0] for a in base]}'; break
                    if not bad:
                        # the same name always yields the same template within one store
                        for pol, acc in results:
                            seen = {}
                            for (m, n), (got, tmpl) in zip(hist, acc):
                                if tmpl is None: continue
                                core = tmpl.split('renderable-of')[-1][:12]
                                if seen.setdefault(n, core) != core: bad = f'{pol}: two different templates for {n!r}'
                    ob.decide(ex, s2.conds, z3.BoolVal(bool(bad)))
                    if bad:
                        pol = bad.split(':')[0].split(' ')[0]
                        partials = {}
                        for n in NAMES:
                            k = stat.get(n)
                            if k == VALID: partials[n] = 'ok-' + n
                            elif k == BROKEN: partials[n] = '{% if %}'
                            elif k == EMPTY: partials[n] = ''
                        def exp_of(m, n):
                            k = stat.get(n) if n in NAMES else ABSENT
                            r = reference(m, n, k if k is not None else ABSENT)
                            return r if isinstance(r, str) else ('true' if r else 'false')
                        sc = {'kind': 'stores', 'partials': partials, 'history': [list(c) for c in hist], 'expected': [exp_of(m, n) for m, n in hist]}
                        ob.violation(f'stores/{pol}/' + ('panic' if 'panic' in bad or 'build-failed' in bad else 'disagree'), f'history {list(hist)} with partials {stat}: {bad}', {'history': list(hist), 'status': stat}, sc,
                                     lambda r: r.get('outcome') == 'violation')
            ob.sample({'history_len': ln})
        ob.absorb(ex)


def ob_inmemory_source(chk, P):
    with chk.obligation('InMemorySource/truthful', 'the in-memory partial source answers for exactly the names it was given: contains(n) and try_get(n) hold exactly when n is one of the stored names '
                        '(no trimming, case folding or extension guessing), try_get returns the stored text, and names() lists exactly the stored names -- the contract the three stores rely on',
                        {'stored': "one partial stored under 'ab'", 'queried name': '0..4 symbolic characters (any Unicode scalar value)'}) as ob:
        from mirsym.models.maps import MapV
        from mirsym.models.strings import valid_char
        ex = Executor(P, models_with([])); ex.seed = chk.seed; ex.max_steps = 50000
        f = {m: P.find(r'^fn \w+::<impl at crates/core/src/partials/inmemory.rs:\d+:\d+: \d+:\d+>::' + m + r'\(_1: &InMemorySource', 'core') for m in ('contains', 'try_get', 'names')}
        stored = 'ab'
        for n in range(0, 5):
            st = State(); cs = [z3.BitVec(f'q{i}', 32) for i in range(n)]
            for c in cs: st.assume(valid_char(c))
            src = st.ref(Adt('InMemorySource', None, [MapV([stored], [StrV('TEXT', 'String')], 'HashMap')], ['data']))
            is_stored = z3.And(*[c == ord(ch) for c, ch in zip(cs, stored)]) if n == len(stored) else z3.BoolVal(False)
            for meth in ('contains', 'try_get'):
                for s2, kind, val in ex.run(f[meth], [src, st.ref(StrV(cs, 'str'))], st.clone()):
                    ob.paths += 1; ob.reached()
                    if kind != 'ret': got = None
                    elif meth == 'contains': got = val.e if isinstance(val, Bool) else None
                    else: got = z3.BoolVal(val.variant == 'Some')
                    m = ob.decide(ex, s2.conds, z3.BoolVal(True) if got is None else (got != is_stored))
                    if m is not None:
                        q = ''.join(chr(m.eval(c, model_completion=True).as_long()) for c in cs)
                        exp = 'true' if q == stored else 'false'
                        ob.violation(f'InMemorySource/{meth}', f"InMemorySource holding only {stored!r}: {meth}({q!r}) answers {val}", {'stored': stored, 'query': q},
                                     {'kind': 'stores', 'partials': {stored: 'ok'}, 'history': [['contains', q]], 'expected': [exp]}, lambda r: r.get('outcome') == 'violation')
            ob.sample({'query_len': n})
        ob.absorb(ex)


def run(chk):
    P = chk.program(('core',))
    ob_equivalence(chk, P, 3 if chk.tier == 'quick' else 4)
    ob_inmemory_source(chk, P)
