"""Check framework: obligations, native replay, known findings, evidence, exit codes.

exit 0  every obligation discharged (known findings are printed, not failed)
exit 1  at least one violation that reproduced natively and is not a listed known finding
exit 2  inconclusive: unsupported construct, bound hit, solver unknown/timeout, non-reproducing counterexample
"""
import os, sys, json, time, subprocess, traceback, hashlib, contextlib

VERIF = os.path.dirname(os.path.dirname(os.path.abspath(__file__)))
REPO = os.environ.get('VERIF_REPO', '/repo')
sys.path.insert(0, VERIF)


def log(*a):
    print('[verif]', *a, file=sys.stderr, flush=True)


# ----------------------------------------------------------------------------- native replay
class Replay:
    """long-lived child process of the native driver (dev profile); release profile on request"""
    _built = {}

    def __init__(self, profile='dev'):
        self.profile = profile
        self.proc = None
        self.count = 0

    @classmethod
    def build(cls, profile='dev'):
        if cls._built.get(profile): return
        t0 = time.time()
        cmd = ['cargo', 'build', '--offline', '--quiet'] + (['--release'] if profile == 'release' else [])
        env = dict(os.environ, CARGO_NET_OFFLINE='true')
        env.pop('RUSTFLAGS', None)
        r = subprocess.run(cmd, cwd=os.path.join(VERIF, 'replay'), env=env, stdout=subprocess.PIPE, stderr=subprocess.STDOUT, text=True)
        if r.returncode != 0:
            raise RuntimeError('replay driver build failed:\n' + r.stdout[-3000:])
        cls._built[profile] = True
        log(f'replay driver ({profile}) built in {time.time() - t0:.1f}s')

    def _start(self):
        self.build(self.profile)
        exe = os.path.join(VERIF, 'replay', 'target', 'release' if self.profile == 'release' else 'debug', 'verif-replay')
        self.proc = subprocess.Popen([exe], stdin=subprocess.PIPE, stdout=subprocess.PIPE, stderr=subprocess.DEVNULL, text=True, bufsize=1)

    def run(self, scenario, timeout=20):
        """returns the driver's JSON result; a crash of the driver (abort, stack overflow) is reported as outcome 'crash'"""
        if self.proc is None or self.proc.poll() is not None:
            self._start()
        self.count += 1
        try:
            self.proc.stdin.write(json.dumps(scenario) + '\n'); self.proc.stdin.flush()
            import select
            r, _, _ = select.select([self.proc.stdout], [], [], timeout)
            if not r:
                self.proc.kill(); self.proc = None
                return {'outcome': 'timeout'}
            line = self.proc.stdout.readline()
            if not line:
                rc = self.proc.wait(); self.proc = None
                return {'outcome': 'crash', 'returncode': rc}
            return json.loads(line)
        except (BrokenPipeError, OSError):
            self.proc = None
            return {'outcome': 'crash'}

    def close(self):
        if self.proc and self.proc.poll() is None:
            try:
                self.proc.stdin.close(); self.proc.wait(timeout=5)
            except Exception:
                self.proc.kill()
        self.proc = None


# ----------------------------------------------------------------------------- known findings
def load_known(prop):
    path = os.path.join(VERIF, 'known_findings.jsonl')
    known, fixed = {}, []
    if os.path.exists(path):
        for ln in open(path):
            ln = ln.strip()
            if not ln or ln.startswith('#'): continue
            if ln.startswith('fixed:'):
                fixed.append(ln); continue
            try:
                d = json.loads(ln)
            except Exception:
                continue
            if d.get('property') == prop:
                known[d['role']] = d
    return known, fixed


# ----------------------------------------------------------------------------- obligations
class Inconclusive(Exception):
    pass


class Obligation:
    def __init__(self, chk, name, desc, bounds):
        self.chk, self.name, self.desc, self.bounds = chk, name, desc, bounds
        self.paths = 0; self.queries = 0; self.sat = 0; self.unsat = 0; self.solver_s = 0.0
        self.functions = {}; self.models = set(); self.stubs = []
        self.status = 'discharged'; self.reason = None
        self.candidates = []   # violations found by the solver, before replay
        self.witness_ok = None  # vacuity: at least one feasible path reached the assertion
        self.samples = []
        self.t0 = time.time(); self.wall = 0.0
        self.assumptions = []
        self.engine = 'E2-mirsym'

    # -- bookkeeping helpers used by the obligations
    def absorb(self, ex):
        """pull counters out of a mirsym Executor"""
        self.queries += ex.queries; self.solver_s += ex.solver_time
        self.functions.update(ex.encoded); self.models |= ex.models_used
        ex.queries = 0; ex.solver_time = 0.0

    def decide(self, ex, conds, negated_post):
        """one VC: is (path condition and not post) satisfiable?  returns model or None"""
        import z3
        if z3.is_false(z3.simplify(negated_post)):
            # the negated post-condition simplifies to false (e.g. both sides are the same term): unsat without a solver call
            self.queries += 1; self.unsat += 1; self.trivial = getattr(self, 'trivial', 0) + 1
            return None
        q0, t0 = ex.queries, ex.solver_time
        r, s = ex.quick_check(list(conds) + [negated_post]); dt = ex.solver_time - t0
        ex.queries, ex.solver_time = q0, t0          # accounted here, not as an executor feasibility query
        self.solver_s += dt; self.queries += 1
        if dt > 5: log(f'  slow VC in {self.name}: {dt:.1f}s -> {r}')
        if r == z3.unknown:
            raise Inconclusive(f'solver unknown on VC of {self.name}')
        if r == z3.sat:
            self.sat += 1; return s.model()
        self.unsat += 1; return None

    def reached(self):
        self.witness_ok = True

    def sample(self, s):
        if len(self.samples) < 4: self.samples.append(s)

    def violation(self, role, what, witness, scenario=None, confirm=None, note=None):
        """a solver-found counterexample; `scenario` is replayed natively and `confirm(result)` says whether the
        native run shows the same misbehaviour"""
        flt = getattr(self.chk, 'role_filter', None)
        if flt is not None and not flt(role):
            self.filtered = getattr(self, 'filtered', 0) + 1      # not this property's concern (e.g. a wrong value inside a panic-freedom umbrella)
            return
        self.candidates.append({'role': role, 'what': what, 'witness': witness, 'scenario': scenario, 'confirm': confirm, 'note': note})

    def inconclusive(self, reason):
        self.status = 'inconclusive'; self.reason = reason

    def to_json(self):
        return {'name': self.name, 'engine': self.engine, 'what': self.desc, 'bounds': self.bounds, 'status': self.status, 'reason': self.reason,
                'paths': self.paths, 'queries': self.queries, 'sat': self.sat, 'unsat': self.unsat, 'solver_s': round(self.solver_s, 3),
                'wall_s': round(self.wall, 3), 'functions_encoded': self.functions, 'models': sorted(self.models), 'stubs': self.stubs,
                'assumptions': self.assumptions, 'reachability_witness': self.witness_ok, 'samples': self.samples,
                'violations': [{k: v for k, v in c.items() if k not in ('confirm',)} for c in self.candidates]}


class Check:
    def __init__(self, prop, tier='quick', seed=0):
        self.prop, self.tier, self.seed = prop, tier, seed
        self.obls = []
        self.t0 = time.time()
        self._program = None
        self.replay = Replay('dev')
        self.replay_rel = None
        self.known, self.fixed = load_known(prop)
        self.known_hit = {}
        self.violations = []
        self.nonrepro = []
        self.replays = 0
        self.notes = []
        self.trusted = set()
        self.assumptions = []
        self.level = 'model_checking'

    # -- resources
    def program(self, crates=('core', 'lib', 'liquid')):
        if self._program is None:
            from mirsym.program import Program
            self._program = Program(crates, log=log)
        return self._program

    @contextlib.contextmanager
    def obligation(self, name, desc='', bounds=None):
        from mirsym.exec import Unsupported, BoundHit
        ob = Obligation(self, name, desc, bounds or {})
        self.obls.append(ob)
        try:
            yield ob
            if ob.witness_ok is None and ob.status == 'discharged':
                ob.inconclusive('vacuous: no feasible path reached the assertion')
        except Unsupported as e:
            ob.inconclusive('unsupported: ' + str(e))
        except BoundHit as e:
            ob.inconclusive('bound hit: ' + str(e))
        except Inconclusive as e:
            ob.inconclusive(str(e))
        except Exception as e:
            ob.inconclusive('internal error: ' + ''.join(traceback.format_exception_only(type(e), e)).strip())
            log(traceback.format_exc())
        ob.wall = time.time() - ob.t0
        log(f'{self.prop} {name}: {ob.status}{" (" + ob.reason + ")" if ob.reason else ""} paths={ob.paths} queries={ob.queries} cand={len(ob.candidates)} {ob.wall:.1f}s')

    # -- translator validation: the same concrete case through the interpreter and through the native build must agree
    def validate(self, name, interp_result, scenario, native_view):
        res = self.replay.run(scenario); self.replays += 1
        self.validations = getattr(self, 'validations', 0) + 1
        try:
            nat = native_view(res)
        except Exception as e:
            nat = f'<native_view error {e}>'
        if nat != interp_result:
            self.validation_failures = getattr(self, 'validation_failures', []) + [{'case': name, 'interpreter': repr(interp_result), 'native': repr(nat), 'scenario': scenario}]
            log(f'  TRANSLATOR VALIDATION MISMATCH {name}: interpreter {interp_result!r} vs native {nat!r}')
        return nat == interp_result

    # -- finishing
    def finish(self):
        # replay candidates; group by role so that one role is replayed a few times, not thousands
        replay_dir = os.path.join(VERIF, 'evidence', 'replay'); os.makedirs(replay_dir, exist_ok=True)
        out_lines = []
        for ob in self.obls:
            by_role = {}
            for c in ob.candidates:
                by_role.setdefault(c['role'], []).append(c)
            for role, cs in by_role.items():
                confirmed = None; tried = 0
                pick = cs if len(cs) <= 12 else [cs[(i * (len(cs) - 1)) // 11] for i in range(12)]
                for c in pick:
                    if c['scenario'] is None:
                        continue
                    tried += 1
                    res = self.replay.run(c['scenario']); self.replays += 1
                    c['native'] = res
                    ok = False
                    try:
                        ok = bool(c['confirm'](res)) if c['confirm'] else False
                    except Exception as e:
                        c['native_confirm_error'] = str(e)
                    c['reproduced'] = ok
                    if ok:
                        confirmed = c; break
                if confirmed is None:
                    if tried == 0 and cs and cs[0].get('note') == 'no-replay-needed':
                        confirmed = cs[0]
                    else:
                        self.nonrepro.append((ob.name, role, cs[0]))
                        ob.status = 'inconclusive'; ob.reason = f'counterexample for role {role} did not reproduce natively (encoding or stub wrong?)'
                        continue
                if role in self.known:
                    self.known_hit[role] = confirmed
                    out_lines.append(f'KNOWN-FINDING: property={self.prop} {role}: {confirmed["what"]}')
                    if ob.status == 'discharged': ob.status = 'discharged-with-known-finding'
                else:
                    fname = os.path.join(replay_dir, f'{self.prop}-{hashlib.sha1(role.encode()).hexdigest()[:10]}.json')
                    with open(fname, 'w') as f:
                        json.dump({'property': self.prop, 'obligation': ob.name, 'role': role, 'what': confirmed['what'], 'witness': confirmed['witness'],
                                   'scenario': confirmed['scenario'], 'native_result': confirmed.get('native'),
                                   'how_to_replay': f"echo '<scenario json>' | {VERIF}/replay/target/debug/verif-replay"}, f, indent=1, default=str)
                    self.violations.append((role, fname, confirmed))
                    ob.status = 'violated'
                    out_lines.append(f'VIOLATION property={self.prop} replay={fname}')
                    log(f'  violation [{role}] {confirmed["what"]}')
        self.replay.close()
        if getattr(self, 'validation_failures', None):
            ob = Obligation(self, 'translator-validation', 'concrete cases must give the same result in the MIR interpreter and in the native build', {})
            ob.inconclusive(f'{len(self.validation_failures)} concrete case(s) disagree between interpreter and native build: {self.validation_failures[0]}')
            self.obls.append(ob)
        inconcl = [ob for ob in self.obls if ob.status == 'inconclusive']
        self.write_evidence(inconcl)
        for l in out_lines: print(l)
        if self.violations:
            rc = 1
        elif inconcl:
            for ob in inconcl:
                print(f'INCONCLUSIVE property={self.prop} obligation={ob.name}: {ob.reason}')
            rc = 2
        else:
            rc = 0
        print(f'{self.prop} {self.tier}: obligations={len(self.obls)} discharged={sum(1 for o in self.obls if o.status.startswith("discharged"))} '
              f'known_findings={len(self.known_hit)} violations={len(self.violations)} inconclusive={len(inconcl)} wall={time.time() - self.t0:.1f}s exit={rc}')
        return rc

    def write_evidence(self, inconcl):
        obls = [o.to_json() for o in self.obls]
        fnset = {}
        for o in self.obls: fnset.update(o.functions)
        models = sorted(set().union(*[o.models for o in self.obls])) if self.obls else []
        discharged = sum(1 for o in self.obls if o.status.startswith('discharged'))
        samples = []
        for o in self.obls:
            for s in o.samples[:2]:
                samples.append({'obligation': o.name, 'case': s})
        if not samples:
            samples = [{'obligation': o.name, 'bounds': o.bounds} for o in self.obls[:3]]
        paths = sum(o.paths for o in self.obls)
        queries = sum(o.queries for o in self.obls)
        ev = {
            'property_id': self.prop, 'tier': self.tier, 'seed': self.seed, 'level': self.level,
            'coverage': {
                'explanation': 'bounded symbolic execution of the real code (MIR dumped from /repo on this run / Kani harnesses / grammar file), '
                               'each obligation decided by an SMT/SAT solver over all values within the stated bounds; counterexamples replayed natively',
                'states': max(paths, 1), 'transitions': max(queries, 1), 'traces_validated_against_impl': self.replays,
                'states_meaning': 'symbolic paths explored (each denotes a set of concrete inputs)', 'transitions_meaning': 'solver queries decided',
                'obligations': len(self.obls), 'discharged': discharged,
                'evaluations': max(queries, 1), 'distinct_nontrivial': sum(1 for o in self.obls if o.witness_ok and o.paths > 0) if len(self.obls) > 1 else max(paths, 0),
                'rule': 'one evaluation = one solver query; an obligation counts as distinct and non-trivial when it has its own reachability witness '
                        '(at least one feasible path reaching its assertion) and explored at least one path',
                'samples': samples[:12],
                'functions_encoded': fnset, 'models_trusted': models,
                'solver_s': round(sum(o.solver_s for o in self.obls), 3), 'queries': queries, 'paths': paths,
                'sat': sum(o.sat for o in self.obls), 'unsat': sum(o.unsat for o in self.obls),
                'native_replays': self.replays, 'translator_validation_cases': getattr(self, 'validations', 0),
                'translator_validation_mismatches': getattr(self, 'validation_failures', []),
                'known_findings_matched': sorted(self.known_hit), 'fixed_entries': self.fixed,
                'inconclusive': [{'obligation': o.name, 'reason': o.reason} for o in inconcl],
                'obligation_details': obls,
                'checker_cmd': f'bin/check {self.prop} {self.tier}',
                'trusted_base': sorted(self.trusted | {'z3 (python API 4.x)', 'rustc nightly MIR dump', 'mirsym executor + listed models'}),
                'mir_dump_s': round(getattr(self._program, 'dump_s', 0.0), 2) if self._program else None,
                'notes': self.notes,
            },
            'assumptions': sorted(set(self.assumptions + [a for o in self.obls for a in o.assumptions])),
            'wall_s': round(time.time() - self.t0, 3),
            'violations': len(self.violations),
        }
        os.makedirs(os.path.join(VERIF, 'evidence'), exist_ok=True)
        with open(os.path.join(VERIF, 'evidence', f'{self.prop}.json'), 'w') as f:
            json.dump(ev, f, indent=1, default=str)
