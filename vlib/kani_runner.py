"""E1: run Kani proof harnesses of /verif/kani against /repo's working tree and turn the results into obligations.

A harness is `discharged` only on `VERIFICATION:- SUCCESSFUL` with all its cover! statements SATISFIED (vacuity witness).
FAILED with failed checks -> the counterexample is re-derived with Kani's concrete playback, decoded into a native
scenario (we know the type of every kani::any() call of every harness) and replayed through the public API.
Timeouts, out-of-memory and CBMC errors are inconclusive, never a pass."""
import os, re, subprocess, time, json, struct
from vlib.framework import VERIF, log

KANI_DIR = os.path.join(VERIF, 'kani')


def _env():
    e = dict(os.environ, CARGO_NET_OFFLINE='true')
    e.pop('RUSTFLAGS', None); e.pop('RUSTUP_TOOLCHAIN', None)
    return e


def harness_sources():
    """harness name -> source text (for evidence)"""
    src = open(os.path.join(KANI_DIR, 'src', 'lib.rs')).read()
    return src


def run(filters, jobs=8, harness_timeout_s=300, total_timeout_s=1500):
    """returns (results: {harness: {...}}, raw_tail)"""
    cmd = ['cargo', 'kani', '-Z', 'restrict-vtable', '-Z', 'unstable-options', '--harness-timeout', str(harness_timeout_s), '-j', str(jobs), '--output-format', 'terse']
    for f in filters: cmd += ['--harness', f]
    t0 = time.time()
    try:
        r = subprocess.run(cmd, cwd=KANI_DIR, env=_env(), stdout=subprocess.PIPE, stderr=subprocess.STDOUT, text=True, timeout=total_timeout_s)
        out = r.stdout
    except subprocess.TimeoutExpired as e:
        out = (e.stdout or b'').decode() if isinstance(e.stdout, bytes) else (e.stdout or '')
        out += '\nTOTAL TIMEOUT'
    results = parse_terse(out)
    for h in results.values(): h.setdefault('wall_total_s', round(time.time() - t0, 1))
    return results, out[-3000:]


def parse_terse(out):
    results = {}
    thread_h = {}
    cur = None
    for ln in out.split('\n'):
        m = re.match(r'^Thread (\d+): Checking harness (\S+?)\.\.\.$', ln.strip())
        if m:
            thread_h[m.group(1)] = m.group(2); results.setdefault(m.group(2), {'status': 'UNKNOWN', 'failed_checks': [], 'notes': []}); continue
        m = re.match(r'^Checking harness (\S+?)\.\.\.$', ln.strip())
        if m:
            cur = m.group(1); results.setdefault(cur, {'status': 'UNKNOWN', 'failed_checks': [], 'notes': []}); continue
        m = re.match(r'^Thread (\d+):\s*$', ln.strip())
        if m:
            cur = thread_h.get(m.group(1)); continue
        if cur is None: continue
        r = results[cur]
        m = re.match(r'^Failed Checks: (.*)$', ln.strip())
        if m: r['failed_checks'].append(m.group(1).strip().strip('"')); continue
        m = re.match(r'^VERIFICATION:- (\w+)', ln.strip())
        if m: r['status'] = m.group(1); continue
        m = re.match(r'^Verification Time: ([\d.]+)s', ln.strip())
        if m: r['time_s'] = float(m.group(1)); continue
        if 'timed out' in ln: r['status'] = 'TIMEOUT'
        if 'CBMC failed' in ln or 'out of memory' in ln.lower() or 'Status: ERROR' in ln: r['notes'].append(ln.strip())
        m = re.match(r'^\*\* (\d+) of (\d+) cover properties satisfied', ln.strip())
        if m: r['cover'] = (int(m.group(1)), int(m.group(2)))
    return results


def playback(harness, timeout_s=900):
    """concrete values of the failing assertion(s): list of (check description, [bytes vectors])"""
    cmd = ['cargo', 'kani', '-Z', 'restrict-vtable', '-Z', 'concrete-playback', '--concrete-playback=print', '--harness', harness, '--exact']
    try:
        r = subprocess.run(cmd, cwd=KANI_DIR, env=_env(), stdout=subprocess.PIPE, stderr=subprocess.STDOUT, text=True, timeout=timeout_s)
    except subprocess.TimeoutExpired:
        return []
    out = r.stdout
    tests = []
    for m in re.finditer(r"/// Check for `(\w+)`: \"\"?(.*?)\"?\"\n.*?vec!\[\n(.*?)\n    \];", out, re.S):
        kind, desc, body = m.group(1), m.group(2), m.group(3)
        vecs = [bytes(int(x) for x in v.split(',') if x.strip()) for v in re.findall(r'vec!\[([\d, ]*)\]', body)]
        tests.append((kind, desc, vecs))
    return tests


def decode(vecs, types):
    """bytes vectors (one per kani::any() call, in call order) -> python values by type name"""
    out = []
    for b, t in zip(vecs, types):
        if t in ('i64', 'isize'): out.append(struct.unpack('<q', b)[0])
        elif t in ('u64', 'usize'): out.append(struct.unpack('<Q', b)[0])
        elif t == 'f64': out.append(('f64bits', struct.unpack('<Q', b)[0]))
        elif t == 'bool': out.append(bool(b[0] & 1))
        elif t == 'u8': out.append(b[0])
        elif t == 'i8': out.append(struct.unpack('<b', b[:1])[0])
        elif t == 'i32': out.append(struct.unpack('<i', b)[0])
        elif t == 'u32': out.append(struct.unpack('<I', b)[0])
        else: out.append(b)
    return out


def obligations(chk, specs, tier):
    """specs: list of dict(name, desc, types=[...], scenario=fn(values)->scenario|None, confirm=fn(values)->(fn(native)->bool), bounds)
    Runs all harnesses named in specs in one Kani invocation and records one obligation per harness."""
    names = [s['name'] for s in specs]
    t0 = time.time()
    jobs = 8
    results, tail = run(['harness::' + n for n in names], jobs=jobs, harness_timeout_s=1200 if tier == "quick" else 3600, total_timeout_s=3000 if tier == "quick" else 10800)
    log(f'kani: {len(names)} harnesses in {time.time() - t0:.0f}s')
    # a harness that timed out (or never started) on a loaded machine gets one more run, a few at a time; a second timeout stays inconclusive
    again = [n for n in names if results.get('harness::' + n) is None or results['harness::' + n]['status'] in ('TIMEOUT', 'UNKNOWN')]
    if again and len(again) <= 6:
        log(f'kani: re-running {again} after timeout')
        r2, tail2 = run(['harness::' + n for n in again], jobs=3, harness_timeout_s=2400 if tier == "quick" else 3600, total_timeout_s=5400)
        for k, v in r2.items():
            if v['status'] not in ('TIMEOUT', 'UNKNOWN'): results[k] = v
        tail += tail2
    chk.trusted |= {'Kani 0.68 / CBMC 6.11 (CaDiCaL)', 'kani::any() models of primitive types'}
    import hashlib
    src = harness_sources()
    for s in specs:
        h = 'harness::' + s['name']
        r = results.get(h)
        with chk.obligation('kani/' + s['name'], s['desc'], s.get('bounds', {})) as ob:
            ob.engine = 'E1-kani'
            ob.functions[h] = hashlib.sha256(src.encode()).hexdigest()[:16]
            ob.paths = 1
            if r is None:
                ob.inconclusive('harness did not run (build failure or total timeout): ' + tail[-400:].replace('\n', ' | ')); continue
            ob.solver_s = r.get('time_s', 0.0); ob.queries = 1
            if r['status'] == 'SUCCESSFUL':
                cov = r.get('cover')
                if cov and cov[0] != cov[1]:
                    ob.inconclusive(f'vacuity: only {cov[0]} of {cov[1]} cover! witnesses satisfied'); continue
                ob.unsat += 1; ob.reached()
                ob.sample({'harness': h, 'verdict': 'VERIFICATION SUCCESSFUL', 'cbmc_s': r.get('time_s'), 'cover': cov})
            elif r['status'] == 'FAILED' and r['failed_checks']:
                ob.sat += 1; ob.reached()
                tests = playback(h)
                fails = [t for t in tests if t[0] == 'assertion'] or tests
                done = False
                for kind, desc, vecs in fails[:3]:
                    vals = decode(vecs, s['types'])
                    sc = s['scenario'](vals)
                    role = f"{s['name']}/{(r['failed_checks'][0] if r['failed_checks'] else desc)[:60]}"
                    ob.violation(role, f"Kani counterexample for `{desc or r['failed_checks'][0]}`: inputs {vals}", {'inputs': [str(v) for v in vals], 'failed_checks': r['failed_checks']},
                                 sc, s['confirm'](vals))
                    done = True
                if not done:
                    ob.inconclusive(f"Kani reported failed checks {r['failed_checks']} but no concrete playback values could be extracted")
            else:
                ob.inconclusive(f"Kani status {r['status']} {r['notes'][:2]} (timeout/OOM/error is never a pass)")
