"""Single source of truth for MANIFEST.json (bin/mkmanifest)."""
T_MIR = 'solver-based bounded symbolic execution of the MIR dumped from /repo (own executor + z3), counterexamples replayed natively'
N_MIR = 'trusted: rustc nightly MIR dump (same source as the stable build), the mirsym executor and the library models listed in the evidence, z3; bounds as listed per obligation'

HOOKS = {
    'guard': 'liquid_verif',
    'enable': 'none needed: checks read private functions from the MIR dump and use the public API otherwise (guard name reserved: --cfg liquid_verif)',
    'baseline_off_cmd': 'cd /repo && cargo nextest run --workspace --no-fail-fast --offline',
    'source_commits': [],
    'add_only': True,
}

T_KANI = 'solver-based bounded model checking of the compiled real code with Kani/CBMC (kani::any() inputs, SAT back end), counterexamples via concrete playback replayed natively'
N_KANI = 'trusted: Kani 0.68/CBMC 6.11, its models of primitive any(); harness crate /verif/kani with path dependencies on /repo (rebuilt every run); one harness per concrete instantiation, listed in the evidence'

T_PEG = 'solver-based: the pest grammar file is encoded as SMT constraints over a symbolic string of bounded length (PEG semantics incl. implicit whitespace and atomicity), decided by z3'
N_PEG = 'trusted: pest implements PEG semantics as documented; the pegsmt encoder (validated on concrete strings against the real parser); z3'

ENGINES = [
    {'name': 'E3-pegsmt', 'path': 'pegsmt/', 'serves_properties': ['C01', 'C03'],
     'kind_free_text': 'PEG-to-SMT encoder for crates/core/src/parser/grammar.pest, re-read on every run'},
    {'name': 'E1-kani', 'path': 'kani/', 'serves_properties': ['C07', 'C11', 'C17'],
     'kind_free_text': 'Kani proof harnesses over the real liquid-core code for scalar-level units (symbolic i64/f64/bool inputs, all bit patterns), unwinding assertions on, cover! vacuity witnesses'},
    {'name': 'E2-mirsym', 'path': 'mirsym/', 'serves_properties': ['C01', 'C04', 'C05', 'C06', 'C07', 'C08', 'C10', 'C15', 'C18'],
     'kind_free_text': 'MIR symbolic executor (Python + z3): rustc --emit=mir of /repo working tree on every run, path enumeration with symbolic leaves, listed library models, native replay of counterexamples'},
]

CHECKS = {
    'C05': {'engine': 'E2-mirsym', 'technique': T_MIR, 'note': N_MIR,
            'text': 'Real MIR of iter_array, ForloopObject::new, TableRowObject::new executed symbolically: window = exactly the selected elements for every offset/limit (len bounded), loop record fields truthful for all i<len<=2^63-1.'},
    'C18': {'engine': 'E2-mirsym', 'technique': T_MIR, 'note': N_MIR + '; parent runtime and own data are nondeterministic stubs constrained only by the invariant being proved; find/try_find uninterpreted with the find<=>try_find contract',
            'text': 'One inductive step per frame type (StackFrame, SandboxedStackFrame, GlobalFrame, IndexFrame): real MIR of get/try_get/roots/set_global/set_index/get_index/registers executed over an abstract parent satisfying the invariant; every path checked against the layer algebra. Induction gives stacks of any height.'},
    'C15': {'engine': 'E2-mirsym', 'technique': T_MIR, 'note': N_MIR + '; operand Expression::evaluate stubbed to return the abstract operand; str::parse results symbolic; float remainder (fmod) uninterpreted',
            'text': 'Real MIR of all eleven math filters (evaluate + derive-generated argument evaluation + as_scalar/to_integer/to_float + Value::scalar) executed for every pair of operand kinds with all 2^64 values each: integer results exact when they fit (else error/double), IEEE results on the float path, rounding direction for |x|<2^63, no panic.'},
    'C10': {'engine': 'E2-mirsym', 'technique': T_MIR + '; the sink failure point is a symbolic variable', 'note': N_MIR + '; children are abstract renderables that return Err when they see the sink fail (the contract each real renderable is itself checked against)',
            'text': 'Real MIR of every writing render_to (Text, RawT, FilterChain, core Template, Conditional, Case, Increment, Decrement, Cycle, Capture, IfChanged, For, TableRow) executed with a sink whose K-th write fails for a solver-chosen K: Err returned, no later write, accepted log is a prefix of a fault-free run with the same choices, no panic.'},
    'C04': {'engine': 'E2-mirsym', 'technique': T_MIR, 'note': N_MIR + '; find/try_find uninterpreted (result names the map that answered); tag bodies abstract',
            'text': 'Real MIR of RuntimeBuilder::build and liquid::Template::render_to (layer order, fresh layers, caller data by reference), of get/try_get/set_global/set_index on that concrete four-layer stack plus 0..2 scopes for every combination of layers defining a name (innermost wins, assignments land in the right layer, caller data untouched), and of Assign/Capture/Increment/Decrement::render_to against an abstract runtime.'},
    'C11': {'engine': 'E1-kani', 'technique': T_KANI, 'note': N_KANI,
            'text': 'Kani proves, for every pair of i64/f64 (all bit patterns incl. NaN, +-0, infinities)/bool scalars: == symmetric, != its negation, </> and <=/>= duals, partial_cmp antisymmetric and Equal exactly when ==, <= is < or ==, equal values never strictly ordered, reflexivity except NaN, int/float equality for |x|<=2^53, and that Value/ValueCow comparisons delegate to the same relation; nil symmetric.'},
    'C07': {'engine': 'E1-kani', 'technique': T_KANI, 'note': N_KANI,
            'text': 'Kani proves <Vec<i64> as ArrayView>::{get, contains_key, size, first, last} positional for len<=5 and EVERY i64 index (negatives from the end, everything else absent).'},
    'C06': {'engine': 'E2-mirsym', 'technique': T_MIR, 'note': N_MIR + '; token stream, operand expressions and branch bodies are abstract stubs',
            'text': 'Real MIR of Conditional::render_to (one branch, mode flag), Condition::evaluate (left-to-right short-circuit, error propagation, all trees up to 4 atoms), if_block::parse_condition over abstract token streams (and tighter than or, left association, operator mapping, malformed streams are errors), BinaryCondition::evaluate (operator table against z3 relations for all i64xi64 and i64xf64), ExistenceCondition::evaluate (truthiness per kind, undefined = nil), Case::render_to (first matching arm).'},
    'C01': {'engine': 'E3-pegsmt', 'technique': T_PEG + '; plus ' + T_MIR, 'note': N_PEG + '; ' + N_MIR,
            'text': 'Facets: (1) the lax top-level grammar rule consumes EVERY string of up to N code points (N=12 quick, 18 thorough), so parser::parse cannot hit its expects; (2) every text accepted as Float/Boolean/String literal is convertible; (3) real MIR of parse_literal on integer literals of 1..20 symbolic digits with optional sign: the denoted integer when it fits, otherwise a float, never a panic. Block-parser totality (TagBlock) is not covered yet.'},
    'C03': {'engine': 'E3-pegsmt', 'technique': T_PEG, 'note': N_PEG,
            'text': 'Grammar facets for every string of up to N code points: trim-whitespace set is exactly {space, tab, LF, CR}; trimming start/end delimiters consume exactly the adjacent whitespace run, plain ones nothing else; Raw text is maximal, contains no start delimiter, and plain text is a single Raw covering the input.'},
    'C08': {'engine': 'E2-mirsym', 'technique': T_MIR, 'note': N_MIR + '; partial store, partial template, argument expressions and the caller runtime are abstract stubs; the meaning of the scope shapes comes from the C18 frame lemmas',
            'text': 'Real MIR of Include::render_to and Render::render_to (plain and for-as forms): the partial is rendered with exactly StackFrame(caller, args) resp. GlobalFrame(SandboxedStackFrame(caller, args [+forloop, item])), the caller writer, truthful forloop, interrupts of a rendered partial stay in the sandbox registers and are reset per iteration, name / name.liquid lookup order, errors (never Ok, never panic) for non-string names, unevaluable arguments and missing partials.'},
    'C12': {'engine': 'E2-mirsym', 'technique': T_MIR, 'note': N_MIR + '; the wrapped view is an abstract object answering each method with a distinct token',
            'text': 'Facets: (1) real MIR of every ValueView method of the forwarding impls (&T, Option<T>, ValueCow Borrowed/Owned): exactly one call of the same method on the wrapped view with the same arguments, result returned unchanged; None answers like Value::Nil; (2) real MIR of ScalarSerializer/ValueSerializer::serialize_{i8..u64}: the same integer for ALL values of each type or an error when it exceeds i64. serde round-trips, JSON/YAML and derive-vs-serde equivalence are outside (generic visitor code over third-party crates).'},
    'C17': {'engine': 'E2-mirsym', 'technique': T_MIR + '; Kani/CBMC for the ordering harness', 'note': N_MIR + '; the timestamp is an abstract object whose accessors return symbolic values in their documented ranges (fields independent: an over-approximation; counterexamples are confirmed on real timestamps natively); arithmetic-heavy VCs are refuted by cvc5 with its integer encoding when z3 gives up',
            'text': 'Real MIR of strftime() on formats % + solver-chosen flags (-_0^#) + optional symbolic width + each of the 47 known directives: the output (digits are expressions of the field values) equals a declarative reference of the directive (default widths and padding, -, _, 0, ^, #, explicit width, 12-hour clock, names, %L/%N leading digits, %z family, composites as their expansion); unknown directives (any Unicode character) are echoed, formats ending inside a directive are errors, nothing panics. DateTime::fmt chooses the sub-second format iff nanosecond != 0. Kani: equality and ordering of date-times through ScalarCow are chronological for instants within +-100000 s in any whole-hour offset -12..+14. Quick tier leaves %s, %c and explicit widths on year directives to the thorough tier. Not covered: the time crate itself (calendar arithmetic, parsing), the date filter argument handling, E/O modifiers.'},
    'C13': {'engine': 'E2-mirsym', 'technique': T_MIR, 'note': N_MIR + '; strings are lists of symbolic code points (byte lengths derived from utf8_len); one grapheme per code point (no combining marks)',
            'text': 'Real MIR of 19 string filters (slice, truncate, strip, lstrip, rstrip, strip_newlines, upcase, downcase, capitalize, append, prepend, replace, replace_first, remove, remove_first, newline_to_br, first, last, size) on strings of 0..3 (quick) / 0..4 (thorough) symbolic Unicode characters with symbolic arguments, each compared with an independent symbolic reference of its documented function for every value, and FilterChain::evaluate over 0..4 abstract filters (left-to-right composition, first error wins). Not covered: split, join, truncatewords, default, multi-character case expansions, combining marks. One known finding (truncate decides by byte length) is recorded: the repository suite pins that behaviour.'},
    'C16': {'engine': 'E2-mirsym', 'technique': T_MIR, 'note': N_MIR + '; strings are lists of symbolic code points, byte offsets are made path-concrete by forking every character into its UTF-8 length class; the percent-encoding and regex crates (outside the repository) are models validated against the native libraries on concrete strings',
            'text': 'Real MIR of html.rs escape()/nr_escaped() (escape and escape_once) on every string of 0..3 (quick) / 0..4 (thorough) symbolic Unicode characters plus entity-shaped strings (&, all but the last two characters of each entity name, then symbolic characters): output alphabet, equality with a declarative reference scan, idempotence of escape_once by running it again on its symbolic output. Real MIR of url_encode/url_decode with the encode set computed from the FRAGMENT constant in the MIR: output alphabet, reference encoding, decode(encode(s)) == s, "+ then %XX then strict UTF-8 or error" on general and escape-shaped strings. strip_html: the four MATCHERS patterns are read from the MIR and interpreted by a model of the regex crate for the shape (?flags)PREFIX.*?SUFFIX; no "<" is followed by ">" in the output for every string of 0..6 / 0..8 characters. Any other regex shape is inconclusive.'},
    'C02': {'engine': 'E2-mirsym', 'technique': T_MIR, 'note': N_MIR + '; obligations borrowed from C05/C07/C13/C15 keep their stubs; only their panic roles count here',
            'text': 'Totality facets (panic-freedom, no division by zero, no out-of-range index, no split character) of the kernels that index, slice, divide or loop: cycle parsing + position arithmetic, integer ranges and loop attributes, iter_array, For/TableRow::render_to (symbolic cols incl. 0), augmented_get (every i64 index), slice and truncate on symbolic Unicode strings, plus/minus/times/divided_by/modulo/abs. Filters not listed (other string filters, html/url, date, sort, jekyll/shopify/extra) and the valid-UTF-8 clause are not covered.'},
}

NOT_BUILT = 'not claimed yet: obligations for this property are not built in this revision (see DESIGN.md §4)'
NOT_APPLICABLE = {
    'C09': 'quantifies over histories of whole parse+render calls; needs the pest parser and HashMap-backed registers inside the solver (measured out of reach) or a frame condition that is a typing fact, not a solver query (DESIGN.md §5)',
    'C20': 'quantifies over thread schedules; Kani does not support concurrency and the MIR executor has no interleaving semantics (DESIGN.md §5)',
}
for _p in ['C14', 'C19']:
    NOT_APPLICABLE.setdefault(_p, NOT_BUILT)
