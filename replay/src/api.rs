//! Scenarios that exercise the Rust API directly (not through template text).
use liquid_core::model::{KString, Object, ScalarCow, Value, ValueView};
use liquid_core::runtime::{GlobalFrame, Interrupt, InterruptRegister, RuntimeBuilder, SandboxedStackFrame, StackFrame};
use liquid_core::Runtime;
use serde_json::{json, Value as J};

fn to_obj(j: Option<&J>) -> Object {
    match j {
        Some(g) => liquid_core::model::to_object(g).unwrap_or_default(),
        None => Object::new(),
    }
}

fn to_val(j: &J) -> Value {
    liquid_core::model::to_value(j).unwrap_or(Value::Nil)
}

fn val_json(v: &dyn ValueView) -> J {
    serde_json::to_value(v.to_value()).unwrap_or(J::Null)
}

fn interrupt_of(rt: &dyn Runtime) -> &'static str {
    let r = rt.registers().get_mut::<InterruptRegister>();
    // peek without clearing: reset() takes the value, so put it back
    let mut r = r;
    match r.reset() {
        Some(Interrupt::Break) => {
            r.set(Interrupt::Break);
            "break"
        }
        Some(Interrupt::Continue) => {
            r.set(Interrupt::Continue);
            "continue"
        }
        None => "none",
    }
}

fn observe(rt: &dyn Runtime, base: &dyn Runtime, sc: &J) -> J {
    let mut qs = Vec::new();
    if let Some(queries) = sc.get("queries").and_then(|q| q.as_array()) {
        for q in queries {
            let path: Vec<ScalarCow<'_>> = q
                .as_array()
                .map(|a| {
                    a.iter()
                        .map(|k| match k {
                            J::String(s) => ScalarCow::new(s.clone()),
                            J::Number(n) => ScalarCow::new(n.as_i64().unwrap_or(0)),
                            _ => ScalarCow::new("?"),
                        })
                        .collect()
                })
                .unwrap_or_default();
            let t = rt.try_get(&path).map(|v| val_json(v.as_view()));
            let g = rt.get(&path).ok().map(|v| val_json(v.as_view()));
            // a binding to nil is present: report presence separately from the (null) value
            qs.push(json!({"path": q, "try_get_present": t.is_some(), "get_present": g.is_some(), "try_get": t, "get": g}));
        }
    }
    let roots: Vec<String> = rt.roots().into_iter().map(|k| k.as_str().to_owned()).collect();
    let mut index = serde_json::Map::new();
    for k in ["a", "b", "z"] {
        if let Some(v) = rt.get_index(k) {
            index.insert(k.to_owned(), val_json(v.as_view()));
        }
    }
    let top_i = interrupt_of(rt);
    let base_i = interrupt_of(base);
    json!({"outcome": "ok", "queries": qs, "roots": roots, "index": index, "top_interrupt": top_i, "base_interrupt": base_i})
}

fn go(rt: &dyn Runtime, base: &dyn Runtime, ops: &[J], sc: &J) -> J {
    if ops.is_empty() {
        return observe(rt, base, sc);
    }
    let op = &ops[0];
    let rest = &ops[1..];
    if let Some(kind) = op.get("push").and_then(|p| p.as_str()) {
        let data = to_obj(op.get("data"));
        match kind {
            "plain" => {
                let f = StackFrame::new(rt, data);
                go(&f, base, rest, sc)
            }
            "sandbox" => {
                let f = SandboxedStackFrame::new(rt, data);
                go(&f, base, rest, sc)
            }
            "global" => {
                let f = GlobalFrame::new(rt);
                go(&f, base, rest, sc)
            }
            _ => json!({"outcome": "bad-op"}),
        }
    } else if let Some(a) = op.get("set_global").and_then(|p| p.as_array()) {
        rt.set_global(KString::from_ref(a[0].as_str().unwrap_or("")), to_val(&a[1]));
        go(rt, base, rest, sc)
    } else if let Some(a) = op.get("set_index").and_then(|p| p.as_array()) {
        rt.set_index(KString::from_ref(a[0].as_str().unwrap_or("")), to_val(&a[1]));
        go(rt, base, rest, sc)
    } else if let Some(k) = op.get("set_interrupt").and_then(|p| p.as_str()) {
        rt.registers()
            .get_mut::<InterruptRegister>()
            .set(if k == "break" { Interrupt::Break } else { Interrupt::Continue });
        go(rt, base, rest, sc)
    } else {
        json!({"outcome": "bad-op"})
    }
}

fn scalar_from(j: &J) -> ScalarCow<'static> {
    let kind = j.get("kind").and_then(|k| k.as_str()).unwrap_or("i64");
    let bits = j.get("bits").and_then(|b| b.as_u64()).unwrap_or(0);
    match kind {
        "i64" => ScalarCow::new(bits as i64),
        "f64" => ScalarCow::new(f64::from_bits(bits)),
        "bool" => ScalarCow::new(bits & 1 == 1),
        "datetime" => {
            let g = |k: &str| j.get(k).and_then(|v| v.as_i64()).unwrap_or(0);
            let base = liquid_core::model::DateTime::from_ymd(2020, 6, 15);
            let t = *base + time::Duration::days(g("days")) + time::Duration::seconds(g("secs"));
            let mut a = base;
            *a = t.to_offset(time::UtcOffset::from_hms(g("off") as i8, 0, 0).unwrap());
            ScalarCow::new(a)
        }
        "date" => {
            let mut d = liquid_core::model::Date::from_ymd(2020, 6, 15);
            *d = *d + time::Duration::days(j.get("days").and_then(|v| v.as_i64()).unwrap_or(0));
            ScalarCow::new(d)
        }
        _ => ScalarCow::new(j.get("text").and_then(|t| t.as_str()).unwrap_or("").to_owned()),
    }
}

fn ord_str(o: Option<std::cmp::Ordering>) -> &'static str {
    match o {
        Some(std::cmp::Ordering::Less) => "lt",
        Some(std::cmp::Ordering::Equal) => "eq",
        Some(std::cmp::Ordering::Greater) => "gt",
        None => "none",
    }
}

fn scalar_rel(sc: &J) -> J {
    let a = scalar_from(&sc["a"]);
    let b = scalar_from(&sc["b"]);
    let va = Value::Scalar(a.clone());
    let vb = Value::Scalar(b.clone());
    let ca = liquid_core::model::ValueCow::Borrowed(&va);
    let cb = liquid_core::model::ValueCow::Borrowed(&vb);
    let n = Value::Nil;
    json!({"outcome": "ok",
        "eq_ab": a == b, "eq_ba": b == a, "ne_ab": a != b, "lt_ab": a < b, "gt_ab": a > b, "le_ab": a <= b, "ge_ab": a >= b,
        "lt_ba": b < a, "gt_ba": b > a, "le_ba": b <= a, "ge_ba": b >= a,
        "cmp_ab": ord_str(a.partial_cmp(&b)), "cmp_ba": ord_str(b.partial_cmp(&a)),
        "eq_aa": a == a.clone(), "cmp_aa": ord_str(a.partial_cmp(&a.clone())),
        "value_eq_ab": va == vb, "value_eq_ba": vb == va, "cow_eq_ab": ca == cb, "cow_value_eq": ca == vb,
        "nil_eq_a": n == va, "a_eq_nil": va == n, "nil_eq_nil": n == Value::Nil})
}

fn vec_index(sc: &J) -> J {
    use liquid_core::model::ArrayView;
    let len = sc.get("len").and_then(|l| l.as_u64()).unwrap_or(0) as usize;
    let idx = sc.get("idx").and_then(|l| l.as_i64()).unwrap_or(0);
    let v: Vec<i64> = (0..len).map(|i| 100 + i as i64).collect();
    let got = ArrayView::get(&v, idx).and_then(|x| x.as_scalar()).and_then(|s| s.to_integer());
    json!({"outcome": "ok", "get": got, "contains_key": ArrayView::contains_key(&v, idx), "size": ArrayView::size(&v),
        "first": ArrayView::first(&v).is_some(), "last": ArrayView::last(&v).is_some()})
}

fn narrow(sc: &J) -> J {
    let ty = sc.get("type").and_then(|t| t.as_str()).unwrap_or("i64");
    let v: i128 = sc.get("value").and_then(|t| t.as_str()).and_then(|t| t.parse().ok()).unwrap_or(0);
    let scalar = sc.get("serializer").and_then(|t| t.as_str()).unwrap_or("ScalarSerializer") == "ScalarSerializer";
    macro_rules! go {
        ($t:ty) => {{
            let x = v as $t;
            if scalar {
                match liquid_core::model::to_scalar(&x) {
                    Ok(s) => json!({"outcome": "ok", "is_err": false, "integer": s.to_integer(), "float": s.to_float()}),
                    Err(_) => json!({"outcome": "ok", "is_err": true}),
                }
            } else {
                match liquid_core::model::to_value(&x) {
                    Ok(s) => json!({"outcome": "ok", "is_err": false, "integer": s.as_scalar().and_then(|s| s.to_integer()), "float": s.as_scalar().and_then(|s| s.to_float())}),
                    Err(_) => json!({"outcome": "ok", "is_err": true}),
                }
            }
        }};
    }
    match ty {
        "i8" => go!(i8),
        "i16" => go!(i16),
        "i32" => go!(i32),
        "i64" => go!(i64),
        "u8" => go!(u8),
        "u16" => go!(u16),
        "u32" => go!(u32),
        _ => go!(u64),
    }
}

fn view_summary(v: &dyn ValueView) -> J {
    use liquid_core::model::State;
    json!({
        "render": v.render().to_string(), "source": v.source().to_string(), "type_name": v.type_name(),
        "truthy": v.query_state(State::Truthy), "default": v.query_state(State::DefaultValue), "empty": v.query_state(State::Empty), "blank": v.query_state(State::Blank),
        "to_kstr": v.to_kstr().as_str(), "to_value": serde_json::to_value(v.to_value()).unwrap_or(J::Null),
        "as_scalar": v.as_scalar().map(|s| s.to_kstr().into_owned().to_string()), "is_scalar": v.is_scalar(),
        "as_array": v.as_array().map(|a| a.size()), "as_object": v.as_object().map(|o| o.size()),
        "as_state": v.as_state().map(|s| format!("{:?}", s)), "is_nil": v.is_nil(),
    })
}

fn views(sc: &J) -> J {
    use liquid_core::model::ValueCow;
    let samples: Vec<Value> = vec![
        Value::Nil, Value::scalar(0i64), Value::scalar(-7i64), Value::scalar(1.5f64), Value::scalar(true), Value::scalar(false), Value::scalar(""), Value::scalar("  "),
        Value::scalar("héllo"), Value::Array(vec![]), Value::Array(vec![Value::scalar(1i64), Value::Nil]),
        Value::Object(to_obj(Some(&json!({})))), Value::Object(to_obj(Some(&json!({"k": [1, 2]})))),
        Value::State(liquid_core::model::State::Empty), Value::State(liquid_core::model::State::Blank),
    ];
    for v in &samples {
        let base = view_summary(v);
        let by_ref: &Value = v;
        let checks: Vec<(&str, J)> = vec![
            ("&T", view_summary(&by_ref)),
            ("Some", view_summary(&Some(v.clone()))),
            ("ValueCow::Borrowed", view_summary(&ValueCow::Borrowed(v))),
            ("ValueCow::Owned", view_summary(&ValueCow::Owned(v.clone()))),
            ("to_value", view_summary(&v.to_value())),
            ("into_owned", view_summary(&ValueCow::Borrowed(v).into_owned())),
        ];
        for (name, got) in checks {
            if got != base {
                return json!({"outcome": "violation", "wrapper": name, "value": base, "got": got});
            }
        }
    }
    // concrete Rust views of the same data as the owned values: the summary (kind, printed forms, all query_state answers) must be the same
    {
        use std::collections::{BTreeMap, HashMap};
        let eb: BTreeMap<String, Value> = BTreeMap::new();
        let eh: HashMap<String, Value> = HashMap::new();
        let mut b1: BTreeMap<String, Value> = BTreeMap::new(); b1.insert("k".to_owned(), Value::scalar(1i64));
        let mut h1: HashMap<String, Value> = HashMap::new(); h1.insert("k".to_owned(), Value::scalar(1i64));
        let ev: Vec<Value> = vec![];
        let v1: Vec<Value> = vec![Value::scalar(1i64)];
        let concrete: Vec<(&str, J, J)> = vec![
            ("BTreeMap/0", view_summary(&eb), view_summary(&eb.to_value())), ("HashMap/0", view_summary(&eh), view_summary(&eh.to_value())),
            ("BTreeMap/1", view_summary(&b1), view_summary(&b1.to_value())), ("HashMap/1", view_summary(&h1), view_summary(&h1.to_value())),
            ("Vec/0", view_summary(&ev), view_summary(&ev.to_value())), ("Vec/1", view_summary(&v1), view_summary(&v1.to_value())),
            ("i64", view_summary(&-7i64), view_summary(&Value::scalar(-7i64))), ("f64", view_summary(&1.5f64), view_summary(&Value::scalar(1.5f64))),
            ("bool", view_summary(&false), view_summary(&Value::scalar(false))), ("&str", view_summary(&"  "), view_summary(&Value::scalar("  "))),
            ("String", view_summary(&String::new()), view_summary(&Value::scalar(""))), ("KString", view_summary(&KString::from_ref("é")), view_summary(&Value::scalar("é"))),
        ];
        for (name, got, base) in concrete {
            if got != base {
                return json!({"outcome": "violation", "wrapper": name, "value": base, "got": got});
            }
        }
        // strings chosen by the caller (a solver model): every string type must agree with the owned value
        if let Some(list) = sc.get("strings").and_then(|v| v.as_array()) {
            for s in list.iter().filter_map(|v| v.as_str()) {
                let base = view_summary(&Value::scalar(s.to_owned()));
                let owned: String = s.to_owned();
                let ks = KString::from_ref(s);
                let cases: Vec<(&str, J)> = vec![("String", view_summary(&owned)), ("&str", view_summary(&s)), ("KString", view_summary(&ks))];
                for (name, got) in cases {
                    if got != base {
                        return json!({"outcome": "violation", "wrapper": name, "string": s, "value": base, "got": got});
                    }
                }
            }
        }
        let objs: Vec<Value> = vec![Value::Object(to_obj(Some(&json!({})))), Value::Object(to_obj(Some(&json!({"a": 1}))))];
        for o in &objs {
            // Value::source must be the source printer of the object, not its render printer
            if let Some(ov) = o.as_object() {
                if format!("{}", o.source()) != format!("{}", ov.as_value().source()) || format!("{}", o.render()) != format!("{}", ov.as_value().render()) {
                    return json!({"outcome": "violation", "wrapper": "Value::Object source/render", "got": format!("{}", o.source())});
                }
            }
        }
    }
    // serde: enum variants are keyed by the variant name; deserialize_any keeps integers integers
    {
        struct TupleVariant(i32, i32);
        impl serde::Serialize for TupleVariant {
            fn serialize<S: serde::Serializer>(&self, s: S) -> Result<S::Ok, S::Error> {
                use serde::ser::SerializeTupleVariant;
                let mut tv = s.serialize_tuple_variant("EnumTypeName", 0, "VariantName", 2)?;
                tv.serialize_field(&self.0)?;
                tv.serialize_field(&self.1)?;
                tv.end()
            }
        }
        struct StructVariant(i32);
        impl serde::Serialize for StructVariant {
            fn serialize<S: serde::Serializer>(&self, s: S) -> Result<S::Ok, S::Error> {
                use serde::ser::SerializeStructVariant;
                let mut sv = s.serialize_struct_variant("EnumTypeName", 0, "VariantName", 1)?;
                sv.serialize_field("x", &self.0)?;
                sv.end()
            }
        }
        let shows = |v: &Value| v.as_object().map(|o| o.contains_key("VariantName") && !o.contains_key("EnumTypeName")).unwrap_or(false);
        match (liquid_core::model::to_object(&TupleVariant(1, 2)), liquid_core::model::to_value(&TupleVariant(1, 2)),
               liquid_core::model::to_object(&StructVariant(1)), liquid_core::model::to_value(&StructVariant(1))) {
            (Ok(a), Ok(b), Ok(c), Ok(d)) => {
                if !shows(&Value::Object(a.clone())) || !shows(&b) || !shows(&Value::Object(c.clone())) || !shows(&d) {
                    return json!({"outcome": "violation", "wrapper": "serde variant naming", "got": format!("{:?} / {:?} / {:?} / {:?}", a, b, c, d)});
                }
            }
            other => return json!({"outcome": "violation", "wrapper": "serde variant naming", "got": format!("{:?}", other.0.is_ok())}),
        }
        for n in [42i64, 9007199254740993i64, -1i64] {
            match liquid_core::model::from_value::<serde_json::Value>(&Value::scalar(n)) {
                Ok(j) => if j.as_i64() != Some(n) || !j.is_i64() { return json!({"outcome": "violation", "wrapper": "deserialize_any integer", "got": j.to_string()}); },
                Err(e) => return json!({"outcome": "violation", "wrapper": "deserialize_any integer", "got": e.to_string()}),
            }
        }
        match liquid_core::model::from_value::<serde_json::Value>(&Value::scalar(1.5f64)) {
            Ok(j) => if j.as_f64() != Some(1.5) { return json!({"outcome": "violation", "wrapper": "deserialize_any float", "got": j.to_string()}); },
            Err(e) => return json!({"outcome": "violation", "wrapper": "deserialize_any float", "got": e.to_string()}),
        }
    }
    let none: Option<Value> = None;
    if view_summary(&none) != view_summary(&Value::Nil) {
        return json!({"outcome": "violation", "wrapper": "None", "got": view_summary(&none)});
    }
    json!({"outcome": "ok", "values": samples.len()})
}

pub fn run(kind: &str, sc: &J) -> J {
    match kind {
        "strftime" => {
            use liquid_core::model::DateTime;
            let g = |k: &str| sc.get(k).and_then(|v| v.as_i64()).unwrap_or(0);
            let fmt = sc.get("fmt").and_then(|v| v.as_str()).unwrap_or("");
            let month = time::Month::try_from(g("month").clamp(1, 12) as u8).unwrap();
            let mut day = g("day").clamp(1, 31) as u8;
            let date = loop {
                match time::Date::from_calendar_date(g("year") as i32, month, day) { Ok(d) => break d, Err(_) => day -= 1 }
            };
            let t = time::Time::from_hms_nano(g("hour").clamp(0, 23) as u8, g("minute").clamp(0, 59) as u8, g("second").clamp(0, 59) as u8, g("nanosecond").clamp(0, 999_999_999) as u32).unwrap();
            let off = time::UtcOffset::from_hms(g("off_h") as i8, g("off_m") as i8, g("off_s") as i8).unwrap_or(time::UtcOffset::UTC);
            let odt = time::PrimitiveDateTime::new(date, t).assume_offset(off);
            let mut dt = DateTime::from_ymd(2020, 1, 1);
            *dt = odt;
            let iso = odt.to_iso_week_date();
            let fields = json!({"year": odt.year(), "month": odt.month() as u8, "day": odt.day(), "hour": odt.hour(), "minute": odt.minute(), "second": odt.second(),
                "nanosecond": odt.nanosecond(), "weekday": odt.weekday().number_days_from_monday(), "ordinal": odt.ordinal(), "unix_timestamp": odt.unix_timestamp(),
                "sunday_based_week": odt.sunday_based_week(), "monday_based_week": odt.monday_based_week(), "iso_year": iso.0, "iso_week": iso.1,
                "off_neg": off.is_negative(), "off_h": off.whole_hours(), "off_m": off.minutes_past_hour(), "off_s": off.seconds_past_minute()});
            match dt.format(fmt) {
                Ok(s) => json!({"outcome": "ok", "output": s, "fields": fields}),
                Err(e) => json!({"outcome": "err", "error": e.to_string(), "fields": fields}),
            }
        }
        "stores" => {
            // history of contains / try_get / get calls on the three partial stores built over the same in-memory source
            use liquid_core::partials::{EagerCompiler, InMemorySource, LazyCompiler, OnDemandCompiler, PartialCompiler};
            let mk_src = || {
                let mut src = InMemorySource::new();
                if let Some(m) = sc.get("partials").and_then(|p| p.as_object()) {
                    for (k, v) in m { src.add(k.clone(), v.as_str().unwrap_or("").to_owned()); }
                }
                src
            };
            let lang = std::sync::Arc::new(liquid_core::Language::empty());
            let hist: Vec<(String, String)> = sc.get("history").and_then(|h| h.as_array()).map(|a| a.iter().map(|c| (c[0].as_str().unwrap_or("").to_owned(), c[1].as_str().unwrap_or("").to_owned())).collect()).unwrap_or_default();
            let mut all: Vec<(String, Vec<String>)> = Vec::new();
            for pol in ["eager", "lazy", "ondemand"] {
                let built = std::panic::catch_unwind(std::panic::AssertUnwindSafe(|| match pol {
                    "eager" => EagerCompiler::new(mk_src()).compile(lang.clone()),
                    "lazy" => LazyCompiler::new(mk_src()).compile(lang.clone()),
                    _ => OnDemandCompiler::new(mk_src()).compile(lang.clone()),
                }));
                let store = match built {
                    Ok(Ok(s)) => s,
                    Ok(Err(e)) => return json!({"outcome": "violation", "what": format!("{}: building the store failed: {}", pol, e)}),
                    Err(_) => return json!({"outcome": "violation", "what": format!("{}: building the store panicked", pol)}),
                };
                let mut answers = Vec::new();
                for (m, n) in &hist {
                    let r = std::panic::catch_unwind(std::panic::AssertUnwindSafe(|| match m.as_str() {
                        "get" => if store.get(n).is_ok() { "ok".to_owned() } else { "err".to_owned() },
                        "try_get" => if store.try_get(n).is_some() { "some".to_owned() } else { "none".to_owned() },
                        _ => store.contains(n).to_string(),
                    }));
                    match r {
                        Ok(a) => answers.push(a),
                        Err(_) => return json!({"outcome": "violation", "what": format!("{}: {}({}) panicked", pol, m, n)}),
                    }
                }
                all.push((pol.to_owned(), answers));
            }
            let expected: Vec<String> = sc.get("expected").and_then(|h| h.as_array()).map(|a| a.iter().map(|x| x.as_str().unwrap_or("").to_owned()).collect()).unwrap_or_default();
            for (pol, answers) in &all {
                if answers != &all[0].1 { return json!({"outcome": "violation", "what": format!("{} answers {:?} but eager answers {:?}", pol, answers, all[0].1)}); }
                if !expected.is_empty() && answers != &expected { return json!({"outcome": "violation", "what": format!("{} answers {:?}, expected {:?}", pol, answers, expected)}); }
            }
            json!({"outcome": "ok", "answers": all[0].1})
        }
        "datetime_roundtrip" => {
            use liquid_core::model::DateTime;
            let g = |k: &str| sc.get(k).and_then(|v| v.as_i64()).unwrap_or(0);
            let mut dt = DateTime::from_ymd(2020, 6, 15);
            *dt = *dt + time::Duration::seconds(g("secs")) + time::Duration::nanoseconds(g("nanosecond"));
            *dt = dt.to_offset(time::UtcOffset::from_hms(g("off") as i8, 0, 0).unwrap());
            let printed = dt.to_string();
            match DateTime::from_str(&printed) {
                Some(back) => json!({"outcome": "ok", "printed": printed, "same": *back == *dt && back.offset() == dt.offset()}),
                None => json!({"outcome": "ok", "printed": printed, "same": false}),
            }
        }
        "datetime_cmp" => {
            use liquid_core::model::DateTime;
            let g = |k: &str| sc.get(k).and_then(|v| v.as_i64()).unwrap_or(0);
            let base = DateTime::from_ymd(2020, 6, 15);
            let mut a = base;
            *a = (*base + time::Duration::seconds(g("sa")) + time::Duration::nanoseconds(g("na"))).to_offset(time::UtcOffset::from_hms(g("oa") as i8, 0, 0).unwrap());
            let mut b = base;
            *b = (*base + time::Duration::seconds(g("sb")) + time::Duration::nanoseconds(g("nb"))).to_offset(time::UtcOffset::from_hms(g("ob") as i8, 0, 0).unwrap());
            let (x, y) = (ScalarCow::new(a), ScalarCow::new(b));
            json!({"outcome": "ok", "eq": x == y, "cmp": ord_str(x.partial_cmp(&y))})
        }
        "narrow" => narrow(sc),
        "views" => views(sc),
        "scalar_rel" => scalar_rel(sc),
        "vec_index" => vec_index(sc),
        "stack" => {
            let globals = to_obj(sc.get("globals"));
            let rt = RuntimeBuilder::new().set_globals(&globals).build();
            let ops: Vec<J> = sc.get("ops").and_then(|o| o.as_array()).cloned().unwrap_or_default();
            go(&rt, &rt, &ops, sc)
        }
        _ => json!({"outcome": "unknown-kind", "kind": kind}),
    }
}
