//! Scenarios that exercise the Rust API directly (not through template text).
use serde_json::{json, Value as J};

pub fn run(kind: &str, _sc: &J) -> J {
    json!({"outcome": "unknown-kind", "kind": kind})
}
