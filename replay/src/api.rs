//! Scenarios that exercise the Rust API directly (not through template text).
use liquid_core::model::{KString, Object, ScalarCow, Value, ValueView};
use liquid_core::runtime::{GlobalFrame, Interrupt, InterruptRegister, RuntimeBuilder, SandboxedStackFrame, StackFrame};
use liquid_core::Runtime;
use serde_json::{json, Value as J};

fn to_obj(j: Option<&J>) -> Object {
    match j {
        Some(g) => liquid_core::model::to_object(g).unwrap_or_default(),
        None => Object::new(),
    }
}

fn to_val(j: &J) -> Value {
    liquid_core::model::to_value(j).unwrap_or(Value::Nil)
}

fn val_json(v: &dyn ValueView) -> J {
    serde_json::to_value(v.to_value()).unwrap_or(J::Null)
}

fn interrupt_of(rt: &dyn Runtime) -> &'static str {
    let r = rt.registers().get_mut::<InterruptRegister>();
    // peek without clearing: reset() takes the value, so put it back
    let mut r = r;
    match r.reset() {
        Some(Interrupt::Break) => {
            r.set(Interrupt::Break);
            "break"
        }
        Some(Interrupt::Continue) => {
            r.set(Interrupt::Continue);
            "continue"
        }
        None => "none",
    }
}

fn observe(rt: &dyn Runtime, base: &dyn Runtime, sc: &J) -> J {
    let mut qs = Vec::new();
    if let Some(queries) = sc.get("queries").and_then(|q| q.as_array()) {
        for q in queries {
            let path: Vec<ScalarCow<'_>> = q
                .as_array()
                .map(|a| {
                    a.iter()
                        .map(|k| match k {
                            J::String(s) => ScalarCow::new(s.clone()),
                            J::Number(n) => ScalarCow::new(n.as_i64().unwrap_or(0)),
                            _ => ScalarCow::new("?"),
                        })
                        .collect()
                })
                .unwrap_or_default();
            let t = rt.try_get(&path).map(|v| val_json(v.as_view()));
            let g = rt.get(&path).ok().map(|v| val_json(v.as_view()));
            qs.push(json!({"path": q, "try_get": t, "get": g}));
        }
    }
    let roots: Vec<String> = rt.roots().into_iter().map(|k| k.as_str().to_owned()).collect();
    let mut index = serde_json::Map::new();
    for k in ["a", "b", "z"] {
        if let Some(v) = rt.get_index(k) {
            index.insert(k.to_owned(), val_json(v.as_view()));
        }
    }
    let top_i = interrupt_of(rt);
    let base_i = interrupt_of(base);
    json!({"outcome": "ok", "queries": qs, "roots": roots, "index": index, "top_interrupt": top_i, "base_interrupt": base_i})
}

fn go(rt: &dyn Runtime, base: &dyn Runtime, ops: &[J], sc: &J) -> J {
    if ops.is_empty() {
        return observe(rt, base, sc);
    }
    let op = &ops[0];
    let rest = &ops[1..];
    if let Some(kind) = op.get("push").and_then(|p| p.as_str()) {
        let data = to_obj(op.get("data"));
        match kind {
            "plain" => {
                let f = StackFrame::new(rt, data);
                go(&f, base, rest, sc)
            }
            "sandbox" => {
                let f = SandboxedStackFrame::new(rt, data);
                go(&f, base, rest, sc)
            }
            "global" => {
                let f = GlobalFrame::new(rt);
                go(&f, base, rest, sc)
            }
            _ => json!({"outcome": "bad-op"}),
        }
    } else if let Some(a) = op.get("set_global").and_then(|p| p.as_array()) {
        rt.set_global(KString::from_ref(a[0].as_str().unwrap_or("")), to_val(&a[1]));
        go(rt, base, rest, sc)
    } else if let Some(a) = op.get("set_index").and_then(|p| p.as_array()) {
        rt.set_index(KString::from_ref(a[0].as_str().unwrap_or("")), to_val(&a[1]));
        go(rt, base, rest, sc)
    } else if let Some(k) = op.get("set_interrupt").and_then(|p| p.as_str()) {
        rt.registers()
            .get_mut::<InterruptRegister>()
            .set(if k == "break" { Interrupt::Break } else { Interrupt::Continue });
        go(rt, base, rest, sc)
    } else {
        json!({"outcome": "bad-op"})
    }
}

fn scalar_from(j: &J) -> ScalarCow<'static> {
    let kind = j.get("kind").and_then(|k| k.as_str()).unwrap_or("i64");
    let bits = j.get("bits").and_then(|b| b.as_u64()).unwrap_or(0);
    match kind {
        "i64" => ScalarCow::new(bits as i64),
        "f64" => ScalarCow::new(f64::from_bits(bits)),
        "bool" => ScalarCow::new(bits & 1 == 1),
        _ => ScalarCow::new(j.get("text").and_then(|t| t.as_str()).unwrap_or("").to_owned()),
    }
}

fn ord_str(o: Option<std::cmp::Ordering>) -> &'static str {
    match o {
        Some(std::cmp::Ordering::Less) => "lt",
        Some(std::cmp::Ordering::Equal) => "eq",
        Some(std::cmp::Ordering::Greater) => "gt",
        None => "none",
    }
}

fn scalar_rel(sc: &J) -> J {
    let a = scalar_from(&sc["a"]);
    let b = scalar_from(&sc["b"]);
    let va = Value::Scalar(a.clone());
    let vb = Value::Scalar(b.clone());
    let ca = liquid_core::model::ValueCow::Borrowed(&va);
    let cb = liquid_core::model::ValueCow::Borrowed(&vb);
    let n = Value::Nil;
    json!({"outcome": "ok",
        "eq_ab": a == b, "eq_ba": b == a, "ne_ab": a != b, "lt_ab": a < b, "gt_ab": a > b, "le_ab": a <= b, "ge_ab": a >= b,
        "lt_ba": b < a, "gt_ba": b > a, "le_ba": b <= a, "ge_ba": b >= a,
        "cmp_ab": ord_str(a.partial_cmp(&b)), "cmp_ba": ord_str(b.partial_cmp(&a)),
        "eq_aa": a == a.clone(), "cmp_aa": ord_str(a.partial_cmp(&a.clone())),
        "value_eq_ab": va == vb, "value_eq_ba": vb == va, "cow_eq_ab": ca == cb, "cow_value_eq": ca == vb,
        "nil_eq_a": n == va, "a_eq_nil": va == n, "nil_eq_nil": n == Value::Nil})
}

fn vec_index(sc: &J) -> J {
    use liquid_core::model::ArrayView;
    let len = sc.get("len").and_then(|l| l.as_u64()).unwrap_or(0) as usize;
    let idx = sc.get("idx").and_then(|l| l.as_i64()).unwrap_or(0);
    let v: Vec<i64> = (0..len).map(|i| 100 + i as i64).collect();
    let got = ArrayView::get(&v, idx).and_then(|x| x.as_scalar()).and_then(|s| s.to_integer());
    json!({"outcome": "ok", "get": got, "contains_key": ArrayView::contains_key(&v, idx), "size": ArrayView::size(&v),
        "first": ArrayView::first(&v).is_some(), "last": ArrayView::last(&v).is_some()})
}

pub fn run(kind: &str, sc: &J) -> J {
    match kind {
        "scalar_rel" => scalar_rel(sc),
        "vec_index" => vec_index(sc),
        "stack" => {
            let globals = to_obj(sc.get("globals"));
            let rt = RuntimeBuilder::new().set_globals(&globals).build();
            let ops: Vec<J> = sc.get("ops").and_then(|o| o.as_array()).cloned().unwrap_or_default();
            go(&rt, &rt, &ops, sc)
        }
        _ => json!({"outcome": "unknown-kind", "kind": kind}),
    }
}
