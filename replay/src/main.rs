//! Native replay driver: runs scenarios (one JSON object per stdin line) through the public API of the
//! crates under /repo and prints one JSON result per line.  Panics are caught and reported as such.
use std::io::{BufRead, Write};
use std::panic::{catch_unwind, AssertUnwindSafe};

use serde_json::{json, Value as J};

mod api;

fn partials(sc: &J) -> liquid::partials::InMemorySource {
    let mut src = liquid::partials::InMemorySource::new();
    if let Some(m) = sc.get("partials").and_then(|p| p.as_object()) {
        for (k, v) in m {
            src.add(k.clone(), v.as_str().unwrap_or("").to_owned());
        }
    }
    src
}

fn build_parser(sc: &J) -> Result<liquid::Parser, liquid::Error> {
    let policy = sc.get("policy").and_then(|p| p.as_str()).unwrap_or("eager");
    // `"parser": "stdlib"` keeps the standard filters only (jekyll::Sort registers itself under the name `sort` too)
    let stdlib_only = sc.get("parser").and_then(|p| p.as_str()) == Some("stdlib");
    if stdlib_only {
        let b = liquid::ParserBuilder::with_stdlib();
        return match policy {
            "lazy" => b.partials(liquid::partials::LazyCompiler::new(partials(sc))).build(),
            "ondemand" => b.partials(liquid::partials::OnDemandCompiler::new(partials(sc))).build(),
            _ => b.partials(liquid::partials::EagerCompiler::new(partials(sc))).build(),
        };
    }
    let b = liquid::ParserBuilder::with_stdlib()
        .filter(liquid_lib::jekyll::Slugify)
        .filter(liquid_lib::jekyll::Push)
        .filter(liquid_lib::jekyll::Pop)
        .filter(liquid_lib::jekyll::Unshift)
        .filter(liquid_lib::jekyll::Shift)
        .filter(liquid_lib::jekyll::ArrayToSentenceString)
        .filter(liquid_lib::jekyll::Sort)
        .filter(liquid_lib::shopify::Pluralize)
        .filter(liquid_lib::extra::DateInTz);
    match policy {
        "lazy" => b.partials(liquid::partials::LazyCompiler::new(partials(sc))).build(),
        "ondemand" => b.partials(liquid::partials::OnDemandCompiler::new(partials(sc))).build(),
        _ => b.partials(liquid::partials::EagerCompiler::new(partials(sc))).build(),
    }
}

fn globals(sc: &J) -> liquid::Object {
    match sc.get("globals") {
        Some(g) => liquid::model::to_object(g).unwrap_or_default(),
        None => liquid::Object::new(),
    }
}

struct FailingSink {
    fail_at: usize,
    calls: usize,
    accepted: Vec<u8>,
    calls_after_failure: usize,
    failed: bool,
}
impl Write for FailingSink {
    fn write(&mut self, buf: &[u8]) -> std::io::Result<usize> {
        if self.failed {
            self.calls_after_failure += 1;
        }
        self.calls += 1;
        if self.calls == self.fail_at {
            self.failed = true;
            return Err(std::io::Error::new(std::io::ErrorKind::Other, "sink failure"));
        }
        if self.failed {
            return Err(std::io::Error::new(std::io::ErrorKind::Other, "sink failure"));
        }
        self.accepted.extend_from_slice(buf);
        Ok(buf.len())
    }
    fn flush(&mut self) -> std::io::Result<()> {
        Ok(())
    }
}

fn run_template(sc: &J) -> J {
    let src = sc.get("template").and_then(|t| t.as_str()).unwrap_or("").to_owned();
    let parser = match catch_unwind(AssertUnwindSafe(|| build_parser(sc))) {
        Ok(Ok(p)) => p,
        Ok(Err(e)) => return json!({"stage": "build", "outcome": "err", "error": e.to_string()}),
        Err(p) => return json!({"stage": "build", "outcome": "panic", "panic": panic_msg(p)}),
    };
    let tmpl = match catch_unwind(AssertUnwindSafe(|| parser.parse(&src))) {
        Ok(Ok(t)) => t,
        Ok(Err(e)) => return json!({"stage": "parse", "outcome": "err", "error": e.to_string()}),
        Err(p) => return json!({"stage": "parse", "outcome": "panic", "panic": panic_msg(p)}),
    };
    let g = globals(sc);
    let repeat = sc.get("repeat").and_then(|r| r.as_u64()).unwrap_or(1);
    let mut outs = Vec::new();
    for _ in 0..repeat {
        if let Some(k) = sc.get("fail_at").and_then(|k| k.as_u64()) {
            let mut sink = FailingSink { fail_at: k as usize, calls: 0, accepted: Vec::new(), calls_after_failure: 0, failed: false };
            let r = catch_unwind(AssertUnwindSafe(|| tmpl.render_to(&mut sink, &g)));
            let acc = String::from_utf8_lossy(&sink.accepted).into_owned();
            outs.push(match r {
                Ok(Ok(())) => json!({"stage": "render", "outcome": "ok", "output": acc, "calls": sink.calls, "failed": sink.failed, "calls_after_failure": sink.calls_after_failure}),
                Ok(Err(e)) => json!({"stage": "render", "outcome": "err", "error": e.to_string(), "output": acc, "calls": sink.calls, "failed": sink.failed, "calls_after_failure": sink.calls_after_failure}),
                Err(p) => json!({"stage": "render", "outcome": "panic", "panic": panic_msg(p), "output": acc}),
            });
        } else {
            outs.push(match catch_unwind(AssertUnwindSafe(|| tmpl.render(&g))) {
                Ok(Ok(s)) => json!({"stage": "render", "outcome": "ok", "output": s}),
                Ok(Err(e)) => json!({"stage": "render", "outcome": "err", "error": e.to_string()}),
                Err(p) => json!({"stage": "render", "outcome": "panic", "panic": panic_msg(p)}),
            });
        }
    }
    if outs.len() == 1 {
        outs.pop().unwrap()
    } else {
        json!({"stage": "render", "outcome": "multi", "runs": outs})
    }
}

/// exhaustive sink-fault sweep of one template: fail the k-th write for every k
fn run_sinkfault(sc: &J) -> J {
    let src = sc.get("template").and_then(|t| t.as_str()).unwrap_or("").to_owned();
    let parser = match build_parser(sc) {
        Ok(p) => p,
        Err(e) => return json!({"outcome": "err", "stage": "build", "error": e.to_string()}),
    };
    let tmpl = match parser.parse(&src) {
        Ok(t) => t,
        Err(e) => return json!({"outcome": "err", "stage": "parse", "error": e.to_string()}),
    };
    let g = globals(sc);
    let mut free = FailingSink { fail_at: 0, calls: 0, accepted: Vec::new(), calls_after_failure: 0, failed: false };
    let r0 = catch_unwind(AssertUnwindSafe(|| tmpl.render_to(&mut free, &g)));
    let full = free.accepted.clone();
    let w = free.calls;
    match r0 {
        Ok(Ok(())) => {}
        Ok(Err(e)) => {
            // streaming failed without any sink fault: a violation if the buffering render succeeds
            if let Ok(Ok(s)) = catch_unwind(AssertUnwindSafe(|| tmpl.render(&g))) {
                return json!({"outcome": "violation", "what": "render_to fails where render succeeds", "error": e.to_string(), "buffered": s});
            }
            return json!({"outcome": "err", "stage": "render", "error": e.to_string()});
        }
        Err(p) => return json!({"outcome": "violation", "what": "panic without fault", "panic": panic_msg(p)}),
    }
    let buffered = catch_unwind(AssertUnwindSafe(|| tmpl.render(&g)));
    if let Ok(Ok(s)) = &buffered {
        if s.as_bytes() != full.as_slice() {
            return json!({"outcome": "violation", "what": "streamed bytes differ from buffered render", "streamed": String::from_utf8_lossy(&full), "buffered": s});
        }
    }
    // a sink that accepts one byte per `write` call and never fails: the streamed bytes must still be complete
    {
        struct OneByte(Vec<u8>);
        impl Write for OneByte {
            fn write(&mut self, buf: &[u8]) -> std::io::Result<usize> {
                if buf.is_empty() {
                    return Ok(0);
                }
                self.0.push(buf[0]);
                Ok(1)
            }
            fn flush(&mut self) -> std::io::Result<()> {
                Ok(())
            }
        }
        let mut ob = OneByte(Vec::new());
        let r = catch_unwind(AssertUnwindSafe(|| tmpl.render_to(&mut ob, &g)));
        match r {
            Ok(Ok(())) => {
                if ob.0 != full {
                    return json!({"outcome": "violation", "what": "short writes lose output", "streamed": String::from_utf8_lossy(&ob.0), "expected": String::from_utf8_lossy(&full)});
                }
            }
            Ok(Err(e)) => return json!({"outcome": "violation", "what": "error with a sink that never fails", "error": e.to_string()}),
            Err(p) => return json!({"outcome": "violation", "what": "panic", "panic": panic_msg(p)}),
        }
    }
    for k in 1..=w {
        let mut sink = FailingSink { fail_at: k, calls: 0, accepted: Vec::new(), calls_after_failure: 0, failed: false };
        let r = catch_unwind(AssertUnwindSafe(|| tmpl.render_to(&mut sink, &g)));
        let acc = String::from_utf8_lossy(&sink.accepted).into_owned();
        match r {
            Err(p) => return json!({"outcome": "violation", "what": "panic", "k": k, "panic": panic_msg(p)}),
            Ok(Ok(())) => return json!({"outcome": "violation", "what": "Ok returned although a write failed", "k": k, "accepted": acc}),
            Ok(Err(_)) => {
                if sink.calls_after_failure > 0 {
                    return json!({"outcome": "violation", "what": "write after failure", "k": k, "calls_after_failure": sink.calls_after_failure, "accepted": acc});
                }
                if !full.starts_with(&sink.accepted) {
                    return json!({"outcome": "violation", "what": "accepted bytes are not a prefix of the fault-free output", "k": k, "accepted": acc, "full": String::from_utf8_lossy(&full)});
                }
            }
        }
    }
    json!({"outcome": "ok", "writes": w, "output": String::from_utf8_lossy(&full)})
}

fn panic_msg(p: Box<dyn std::any::Any + Send>) -> String {
    if let Some(s) = p.downcast_ref::<&str>() {
        (*s).to_owned()
    } else if let Some(s) = p.downcast_ref::<String>() {
        s.clone()
    } else {
        "<non-string panic>".to_owned()
    }
}

fn main() {
    std::panic::set_hook(Box::new(|_| {}));
    let stdin = std::io::stdin();
    let stdout = std::io::stdout();
    for line in stdin.lock().lines() {
        let line = match line {
            Ok(l) => l,
            Err(_) => break,
        };
        if line.trim().is_empty() {
            continue;
        }
        let sc: J = match serde_json::from_str(&line) {
            Ok(v) => v,
            Err(e) => {
                println!("{}", json!({"outcome": "bad-scenario", "error": e.to_string()}));
                continue;
            }
        };
        let kind = sc.get("kind").and_then(|k| k.as_str()).unwrap_or("template").to_owned();
        let res = match kind.as_str() {
            "template" => run_template(&sc),
            "policies" => {
                // the same scenario under the three partial-compilation policies, rendered twice each: all must agree
                let mut results = Vec::new();
                for pol in ["eager", "lazy", "ondemand"] {
                    let mut sc2 = sc.clone();
                    sc2["policy"] = json!(pol);
                    sc2["repeat"] = json!(2);
                    let r = run_template(&sc2);
                    let summary = |x: &J| json!({"outcome": x.get("outcome"), "output": x.get("output"), "stage": x.get("stage")});
                    let runs: Vec<J> = match r.get("runs").and_then(|x| x.as_array()) { Some(a) => a.iter().map(summary).collect(), None => vec![summary(&r)] };
                    results.push((pol, runs, r));
                }
                let base = results[0].1.clone();
                let mut bad = None;
                for (pol, runs, full) in &results {
                    if full.get("stage").and_then(|s| s.as_str()) == Some("build") { bad = Some(format!("{}: building the parser failed: {}", pol, full)); break; }
                    if runs.iter().any(|x| x.get("outcome").and_then(|o| o.as_str()) == Some("panic")) { bad = Some(format!("{}: panic: {}", pol, full)); break; }
                    if runs.len() == 2 && runs[0] != runs[1] { bad = Some(format!("{}: the second render differs from the first: {:?}", pol, runs)); break; }
                    if runs.first() != base.first() { bad = Some(format!("{} answers {:?} but eager answers {:?}", pol, runs.first(), base.first())); break; }
                }
                match bad {
                    Some(b) => json!({"outcome": "violation", "what": b}),
                    None => json!({"outcome": "ok", "runs": base}),
                }
            }
            "sinkfault" => match catch_unwind(AssertUnwindSafe(|| run_sinkfault(&sc))) {
                Ok(v) => v,
                Err(p) => json!({"outcome": "violation", "what": "panic", "panic": panic_msg(p)}),
            },
            other => match catch_unwind(AssertUnwindSafe(|| api::run(other, &sc))) {
                Ok(v) => v,
                Err(p) => json!({"outcome": "panic", "panic": panic_msg(p)}),
            },
        };
        let mut o = stdout.lock();
        let _ = writeln!(o, "{}", res);
        let _ = o.flush();
    }
}
