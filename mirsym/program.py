"""Loads the MIR dumps of liquid-core / liquid-lib / liquid (regenerated from /repo's working tree) and resolves callees."""
import os, re, glob, subprocess, time, hashlib, sys
from .mir import parse_mir
from .srcinfo import SrcInfo
from .values import *
from .exec import Unsupported, strip_generics, type_head, GENERIC_NAME

REPO = os.environ.get('VERIF_REPO', '/repo')
VERIF = os.path.dirname(os.path.dirname(os.path.abspath(__file__)))
TARGET = os.path.join(VERIF, 'target', 'mirbuild')

CRATES = [('core', 'liquid-core', 'liquid_core', []), ('lib', 'liquid-lib', 'liquid_lib', ['--all-features']), ('liquid', 'liquid', 'liquid', [])]


def dump_mir(crates=('core', 'lib', 'liquid'), log=None):
    """(re)generate the MIR text from /repo's current working tree; returns {crate: path}"""
    out = {}
    env = dict(os.environ, CARGO_TARGET_DIR=TARGET, CARGO_NET_OFFLINE='true', RUSTUP_TOOLCHAIN='nightly')
    env.pop('RUSTFLAGS', None)
    for short, pkg, stem, extra in CRATES:
        if short not in crates: continue
        t0 = time.time()
        cmd = ['cargo', 'rustc', '--offline', '-p', pkg, '--lib'] + extra + ['--', '--emit=mir', '-C', 'overflow-checks=on', '-C', 'debug-assertions=off', '-A', 'warnings']
        r = subprocess.run(cmd, cwd=REPO, env=env, stdout=subprocess.PIPE, stderr=subprocess.STDOUT, text=True)
        if r.returncode != 0:
            raise RuntimeError(f'MIR dump of {pkg} failed:\n{r.stdout[-4000:]}')
        cands = glob.glob(os.path.join(TARGET, 'debug', 'deps', stem + '-*.mir'))
        if not cands:
            raise RuntimeError(f'no MIR file produced for {pkg}')
        cands.sort(key=os.path.getmtime)
        out[short] = cands[-1]
        for old in cands[:-1]:
            try: os.remove(old)
            except OSError: pass
        if log: log(f'mir dump {pkg}: {time.time() - t0:.1f}s -> {os.path.basename(out[short])}')
    return out


class Program:
    def __init__(self, crates=('core', 'lib', 'liquid'), log=None, dump=True):
        t0 = time.time()
        self.paths = dump_mir(crates, log) if dump else {s: sorted(glob.glob(os.path.join(TARGET, 'debug', 'deps', stem + '-*.mir')), key=os.path.getmtime)[-1] for s, _, stem, _ in CRATES if s in crates}
        self.dump_s = time.time() - t0
        self.src = SrcInfo(REPO)
        self.fns = []
        self.static_allocs = {}
        for short in crates:
            txt = open(self.paths[short]).read()
            self.fns += parse_mir(txt, short)
            for m in re.finditer(r'^(alloc\d+) \(static: ([\w:]+)', txt, re.M):
                self.static_allocs[(short, m.group(1))] = m.group(2)
        self.by_short = {}
        self.by_name = {}
        for f in self.fns: self.by_name.setdefault(f.name, f)
        self.closures = {}
        for f in self.fns:
            if '{closure#' in f.name or f.name.endswith('}') and 'closure' in f.name:
                if f.params:
                    m = re.search(r'\{closure@[^}]*\}', f.params[0])
                    if m: self.closures.setdefault(m.group(0), []).append(f)
                continue
            self.by_short.setdefault(f.short, []).append(f)
        self._hdr = {}

    # ---- lookup used by obligations
    def find(self, pattern, crate=None):
        c = [f for f in self.fns if re.search(pattern, f.sig) and (crate is None or f.crate == crate)]
        if len(c) != 1:
            raise Unsupported(f'target lookup {pattern!r}: {len(c)} candidates {[x.name for x in c[:5]]}')
        return c[0]

    def find_method(self, selfty, method, trait=None, crate=None, where=None):
        c = []
        for f in self.by_short.get(method, []):
            if crate and f.crate != crate: continue
            if where and where not in f.name: continue
            tr, ty = self.header(f)
            if ty == selfty and (trait is None or tr == trait or (tr or '').startswith('derive:')):
                if trait is None and tr is not None and not (tr or '').startswith('derive:'):
                    pass
                c.append(f)
        if trait is None and len(c) > 1:
            inh = [f for f in c if self.header(f)[0] is None]
            if len(inh) == 1: c = inh
        if len(c) != 1:
            raise Unsupported(f'method lookup {selfty}::{method} (trait {trait}): {len(c)} candidates {[x.name for x in c[:5]]}')
        return c[0]

    def promoted(self, fn, n):
        base = fn.name
        # closures share their parent's promoteds? no: each body has its own; names are `<body name>::promoted[n]`
        return self.by_name.get(f'{base}::promoted[{n}]')

    def static_fn(self, crate, alloc):
        name = self.static_allocs.get((crate, alloc))
        if name is None: return None
        c = [f for f in self.fns if f.crate == crate and f.name.startswith('static:') and (f.name[7:] == name or f.name.endswith('::' + name))]
        return c[0] if len(c) == 1 else None

    def closure_fn(self, key, parent=None, nargs=None, names=None, args=None, st=None, hint=None):
        c = self.closures.get(key, [])
        if len(c) > 1 and args is not None and st is not None:
            def compatible(f):
                ps = f.params[1:]
                if len(ps) != len(args): return False
                for p_, a in zip(ps, args):
                    pty = p_.split(':', 1)[1].strip()
                    if pty.startswith('&') != isinstance(a, Ref) and not GENERIC_NAME.match(type_head(pty)):
                        return False
                    want = type_head(pty)
                    v = st.deref_all(a) if isinstance(a, Ref) else a
                    have = v.ty if isinstance(v, (Adt, Int, StrV)) else ('f64' if isinstance(v, Float) else 'bool' if isinstance(v, Bool) else None)
                    if have is not None and want != have and not GENERIC_NAME.match(want) and not want.startswith('dyn '):
                        if isinstance(v, StrV) and want in ('str', 'String', 'KString', 'KStringCow', 'KStringRef', 'KStringBase', 'KStringCowBase'): continue
                        return False
                return True
            c2 = [f for f in c if compatible(f)]
            if c2: c = c2
        if len(c) > 1 and parent:
            c2 = [f for f in c if f.name.startswith(parent + '::{closure#') and '::{closure#' not in f.name[len(parent) + 2 + len('{closure#'):]]
            if c2: c = c2
        if len(c) > 1 and nargs is not None:
            c2 = [f for f in c if len(f.params) == nargs + 1]
            if c2: c = c2
        if len(c) > 1 and names is not None:
            # captured variable names appear as `debug <name> => ...` lines of the closure body
            def caps(f):
                return set(re.findall(r'debug (\w+) => \(?\(?\*?_1', '\n'.join(f.text)))
            c2 = [f for f in c if caps(f) == set(names)]
            if c2: c = c2
        if len(c) > 1 and hint:
            # the call site spells the closure's return type in its generic arguments (e.g. Option::map::<Result<i64, E>, {closure}>)
            norm = lambda t: re.sub(r"\s+", '', re.sub(r"(?:\w+::)+", '', t))
            h = norm(hint)
            c2 = [f for f in c if norm(f.ret) and ('<' + norm(f.ret) + ',') in h]
            if len(c2) >= 1 and len(c2) < len(c): c = c2
        if len(c) == 1: return c[0]
        if not c: return None
        raise Unsupported(f'ambiguous closure {key} (parent {parent}): {[f.name for f in c]}')

    def header(self, f):
        """(trait head or None, self type head) for an impl method; (None, None) for free fns"""
        h = self._hdr.get(f.name)
        if h is None:
            if f.impl_span:
                tr, ty, kind = self.src.impl_header(f.impl_span)
                if kind != 'impl' or ty is None:
                    # derive or unknown: self type from the first parameter if it looks like self
                    ty2 = None
                    if f.params:
                        ty2 = type_head(f.params[0].split(':', 1)[1])
                    h = (tr, ty or ty2)
                    if kind == 'derive':
                        h = (tr, ty2 or ty)
                else:
                    h = (tr, ty)
            else:
                h = (None, None)
            self._hdr[f.name] = h
        return h

    # ---- callee resolution
    def resolve(self, callee, args, st, caller=None):
        callee = callee.strip()
        m = re.match(r'^<(.+) as ([^<>]+(?:<.*>)?)>::(\w+)(?:::<.*>)?$', callee, re.S)
        if m:
            selfty, trait, method = m.group(1).strip(), type_head(m.group(2)), m.group(3)
            head = type_head(selfty)
            heads = [head]
            rt = self._runtime_type(args, st)
            if GENERIC_NAME.match(head) or head.startswith('dyn ') or head not in self._known_types():
                heads = [rt] if rt else []
            elif rt and rt != head:
                heads.append(rt)
            heads += ['&' + h for h in heads if not h.startswith('&')]
            for h in heads:
                c = [f for f in self.by_short.get(method, []) if self.header(f)[1] == h and self._trait_ok(self.header(f)[0], trait)]
                if len(c) == 1: return c[0]
                if len(c) > 1:
                    want = self.src._generic_heads(m.group(2))
                    if trait == 'From' and len(want) == 1 and GENERIC_NAME.match(want[0]) and args:
                        vt = self._value_type(args[0], st)
                        if vt: want = [vt]
                    c2 = [f for f in c if self.src.trait_args.get(f.impl_span, []) == want]
                    if not c2 and not want:
                        # defaulted `Rhs = Self`
                        c2 = [f for f in c if self.src.trait_args.get(f.impl_span, []) in ([h], [])]
                        if len(c2) > 1: c2 = [f for f in c2 if self.src.trait_args.get(f.impl_span, []) == [h]] or c2
                    if len(c2) == 1: return c2[0]
                    # two types of the same name in different modules (stdlib and jekyll both have an `IncludeTag`): the check may state which one it built
                    pref = getattr(self, 'prefer_paths', None)
                    if pref:
                        c3 = [f for f in c if any(p_ in f.name for p_ in pref)]
                        if len(c3) == 1: return c3[0]
                    raise Unsupported(f'ambiguous trait method {callee} (args {[repr(a)[:60] for a in args]}): {len(c)} candidates {[x.name for x in c[:3]]}')
            # provided (default) trait method
            c = [f for f in self.by_short.get(method, []) if not f.impl_span and f.name.endswith(f'{trait}::{method}')]
            c = list({f.name: f for f in c}.values())
            if len(c) == 1: return c[0]
            return None
        # inherent method or free function
        segs = [s for s in strip_generics(callee).split('::') if s]
        segs = [s for s in segs if s not in ('liquid_core', 'liquid_lib', 'liquid', 'crate')]
        if not segs: return None
        method = segs[-1]
        cands = self.by_short.get(method, [])
        if len(segs) >= 2:
            ty = segs[-2]
            c = [f for f in cands if self.header(f)[0] is None and self.header(f)[1] == ty]
            if len(c) == 1: return c[0]
            if len(c) > 1:
                raise Unsupported(f'ambiguous inherent method {callee}: {[x.name for x in c]}')
        # free function: match by path suffix
        c = []
        for f in cands:
            if f.impl_span: continue
            fsegs = [s for s in f.name.split('::') if s]
            k = min(len(fsegs), len(segs))
            if fsegs[-k:] == segs[-k:]:
                c.append(f)
        if len(c) > 1 and len({f.name for f in c}) == 1 and len({f.crate for f in c}) == 1:
            c = c[:1]
        if len(c) == 1: return c[0]
        if len(c) > 1:
            # prefer the same crate as the caller
            if caller is not None:
                same = [f for f in c if f.crate == caller.crate]
                if len(same) == 1: return same[0]
            raise Unsupported(f'ambiguous function {callee}: {[x.name for x in c]}')
        # a re-exported free function (`liquid_core::model::try_find` is `model::find::try_find`): the only free function of that name
        free = [f for f in cands if not f.impl_span and '{closure' not in f.name and [s for s in f.name.split('::') if s][-1] == method]
        if len({f.name for f in free}) == 1 and len(segs) >= 2:
            return free[0]
        return None

    @staticmethod
    def _trait_ok(impl_trait, want):
        if impl_trait is None: return False
        if impl_trait.startswith('derive:'): return True
        return impl_trait == want

    def _known_types(self):
        k = getattr(self, '_kt', None)
        if k is None:
            k = set(self.src.structs) | set(self.src.enums) | set(self.src.tuple_structs)
            self._kt = k
        return k

    def _value_type(self, v, st):
        if isinstance(v, Int): return v.ty
        if isinstance(v, Float): return 'f64'
        if isinstance(v, Bool): return 'bool'
        if isinstance(v, Char): return 'char'
        if isinstance(v, Ref):
            t = st.deref(v)
            if isinstance(t, StrV): return '&' + t.ty
            if isinstance(t, Ref): return self._value_type(t, st)
            return None
        if isinstance(v, StrV): return v.ty
        if isinstance(v, Adt): return v.ty
        return None

    def _runtime_type(self, args, st):
        if not args: return None
        v = args[0]
        v = st.deref_all(v) if isinstance(v, Ref) else v
        if isinstance(v, Adt): return v.ty
        if isinstance(v, VecV): return 'Vec'
        if isinstance(v, StrV): return v.ty
        if isinstance(v, Int): return v.ty
        if isinstance(v, Float): return 'f64'
        if isinstance(v, Bool): return 'bool'
        if hasattr(v, 'keys') and hasattr(v, 'ty'): return v.ty      # MapV: 'Object' | 'HashMap' | 'BTreeMap'
        return None
