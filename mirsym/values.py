"""Value domain of the MIR symbolic executor. All values are immutable."""
import z3

INT_TYPES = {'i8': (8, True), 'i16': (16, True), 'i32': (32, True), 'i64': (64, True), 'isize': (64, True), 'i128': (128, True),
             'u8': (8, False), 'u16': (16, False), 'u32': (32, False), 'u64': (64, False), 'usize': (64, False), 'u128': (128, False)}


class Val:
    __slots__ = ()


class Int(Val):
    __slots__ = ('e', 'ty')

    def __init__(self, e, ty):
        if isinstance(e, int):
            e = z3.BitVecVal(e, INT_TYPES[ty][0])
        self.e, self.ty = e, ty

    @property
    def bits(self): return INT_TYPES[self.ty][0]

    @property
    def signed(self): return INT_TYPES[self.ty][1]

    def concrete(self):
        s = z3.simplify(self.e)
        if z3.is_bv_value(s):
            return s.as_signed_long() if self.signed else s.as_long()
        return None

    def __repr__(self):
        c = self.concrete()
        return f'{c}_{self.ty}' if c is not None else f'Int<{self.ty}>({self.e})'


class Bool(Val):
    __slots__ = ('e',)

    def __init__(self, e):
        if isinstance(e, bool): e = z3.BoolVal(e)
        self.e = e

    def concrete(self):
        s = z3.simplify(self.e)
        if z3.is_true(s): return True
        if z3.is_false(s): return False
        return None

    def __repr__(self):
        c = self.concrete()
        return str(c).lower() if c is not None else f'Bool({self.e})'


class Float(Val):
    __slots__ = ('e', 'ty')

    def __init__(self, e, ty='f64'):
        self.e, self.ty = e, ty

    def __repr__(self): return f'Float({self.e})'


class Char(Val):
    """unicode scalar value as a 32-bit bit-vector (callers constrain validity)"""
    __slots__ = ('e',)

    def __init__(self, e):
        if isinstance(e, int): e = z3.BitVecVal(e, 32)
        elif isinstance(e, str): e = z3.BitVecVal(ord(e), 32)
        self.e = e

    def concrete(self):
        s = z3.simplify(self.e)
        return s.as_long() if z3.is_bv_value(s) else None

    def __repr__(self):
        c = self.concrete()
        return repr(chr(c)) if c is not None else f'Char({self.e})'


class Tup(Val):
    __slots__ = ('items',)

    def __init__(self, items): self.items = tuple(items)

    def with_item(self, i, v):
        it = list(self.items); it[i] = v
        return Tup(it)

    def __repr__(self): return '(' + ', '.join(map(repr, self.items)) + ')'


UNIT = Tup(())


class Adt(Val):
    """struct (variant None) or enum value with a path-concrete variant"""
    __slots__ = ('ty', 'variant', 'items', 'names')

    def __init__(self, ty, variant, items, names=None):
        self.ty, self.variant, self.items, self.names = ty, variant, tuple(items), (tuple(names) if names else None)

    def with_item(self, i, v):
        it = list(self.items)
        while len(it) <= i: it.append(UNINIT)
        it[i] = v
        return Adt(self.ty, self.variant, it, self.names)

    def field(self, name):
        return self.items[self.names.index(name)]

    def __repr__(self):
        h = self.ty + ('::' + self.variant if self.variant else '')
        if self.names:
            return h + '{' + ', '.join(f'{n}: {v!r}' for n, v in zip(self.names, self.items)) + '}'
        return h + ('(' + ', '.join(map(repr, self.items)) + ')' if self.items else '')


class Ref(Val):
    __slots__ = ('alloc', 'path', 'mut')

    def __init__(self, alloc, path=(), mut=False):
        self.alloc, self.path, self.mut = alloc, tuple(path), mut

    def __repr__(self): return f'&{"mut " if self.mut else ""}@{self.alloc}{list(self.path) if self.path else ""}'


class Closure(Val):
    __slots__ = ('key', 'items', 'names', 'parent')

    def __init__(self, key, items, names=None, parent=None):
        self.key, self.items, self.names, self.parent = key, tuple(items), names, parent

    def with_item(self, i, v):
        it = list(self.items); it[i] = v
        return Closure(self.key, it, self.names, self.parent)

    def __repr__(self): return f'Closure({self.key[-24:]}, {list(self.items)})'


class FnItem(Val):
    __slots__ = ('name',)

    def __init__(self, name): self.name = name

    def __repr__(self): return f'fn {self.name}'


class Opaque(Val):
    """uninterpreted token; equality is by tag"""
    __slots__ = ('tag', 'ty')

    def __init__(self, tag, ty=None): self.tag, self.ty = tag, ty

    def __eq__(self, o): return isinstance(o, Opaque) and o.tag == self.tag

    def __hash__(self): return hash(('Opaque', self.tag))

    def __repr__(self): return f'<{self.tag}>'


class Uninit(Val):
    __slots__ = ()

    def __repr__(self): return 'UNINIT'


UNINIT = Uninit()


class VecV(Val):
    """Vec / slice / array model: path-concrete length, cells may be anything"""
    __slots__ = ('items', 'ty')

    def __init__(self, items, ty='Vec'): self.items, self.ty = tuple(items), ty

    def with_item(self, i, v):
        it = list(self.items); it[i] = v
        return VecV(it, self.ty)

    def __repr__(self): return 'vec' + repr(list(self.items))


class StrV(Val):
    """String / str / KString model: a path-concrete number of chars; each char is a python int (concrete) or z3 BV32"""
    __slots__ = ('chars', 'ty', 'facts')

    def __init__(self, chars, ty='str', facts=None):
        if isinstance(chars, str): chars = [ord(c) for c in chars]
        self.chars, self.ty, self.facts = tuple(chars), ty, facts

    def retag(self, ty):
        """same text as another string type (copies keep abstract facts such as parse results)"""
        return StrV(self.chars, ty, self.facts)

    def concrete(self):
        if self.facts is not None: return None
        out = []
        for c in self.chars:
            if isinstance(c, int): out.append(chr(c))
            else:
                s = z3.simplify(c)
                if z3.is_bv_value(s): out.append(chr(s.as_long()))
                else: return None
        return ''.join(out)

    def __repr__(self):
        if self.facts is not None: return f'AbsStr<{self.ty}>({self.facts.get("name")}:{self.facts.get("parts", "")})'
        c = self.concrete()
        return ('s' + repr(c)) if c is not None else f'Str{list(self.chars)}'


class Abs(Val):
    """abstract environment object: all method calls whose receiver is this value go to handler"""
    __slots__ = ('name', 'handler', 'data')

    def __init__(self, name, handler, data=None): self.name, self.handler, self.data = name, handler, data

    def __repr__(self): return f'Abs({self.name})'


class Py(Val):
    """model-private immutable python payload (iterators, maps, ...)"""
    __slots__ = ('kind', 'data')

    def __init__(self, kind, data): self.kind, self.data = kind, data

    def __repr__(self): return f'Py<{self.kind}>({self.data!r})'


def mk_option(v=None, some=None):
    if some is not None: return Adt('Option', 'Some', [some])
    return Adt('Option', 'None', [])


NONE = Adt('Option', 'None', [])


def Some(v): return Adt('Option', 'Some', [v])


def Ok(v): return Adt('Result', 'Ok', [v])


def Err(v): return Adt('Result', 'Err', [v])


def fp_to_float(v):
    """concrete z3 FP numeral (Float64) -> python float, bit-exact"""
    import struct
    bv = z3.simplify(z3.fpToIEEEBV(v))
    if not z3.is_bv_value(bv):
        if v.isNaN(): return float('nan')
        raise ValueError('not a concrete FP value')
    return struct.unpack('<d', struct.pack('<Q', bv.as_long()))[0]
