"""Models of the percent-encoding crate (2.3, outside /repo: pinned by Cargo.lock) per its documentation:
AsciiSet constants / add / remove, utf8_percent_encode, percent_decode + decode_utf8.  Encoding and decoding work on
symbolic characters: UTF-8 bytes are expressions of the code point (length class forked), hex digits are expressions."""
import z3
from ..values import *
from ..exec import Unsupported
from .core import model, ret
from .strings import str_of, fix_lengths, ch_expr
from .iters import mk_list_iter

ALNUM = frozenset(range(48, 58)) | frozenset(range(65, 91)) | frozenset(range(97, 123))
CONTROLS = frozenset(range(0, 32)) | {127}
NON_ALPHANUMERIC = frozenset(range(128)) - ALNUM

CONST_MODELS = {
    'percent_encoding::NON_ALPHANUMERIC': lambda st: st.ref(Py('asciiset', NON_ALPHANUMERIC)),
    'percent_encoding::CONTROLS': lambda st: st.ref(Py('asciiset', CONTROLS)),
}


def _set(st, v):
    t = st.deref_all(v)
    if isinstance(t, Py) and t.kind == 'asciiset': return t.data
    raise Unsupported(f'expected an AsciiSet model, got {t!r}')


@model(r'^(?:percent_encoding::)?AsciiSet::(remove|add)$')
def asciiset_edit(ctx, args, st):
    s = _set(st, args[0]); b = args[1].concrete()
    if b is None: raise Unsupported('AsciiSet edit with a symbolic byte')
    return ret(st, Py('asciiset', (s - {b}) if ctx.callee.endswith('remove') else (s | {b})))


def utf8_bytes(c, n):
    """BV32 expressions (0..255) of the n UTF-8 bytes of code point c"""
    c = ch_expr(c)
    if n == 1: return [c]
    if n == 2: return [0xC0 | z3.LShR(c, 6), 0x80 | (c & 0x3F)]
    if n == 3: return [0xE0 | z3.LShR(c, 12), 0x80 | (z3.LShR(c, 6) & 0x3F), 0x80 | (c & 0x3F)]
    return [0xF0 | z3.LShR(c, 18), 0x80 | (z3.LShR(c, 12) & 0x3F), 0x80 | (z3.LShR(c, 6) & 0x3F), 0x80 | (c & 0x3F)]


def hexd(n):
    return z3.If(z3.ULT(n, 10), n + 48, n + 55)


def simp_char(e):
    e = z3.simplify(e)
    return e.as_long() if z3.is_bv_value(e) else e


@model(r'^(?:percent_encoding::)?utf8_percent_encode$')
def utf8_percent_encode(ctx, args, st):
    s = str_of(st, args[0]); aset = _set(st, args[1])
    if s.facts is not None: raise Unsupported('percent-encoding an abstract string')
    def member(c):
        return z3.Or(*[ch_expr(c) == b for b in sorted(aset)]) if aset else z3.BoolVal(False)
    def g():
        for s1, lens in fix_lengths(ctx.ex, st, s):
            def go(s_, i, out):
                if i == len(s.chars):
                    yield s_, 'ret', mk_list_iter([s_.ref(StrV(out, 'str'))]); return
                c, n = s.chars[i], lens[i]
                if n > 1:
                    enc = []
                    for b in utf8_bytes(c, n): enc += [ord('%'), simp_char(hexd(z3.LShR(b, 4))), simp_char(hexd(b & 15))]
                    yield from go(s_, i + 1, out + enc); return
                if isinstance(c, int):
                    yield from go(s_, i + 1, out + ([ord(x) for x in '%%%02X' % c] if c in aset else [c])); return
                for s2, yes in ctx.ex.fork_bool(s_, member(c)):
                    if yes: yield from go(s2, i + 1, out + [ord('%'), simp_char(hexd(z3.LShR(c, 4))), simp_char(hexd(c & 15))])
                    else: yield from go(s2, i + 1, out + [c])
            yield from go(s1, 0, [])
    return g()


@model(r'^(?:percent_encoding::)?percent_decode$')
def percent_decode(ctx, args, st):
    v = st.deref_all(args[0])
    if not isinstance(v, VecV): raise Unsupported(f'percent_decode of {v!r}')
    return ret(st, Py('pctdecode', tuple(v.items)))


def hexval(ex, st, b):
    """generator (st, value expr or None): b (BV32 0..255) as a hex digit; one fork (digit or not), the value is an expression"""
    lo = z3.And(z3.UGE(b, 48), z3.ULE(b, 57)); up = z3.And(z3.UGE(b, 65), z3.ULE(b, 70)); lw = z3.And(z3.UGE(b, 97), z3.ULE(b, 102))
    for s1, d in ex.fork_bool(st, z3.Or(lo, up, lw)):
        yield s1, (z3.If(lo, b - 48, z3.If(up, b - 55, b - 87)) if d else None)


def decode_bytes(ex, st, bs):
    """generator (st, [decoded byte exprs]): %XX with two hex digits -> byte, everything else literal"""
    def go(s_, i, out):
        if i >= len(bs):
            yield s_, out; return
        b = bs[i]
        for s1, pct in ex.fork_bool(s_, b == ord('%')):
            if not pct or i + 2 >= len(bs):
                yield from go(s1, i + 1, out + [b]); continue
            for s2, h in hexval(ex, s1, bs[i + 1]):
                if h is None:
                    yield from go(s2, i + 1, out + [b]); continue
                for s3, l in hexval(ex, s2, bs[i + 2]):
                    if l is None: yield from go(s3, i + 1, out + [b])
                    else: yield from go(s3, i + 3, out + [z3.simplify(h * 16 + l)])
    yield from go(st, 0, [])


def utf8_decode(ex, st, bs):
    """generator (st, [chars] or None): strict UTF-8 validation of byte expressions (BV32 0..255), as core::str::from_utf8"""
    def cont(b): return z3.And(z3.UGE(b, 0x80), z3.ULE(b, 0xBF))
    def go(s_, i, out):
        if i >= len(bs):
            yield s_, out; return
        b0 = bs[i]
        for s1, a in ex.fork_bool(s_, z3.ULT(b0, 0x80)):
            if a:
                yield from go(s1, i + 1, out + [b0]); continue
            for s2, two in ex.fork_bool(s1, z3.And(z3.UGE(b0, 0xC2), z3.ULE(b0, 0xDF))):
                if two:
                    if i + 1 >= len(bs): yield s2, None; continue
                    for s3, ok in ex.fork_bool(s2, cont(bs[i + 1])):
                        if ok: yield from go(s3, i + 2, out + [z3.simplify(((b0 & 0x1F) << 6) | (bs[i + 1] & 0x3F))])
                        else: yield s3, None
                    continue
                for s3, three in ex.fork_bool(s2, z3.And(z3.UGE(b0, 0xE0), z3.ULE(b0, 0xEF))):
                    if three:
                        if i + 2 >= len(bs): yield s3, None; continue
                        b1, b2 = bs[i + 1], bs[i + 2]
                        lo = z3.If(b0 == 0xE0, z3.BitVecVal(0xA0, 32), z3.BitVecVal(0x80, 32)); hi = z3.If(b0 == 0xED, z3.BitVecVal(0x9F, 32), z3.BitVecVal(0xBF, 32))
                        for s4, ok in ex.fork_bool(s3, z3.And(z3.UGE(b1, lo), z3.ULE(b1, hi), cont(b2))):
                            if ok: yield from go(s4, i + 3, out + [z3.simplify(((b0 & 0x0F) << 12) | ((b1 & 0x3F) << 6) | (b2 & 0x3F))])
                            else: yield s4, None
                        continue
                    for s4, four in ex.fork_bool(s3, z3.And(z3.UGE(b0, 0xF0), z3.ULE(b0, 0xF4))):
                        if not four or i + 3 >= len(bs):
                            yield s4, None; continue
                        b1, b2, b3 = bs[i + 1], bs[i + 2], bs[i + 3]
                        lo = z3.If(b0 == 0xF0, z3.BitVecVal(0x90, 32), z3.BitVecVal(0x80, 32)); hi = z3.If(b0 == 0xF4, z3.BitVecVal(0x8F, 32), z3.BitVecVal(0xBF, 32))
                        for s5, ok in ex.fork_bool(s4, z3.And(z3.UGE(b1, lo), z3.ULE(b1, hi), cont(b2), cont(b3))):
                            if ok: yield from go(s5, i + 4, out + [z3.simplify(((b0 & 0x07) << 18) | ((b1 & 0x3F) << 12) | ((b2 & 0x3F) << 6) | (b3 & 0x3F))])
                            else: yield s5, None
    yield from go(st, 0, [])


def _b32(v):
    if isinstance(v, Int):
        c = v.concrete()
        return z3.BitVecVal(c, 32) if c is not None else z3.ZeroExt(24, v.e)
    raise Unsupported(f'byte {v!r}')


@model(r'^(?:percent_encoding::)?PercentDecode::<\'_>::(decode_utf8|decode_utf8_lossy)$|^(?:percent_encoding::)?PercentDecode::(decode_utf8|decode_utf8_lossy)$')
def pct_decode_utf8(ctx, args, st):
    v = st.deref_all(args[0])
    if not (isinstance(v, Py) and v.kind == 'pctdecode'): raise Unsupported(f'decode_utf8 of {v!r}')
    lossy = ctx.callee.endswith('lossy')
    bs = [_b32(x) for x in v.data]
    def g():
        for s1, dec in decode_bytes(ctx.ex, st, bs):
            for s2, chars in utf8_decode(ctx.ex, s1, dec):
                if chars is None:
                    if lossy: yield s2, 'ret', StrV([0xFFFD], 'String')     # some repaired string (exact replacement positions not modelled; a witness is replayed natively)
                    else: yield s2, 'ret', Err(Adt('Utf8Error', None, []))
                else:
                    sv = StrV([simp_char(c) for c in chars], 'String')
                    yield s2, 'ret', (sv if lossy else Ok(sv))
    return g()
