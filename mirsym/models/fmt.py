"""format_args!/write! model for this nightly's fmt::Arguments representation (template bytes + argument slice; decoded
against library/core/src/fmt/mod.rs of the installed rust-src).  Integers and strings with concrete values are rendered
exactly (default options, width, zero flag, left/right alignment); everything else stays an opaque 'display-of(value)' part."""
import re
import z3
from ..values import *
from ..exec import Unsupported
from .core import model, ret, panic, is_adt


def decode_bytes_literal(txt):
    """MIR prints byte-string consts like b"\\x0e<tr class=\\"row\\xc0\\x02\\">\\x00" -> bytes"""
    out = bytearray(); i = 0
    while i < len(txt):
        c = txt[i]
        if c == '\\':
            d = txt[i + 1]
            if d == 'x': out.append(int(txt[i + 2:i + 4], 16)); i += 4
            elif d == 'n': out.append(10); i += 2
            elif d == 't': out.append(9); i += 2
            elif d == 'r': out.append(13); i += 2
            elif d == '0': out.append(0); i += 2
            elif d in '\\"\'': out.append(ord(d)); i += 2
            else: raise Unsupported(f'byte literal escape \\{d}')
        else:
            out += c.encode('utf-8'); i += 1
    return bytes(out)


def decode_template(b):
    """-> list of ('lit', str) | ('arg', index or None, opts dict)"""
    parts = []; i = 0; n = len(b)
    while i < n:
        c = b[i]; i += 1
        if c == 0 and i >= n: break
        if c == 0:
            break
        if c < 0x80:
            parts.append(('lit', b[i:i + c].decode('utf-8'))); i += c
        elif c == 0x80:
            ln = int.from_bytes(b[i:i + 2], 'little'); i += 2
            parts.append(('lit', b[i:i + ln].decode('utf-8'))); i += ln
        elif c >= 0xC0:
            opts = {}
            idx = None
            if c & 1: opts['flags'] = int.from_bytes(b[i:i + 4], 'little'); i += 4
            if c & 2: opts['width'] = int.from_bytes(b[i:i + 2], 'little'); i += 2
            if c & 4: opts['precision'] = int.from_bytes(b[i:i + 2], 'little'); i += 2
            if c & 8: idx = int.from_bytes(b[i:i + 2], 'little'); i += 2
            if c & 16: opts['width_indirect'] = True
            if c & 32: opts['precision_indirect'] = True
            parts.append(('arg', idx, opts))
        else:
            raise Unsupported(f'fmt template byte {c:#x}')
    return parts


@model(r'^core::fmt::rt::Argument::<\'_>::new_(display|debug|lower_hex|upper_hex)::<')
def arg_new(ctx, args, st):
    kind = re.search(r'new_(\w+)::<', ctx.callee).group(1)
    return ret(st, Py('fmtarg', (kind, args[0])))


@model(r'^(?:std::fmt::|core::fmt::)?Arguments::<\'_>::new::<')
def arguments_new(ctx, args, st):
    t = args[0]
    if isinstance(t, Ref): t = st.deref_all(t)
    if not (isinstance(t, Opaque) and isinstance(t.tag, tuple) and t.tag[0] == 'bytes'):
        raise Unsupported(f'fmt template {t!r}')
    parts = decode_template(decode_bytes_literal(t.tag[1]))
    arr = st.deref_all(args[1])
    return ret(st, Py('fmtargs', (tuple(parts), tuple(arr.items))))


@model(r'^(?:std::fmt::|core::fmt::)?Arguments::<\'_>::(from_str|from_str_nonconst|new_const)(?:::<.*>)?$')
def arguments_from_str(ctx, args, st):
    s = st.deref_all(args[0])
    if isinstance(s, VecV):   # new_const(&[&str])
        lits = [st.deref_all(x) for x in s.items]
        return ret(st, Py('fmtargs', (tuple(('lit', l.concrete()) for l in lits), ())))
    return ret(st, Py('fmtargs', ((('lit', s.concrete() if s.concrete() is not None else s),), ())))


FLAG_SIGN_PLUS = 1 << 21
FLAG_ZERO_PAD = 1 << 24   # see FormattingOptions::flags in this toolchain; only used when present in a template
ALIGN_SHIFT = 29


def render_parts(st, fa):
    """-> list of python str (concrete text) or tuples ('disp', value-repr) for opaque pieces"""
    parts, argv = fa.data
    out = []; nxt = 0
    for p in parts:
        if p[0] == 'lit':
            out.append(p[1] if isinstance(p[1], str) else ('disp', repr(p[1])))
            continue
        _, idx, opts = p
        if idx is None: idx = nxt
        nxt = idx + 1
        a = argv[idx]
        kind, ref = a.data
        v = st.deref_all(ref)
        text = None
        if kind == 'display':
            if isinstance(v, Int):
                c = v.concrete()
                if c is not None: text = str(c)
            elif isinstance(v, StrV):
                text = v.concrete()
            elif isinstance(v, Char):
                c = v.concrete()
                if c is not None: text = chr(c)
            elif isinstance(v, Bool):
                c = v.concrete()
                if c is not None: text = 'true' if c else 'false'
        if text is not None:
            w = opts.get('width')
            if opts.get('width_indirect'):
                wv = st.deref_all(argv[w].data[1]); w = wv.concrete() if isinstance(wv, Int) else None
                if w is None: text = None
            if text is not None and w:
                flags = opts.get('flags', 0)
                align = (flags >> ALIGN_SHIFT) & 3
                fill = chr(flags & 0x1FFFFF) if flags & 0x1FFFFF else ' '
                pad = max(0, w - len(text))
                if isinstance(v, Int) and (flags & FLAG_ZERO_PAD):
                    neg = text.startswith('-')
                    text = ('-' if neg else '') + '0' * pad + text.lstrip('-')
                elif align == 0 and not isinstance(v, Int) or align == 0 and False:   # left (default for strings)
                    text = text + fill * pad
                elif align == 1 or (isinstance(v, Int) and align in (0, 3) and align != 0) or (isinstance(v, Int) and align == 3):
                    text = fill * pad + text
                elif align == 2:
                    text = fill * (pad // 2) + text + fill * (pad - pad // 2)
                else:
                    text = (fill * pad + text) if isinstance(v, Int) else (text + fill * pad)
        if text is None and kind == 'display' and isinstance(v, Int) and not opts:
            out.append(('int', v))        # symbolic integer with default formatting: kept symbolic for the obligation's VC
        else:
            out.append(text if text is not None else ('disp', kind, repr(v)))
    # merge adjacent literal strings
    merged = []
    for x in out:
        if isinstance(x, str) and merged and isinstance(merged[-1], str): merged[-1] += x
        else: merged.append(x)
    return merged


@model(r'^(?:std|alloc)::fmt::format$')
def fmt_format(ctx, args, st):
    parts = render_parts(st, args[0])
    if all(isinstance(p, str) for p in parts):
        return ret(st, StrV(''.join(parts), 'String'))
    return ret(st, StrV((), 'String', {'name': 'format!', 'parts': tuple(parts)}))


@model(r'^<(.+) as ToString>::to_string$')
def to_string(ctx, args, st):
    v = st.deref_all(args[0])
    if isinstance(v, Adt) and v.ty == 'DisplayCow':
        v = st.deref_all(v.items[0])
    if isinstance(v, Int) and v.concrete() is not None: return ret(st, StrV(str(v.concrete()), 'String'))
    if isinstance(v, Int): return ret(st, StrV((), 'String', {'name': 'to_string', 'parts': (('disp', 'display', repr(v)),), 'of': v}))
    if isinstance(v, StrV): return ret(st, v.retag('String'))
    if isinstance(v, Char):
        cv = v.concrete()
        return ret(st, StrV((cv if cv is not None else v.e,), 'String'))
    if isinstance(v, Bool) and v.concrete() is not None: return ret(st, StrV('true' if v.concrete() else 'false', 'String'))
    if isinstance(v, (Bool, Float, Char)) or isinstance(v, Adt):
        return ret(st, StrV((), 'String', {'name': 'to_string', 'parts': (('disp', 'display', repr(v)),), 'of': v}))
    return None
