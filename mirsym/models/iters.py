"""Iterator protocol model: lazy python descriptions of std iterator sources/adaptors; closures run through the executor.

An iterator value is Py('iter', desc) with desc one of
  ('list', items, pos)            items: tuple of values
  ('range', cur Int, end Int, inclusive, exhausted)
  ('map', inner, f) ('filter', inner, f) ('filter_map', inner, f) ('enumerate', inner, n) ('skip', inner, n Int|int) ('take', inner, n)
  ('chain', a, b) ('rev', inner) ('zip', a, b) ('peekable', inner, peeked) ('cloned', inner) ('once', v|None) ('empty',)
`step(ex, st, desc, depth)` yields (st', item-or-None, desc')."""
import re
import z3
from ..values import *
from ..exec import Unsupported, BoundHit
from .core import model, ret, panic, wrap_each, is_adt, vec_of, vec_ref, VEC_BOUND

RANGE_BOUND = 16


def mk_list_iter(items):
    return Py('iter', ('list', tuple(items), 0))


def is_iter(v):
    return isinstance(v, Py) and v.kind == 'iter'


def as_iter(ex, st, v):
    """IntoIterator::into_iter for model values"""
    if isinstance(v, Ref):
        t = st.deref(v)
        if is_iter(t): return t
        if isinstance(t, VecV):
            return mk_list_iter([Ref(v.alloc, v.path + (i,), v.mut) for i in range(len(t.items))])
        if isinstance(t, Ref): return as_iter(ex, st, t)
        if is_adt(t, 'Option'):
            return mk_list_iter([Ref(v.alloc, v.path + (0,), v.mut)] if t.variant == 'Some' else [])
        from .maps import MapV, SetV
        if isinstance(t, MapV):
            return mk_list_iter([Tup([StrV(k, 'KString'), Ref(v.alloc, v.path + (i,), v.mut)]) for i, k in enumerate(t.keys)])
        raise Unsupported(f'into_iter on reference to {t!r}')
    if is_iter(v): return v
    if isinstance(v, VecV): return mk_list_iter(v.items)
    if is_adt(v, 'Option'): return mk_list_iter(v.items if v.variant == 'Some' else [])
    if is_adt(v, 'Range') or is_adt(v, 'RangeInclusive'):
        return range_iter(v)
    from .maps import MapV, SetV
    if isinstance(v, SetV): return mk_list_iter([StrV(k, 'KString') for k in sorted(v.keys)])
    if isinstance(v, MapV): return mk_list_iter([Tup([StrV(k, 'KString'), x]) for k, x in zip(v.keys, v.items)])
    if isinstance(v, Adt):
        # a user type implementing Iterator (`impl<I: Iterator> IntoIterator for I` is the identity): drive its real `next`
        return Py('iter', ('mir', st.ref(v, True), v.ty))
    raise Unsupported(f'into_iter on {v!r}')


def range_iter(v):
    if v.ty == 'Range':
        return Py('iter', ('range', v.items[0], v.items[1], False, False))
    # RangeInclusive { start, end, exhausted }
    return Py('iter', ('range', v.items[0], v.items[1], True, False))


def step(ex, st, d, depth):
    k = d[0]
    if k == 'list':
        _, items, pos = d
        if pos >= len(items): yield st, None, d
        else: yield st, items[pos], ('list', items, pos + 1)
        return
    if k == 'empty':
        yield st, None, d; return
    if k == 'once':
        yield st, d[1], ('once', None); return
    if k == 'range':
        _, cur, end, incl, done = d
        if done:
            yield st, None, d; return
        lt = ex.binop('Le' if incl else 'Lt', cur, end)
        for s2, b in ex.fork_bool(st, lt.e):
            if not b:
                yield s2, None, ('range', cur, end, incl, True)
            else:
                nxt = ex.binop('Add', cur, Int(1, cur.ty))
                if incl:
                    # RangeInclusive: when cur == end the range becomes exhausted (no overflow on MAX)
                    for s3, last in ex.fork_bool(s2, cur.e == end.e):
                        yield s3, cur, ('range', cur if last else nxt, end, incl, last)
                else:
                    yield s2, cur, ('range', nxt, end, incl, False)
        return
    if k == 'map':
        _, inner, f = d
        for s2, item, inner2 in step(ex, st, inner, depth):
            if item is None:
                yield s2, None, ('map', inner2, f); continue
            for s3, kind, val in ex.call_value(f, [item], s2, depth):
                if kind != 'ret': yield s3, ('__panic__', val), ('map', inner2, f)
                else: yield s3, val, ('map', inner2, f)
        return
    if k == 'cloned':
        for s2, item, inner2 in step(ex, st, d[1], depth):
            yield s2, (s2.deref(item) if isinstance(item, Ref) else item), ('cloned', inner2)
        return
    if k in ('filter', 'filter_map'):
        _, inner, f = d
        def go(s, inner_d, fuel):
            if fuel <= 0: raise BoundHit('filter iterator fuel')
            for s2, item, inner2 in step(ex, s, inner_d, depth):
                if item is None:
                    yield s2, None, (k, inner2, f); continue
                if isinstance(item, tuple) and item and item[0] == '__panic__':
                    yield s2, item, (k, inner2, f); continue
                arg = s2.ref(item) if k == 'filter' else item
                for s3, kind, val in ex.call_value(f, [arg], s2, depth):
                    if kind != 'ret':
                        yield s3, ('__panic__', val), (k, inner2, f); continue
                    if k == 'filter':
                        for s4, b in ex.fork_bool(s3, val.e):
                            if b: yield s4, item, (k, inner2, f)
                            else: yield from go(s4, inner2, fuel - 1)
                    else:
                        if val.variant == 'Some': yield s3, val.items[0], (k, inner2, f)
                        else: yield from go(s3, inner2, fuel - 1)
        yield from go(st, inner, 64)
        return
    if k == 'take_while':
        _, inner, f, done = d
        if done:
            yield st, None, d; return
        for s2, item, inner2 in step(ex, st, inner, depth):
            if item is None or (isinstance(item, tuple) and item and item[0] == '__panic__'):
                yield s2, item, ('take_while', inner2, f, item is None); continue
            for s3, kind, val in ex.call_value(f, [s2.ref(item)], s2, depth):
                if kind != 'ret':
                    yield s3, ('__panic__', val), ('take_while', inner2, f, True); continue
                for s4, b in ex.fork_bool(s3, val.e):
                    if b: yield s4, item, ('take_while', inner2, f, False)
                    else: yield s4, None, ('take_while', inner2, f, True)
        return
    if k == 'skip_while':
        _, inner, f, started = d
        if started:
            for s2, item, inner2 in step(ex, st, inner, depth):
                yield s2, item, ('skip_while', inner2, f, True)
            return
        def go_sw(s, inner_d, fuel):
            if fuel <= 0: raise BoundHit('skip_while iterator fuel')
            for s2, item, inner2 in step(ex, s, inner_d, depth):
                if item is None or (isinstance(item, tuple) and item and item[0] == '__panic__'):
                    yield s2, item, ('skip_while', inner2, f, True); continue
                for s3, kind, val in ex.call_value(f, [s2.ref(item)], s2, depth):
                    if kind != 'ret':
                        yield s3, ('__panic__', val), ('skip_while', inner2, f, True); continue
                    for s4, b in ex.fork_bool(s3, val.e):
                        if b: yield from go_sw(s4, inner2, fuel - 1)
                        else: yield s4, item, ('skip_while', inner2, f, True)
        yield from go_sw(st, inner, 64)
        return
    if k == 'enumerate':
        _, inner, n = d
        for s2, item, inner2 in step(ex, st, inner, depth):
            if item is None: yield s2, None, ('enumerate', inner2, n)
            elif isinstance(item, tuple): yield s2, item, ('enumerate', inner2, n)
            else: yield s2, Tup([Int(n, 'usize'), item]), ('enumerate', inner2, n + 1)
        return
    if k == 'skip':
        _, inner, n = d
        if isinstance(n, int):
            if n == 0:
                for s2, item, inner2 in step(ex, st, inner, depth):
                    yield s2, item, ('skip', inner2, 0)
            else:
                for s2, item, inner2 in step(ex, st, inner, depth):
                    if item is None: yield s2, None, ('skip', inner2, 0)
                    else: yield from step(ex, s2, ('skip', inner2, n - 1), depth)
            return
        for s2, c in ex.concretize(st, n, 0, RANGE_BOUND):
            if c is None:
                # skipping more than the bound: drain the source completely (sources here are finite and short)
                c = RANGE_BOUND + 1
            yield from step(ex, s2, ('skip', inner, c), depth)
        return
    if k == 'take':
        _, inner, n = d
        if not isinstance(n, int):
            for s2, c in ex.concretize(st, n, 0, RANGE_BOUND):
                yield from step(ex, s2, ('take', inner, RANGE_BOUND + 1 if c is None else c), depth)
            return
        if n == 0:
            yield st, None, d; return
        for s2, item, inner2 in step(ex, st, inner, depth):
            yield s2, item, ('take', inner2, n - 1 if item is not None else 0)
        return
    if k == 'chain':
        _, a, b = d
        if a is not None:
            for s2, item, a2 in step(ex, st, a, depth):
                if item is None: yield from step(ex, s2, ('chain', None, b), depth)
                else: yield s2, item, ('chain', a2, b)
        else:
            for s2, item, b2 in step(ex, st, b, depth):
                yield s2, item, ('chain', None, b2)
        return
    if k == 'rev':
        inner = d[1]
        if inner[0] == 'list':
            _, items, pos = inner
            yield from step(ex, st, ('list', tuple(reversed(items[pos:])), 0), depth); return
        # DoubleEndedIterator over a finite source: take everything from the front, hand it out from the back
        # (sound for the pure sources/adaptors modelled here: list, enumerate, zip, map/cloned without effects)
        for s2, items in drain(ex, st, inner, depth):
            if isinstance(items, tuple):
                yield s2, items, ('empty',); continue
            yield from step(ex, s2, ('list', tuple(reversed(items)), 0), depth)
        return
    if k == 'zip':
        _, a, b = d
        for s2, x, a2 in step(ex, st, a, depth):
            if x is None:
                yield s2, None, ('zip', a2, b); continue
            for s3, y, b2 in step(ex, s2, b, depth):
                if y is None: yield s3, None, ('zip', a2, b2)
                else: yield s3, Tup([x, y]), ('zip', a2, b2)
        return
    if k == 'peekable':
        _, inner, peeked = d
        if peeked is not None:
            yield st, (peeked[0] if peeked else None), ('peekable', inner, None) if peeked else d
            return
        for s2, item, inner2 in step(ex, st, inner, depth):
            yield s2, item, ('peekable', inner2, None)
        return
    if k == 'mir':
        _, r, ty = d
        for s2, kind, val in ex.call(f'<{ty} as Iterator>::next', [r], st, depth):
            if kind != 'ret': yield s2, ('__panic__', val), d
            elif val.variant == 'None': yield s2, None, d
            else: yield s2, val.items[0], d
        return
    if k == 'pyiter':
        # ('pyiter', fn(ex, st, depth) -> generator of (st, item|None, desc'))
        yield from d[1](ex, st, depth); return
    raise Unsupported(f'iterator kind {k}')


def drain(ex, st, d, depth, limit=64):
    """yields (st', [items]) after exhausting the iterator; a closure panic yields (st', ('__panic__', msg))"""
    def go(s, dd, acc, fuel):
        if fuel <= 0: raise BoundHit('iterator longer than bound')
        for s2, item, d2 in step(ex, s, dd, depth):
            if item is None:
                yield s2, acc
            elif isinstance(item, tuple) and item and item[0] == '__panic__':
                yield s2, item
            else:
                yield from go(s2, d2, acc + [item], fuel - 1)
    yield from go(st, d, [], limit)


def iter_arg(st, v):
    """iterator value passed by value or by &mut"""
    if isinstance(v, Ref):
        t = st.deref(v)
        if isinstance(t, Ref): return iter_arg(st, t)
        return t, v
    return v, None


IT = r'^<.* as (?:Iterator|DoubleEndedIterator|ExactSizeIterator)>::'


@model(r'^<.* as IntoIterator>::into_iter$')
def into_iter(ctx, args, st):
    return ret(st, as_iter(ctx.ex, st, args[0]))


@model(r'^core::slice::<impl \[.*\]>::iter$|^(?:std::vec::)?Vec::<.*>::iter$')
def slice_iter(ctx, args, st):
    r = vec_ref(st, args[0])
    return ret(st, as_iter(ctx.ex, st, r))


@model(r'^core::slice::<impl \[.*\]>::iter_mut$')
def slice_iter_mut(ctx, args, st):
    r = vec_ref(st, args[0])
    return ret(st, as_iter(ctx.ex, st, Ref(r.alloc, r.path, True)))


@model(IT + r'next$')
def iter_next(ctx, args, st):
    it, r = iter_arg(st, args[0])
    if not is_iter(it): return None
    def g():
        for s2, item, d2 in step(ctx.ex, st, it.data, ctx.depth):
            if r is not None: s2.store(r, Py('iter', d2))
            if isinstance(item, tuple) and item and item[0] == '__panic__':
                yield s2, 'panic', item[1]
            else:
                yield s2, 'ret', (NONE if item is None else Some(item))
    return g()


def _adaptor(kind):
    def f(ctx, args, st):
        it, _ = iter_arg(st, args[0])
        if not is_iter(it):
            it = as_iter(ctx.ex, st, args[0])
        if kind in ('map', 'filter', 'filter_map'):
            return ret(st, Py('iter', (kind, it.data, args[1])))
        if kind in ('take_while', 'skip_while'):
            return ret(st, Py('iter', (kind, it.data, args[1], False)))
        if kind == 'enumerate': return ret(st, Py('iter', ('enumerate', it.data, 0)))
        if kind in ('skip', 'take'):
            n = args[1]; c = n.concrete()
            return ret(st, Py('iter', (kind, it.data, c if c is not None else n)))
        if kind == 'chain':
            other = as_iter(ctx.ex, st, args[1])
            return ret(st, Py('iter', ('chain', it.data, other.data)))
        if kind == 'zip':
            other = as_iter(ctx.ex, st, args[1])
            return ret(st, Py('iter', ('zip', it.data, other.data)))
        if kind == 'rev': return ret(st, Py('iter', ('rev', it.data)))
        if kind == 'peekable': return ret(st, Py('iter', ('peekable', it.data, None)))
        if kind in ('cloned', 'copied'): return ret(st, Py('iter', ('cloned', it.data)))
        raise Unsupported(kind)
    return f


for _k in ('take_while', 'skip_while', 'map', 'filter', 'filter_map', 'enumerate', 'skip', 'take', 'chain', 'zip', 'rev', 'peekable', 'cloned', 'copied'):
    model(IT + _k + r'(?:::<.*>)?$', 'iter_' + _k)(_adaptor(_k))


@model(IT + r'collect::<(.*)>$')
def iter_collect(ctx, args, st):
    it, _ = iter_arg(st, args[0])
    if not is_iter(it): it = as_iter(ctx.ex, st, args[0])
    m = re.search(r'collect::<(.*)>$', ctx.callee, re.S)
    target = m.group(1).strip()
    def g():
        for s2, items in drain(ctx.ex, st, it.data, ctx.depth):
            if isinstance(items, tuple):
                yield s2, 'panic', items[1]; continue
            if target.startswith(('Vec<', 'std::vec::Vec<')) or target == 'Vec<_>':
                yield s2, 'ret', VecV(items)
            elif target.startswith(('String', 'std::string::String')):
                chars = []
                for x in items:
                    if isinstance(x, Char): chars.append(x.concrete() if x.concrete() is not None else x.e)
                    elif isinstance(x, StrV): chars += list(x.chars)
                    elif isinstance(x, Ref): chars += list(s2.deref_all(x).chars)
                    else: raise Unsupported(f'collect String from {x!r}')
                yield s2, 'ret', StrV(chars, 'String')
            elif target.startswith(('Result<Vec<', 'std::result::Result<Vec<', 'std::result::Result<std::vec::Vec<')):
                out = []; err = None
                for x in items:
                    if x.variant == 'Err': err = x; break
                    out.append(x.items[0])
                # NOTE: std stops pulling from the source at the first Err; items after it were produced by drain but their
                # side effects (none for the pure closures used here) are not distinguished.
                yield s2, 'ret', (err if err is not None else Ok(VecV(out)))
            elif target.startswith(('Option<Vec<', 'std::option::Option<Vec<')):
                out = []; bad = False
                for x in items:
                    if x.variant == 'None': bad = True; break
                    out.append(x.items[0])
                yield s2, 'ret', (NONE if bad else Some(VecV(out)))
            elif 'Object' in target or 'HashMap' in target or 'BTreeMap' in target:
                from .maps import MapV, map_insert
                mv = MapV((), ())
                for x in items:
                    k = s2.deref_all(x.items[0])
                    kc = k.concrete() if isinstance(k, StrV) else None
                    if kc is None: raise Unsupported('collect map with symbolic key')
                    mv, _ = map_insert(mv, kc, x.items[1])
                yield s2, 'ret', mv
            else:
                raise Unsupported(f'collect::<{target}>')
    return g()


@model(IT + r'(count|last|all|any|for_each|fold|position|find|find_map|nth|sum|max|min|size_hint|len)(?:::<.*>)?$')
def iter_sink(ctx, args, st):
    it, r = iter_arg(st, args[0])
    if not is_iter(it): it = as_iter(ctx.ex, st, args[0])
    op = re.search(r'::(\w+)(?:::<.*>)?$', ctx.callee, re.S).group(1)
    ex = ctx.ex
    def g():
        if op in ('count', 'last', 'len'):
            for s2, items in drain(ex, st, it.data, ctx.depth):
                if isinstance(items, tuple): yield s2, 'panic', items[1]; continue
                if op in ('count', 'len'): yield s2, 'ret', Int(len(items), 'usize')
                else: yield s2, 'ret', (Some(items[-1]) if items else NONE)
            return
        if op in ('all', 'any', 'find', 'position', 'find_map'):
            f = args[1]
            def go(s, d, idx, fuel):
                if fuel <= 0: raise BoundHit('iterator fuel')
                for s2, item, d2 in step(ex, s, d, ctx.depth):
                    if r is not None: s2.store(r, Py('iter', d2))
                    if item is None:
                        yield s2, 'ret', {'all': Bool(True), 'any': Bool(False), 'find': NONE, 'position': NONE, 'find_map': NONE}[op]; continue
                    if isinstance(item, tuple): yield s2, 'panic', item[1]; continue
                    arg = s2.ref(item) if op == 'find' else item
                    for s3, kind, val in ex.call_value(f, [arg], s2, ctx.depth, ctx.callee):
                        if kind != 'ret': yield s3, kind, val; continue
                        if op == 'find_map':
                            if val.variant == 'Some': yield s3, 'ret', val
                            else: yield from go(s3, d2, idx + 1, fuel - 1)
                            continue
                        for s4, b in ex.fork_bool(s3, val.e):
                            if op == 'all':
                                if b: yield from go(s4, d2, idx + 1, fuel - 1)
                                else: yield s4, 'ret', Bool(False)
                            elif op == 'any':
                                if b: yield s4, 'ret', Bool(True)
                                else: yield from go(s4, d2, idx + 1, fuel - 1)
                            elif op == 'find':
                                if b: yield s4, 'ret', Some(item)
                                else: yield from go(s4, d2, idx + 1, fuel - 1)
                            else:
                                if b: yield s4, 'ret', Some(Int(idx, 'usize'))
                                else: yield from go(s4, d2, idx + 1, fuel - 1)
            yield from go(st, it.data, 0, 64); return
        if op == 'for_each':
            f = args[1]
            def go(s, d, fuel):
                if fuel <= 0: raise BoundHit('iterator fuel')
                for s2, item, d2 in step(ex, s, d, ctx.depth):
                    if item is None: yield s2, 'ret', UNIT; continue
                    if isinstance(item, tuple): yield s2, 'panic', item[1]; continue
                    for s3, kind, val in ex.call_value(f, [item], s2, ctx.depth, ctx.callee):
                        if kind != 'ret': yield s3, kind, val
                        else: yield from go(s3, d2, fuel - 1)
            yield from go(st, it.data, 64); return
        if op == 'fold':
            init, f = args[1], args[2]
            def go(s, d, acc, fuel):
                if fuel <= 0: raise BoundHit('iterator fuel')
                for s2, item, d2 in step(ex, s, d, ctx.depth):
                    if item is None: yield s2, 'ret', acc; continue
                    if isinstance(item, tuple): yield s2, 'panic', item[1]; continue
                    for s3, kind, val in ex.call_value(f, [acc, item], s2, ctx.depth, ctx.callee):
                        if kind != 'ret': yield s3, kind, val
                        else: yield from go(s3, d2, val, fuel - 1)
            yield from go(st, it.data, init, 64); return
        if op == 'nth':
            n = args[1]
            for s1, c in ex.concretize(st, n, 0, RANGE_BOUND):
                cc = RANGE_BOUND + 1 if c is None else c
                def go(s, d, left):
                    for s2, item, d2 in step(ex, s, d, ctx.depth):
                        if r is not None: s2.store(r, Py('iter', d2))
                        if item is None: yield s2, 'ret', NONE
                        elif isinstance(item, tuple): yield s2, 'panic', item[1]
                        elif left == 0: yield s2, 'ret', Some(item)
                        else: yield from go(s2, d2, left - 1)
                yield from go(s1, it.data, cc)
            return
        raise Unsupported(f'iterator sink {op}')
    return g()


@model(r'^<.* as Extend<.*>>::extend::<')
def extend(ctx, args, st):
    tgt_ref = args[0]
    while isinstance(st.deref(tgt_ref), Ref): tgt_ref = st.deref(tgt_ref)
    tgt = st.deref(tgt_ref)
    from .maps import MapV, SetV, map_insert
    if not isinstance(tgt, (VecV, StrV, MapV, SetV)):
        return None       # a user type's own Extend impl: run its MIR
    src = as_iter(ctx.ex, st, args[1])
    def g():
        for s2, items in drain(ctx.ex, st, src.data, ctx.depth):
            if isinstance(items, tuple): yield s2, 'panic', items[1]; continue
            if isinstance(tgt, VecV):
                s2.store(tgt_ref, VecV(tgt.items + tuple(items), tgt.ty))
            elif isinstance(tgt, SetV):
                ks = set(tgt.keys)
                for x in items:
                    k = s2.deref_all(x)
                    kc = k.concrete() if isinstance(k, StrV) else None
                    if kc is None: raise Unsupported('set extend with symbolic key')
                    ks.add(kc)
                s2.store(tgt_ref, SetV(ks))
            elif isinstance(tgt, StrV):
                chars = list(tgt.chars)
                for x in items:
                    x = s2.deref_all(x)
                    if isinstance(x, Char): chars.append(x.concrete() if x.concrete() is not None else x.e)
                    elif isinstance(x, StrV): chars += list(x.chars)
                    else: raise Unsupported(f'String::extend with {x!r}')
                s2.store(tgt_ref, StrV(chars, tgt.ty))
            elif isinstance(tgt, MapV):
                mv = tgt
                for x in items:
                    k = s2.deref_all(x.items[0]); kc = k.concrete() if isinstance(k, StrV) else None
                    if kc is None: raise Unsupported('map extend with symbolic key')
                    mv, _ = map_insert(mv, kc, x.items[1])
                s2.store(tgt_ref, mv)
            else:
                raise Unsupported(f'extend on {tgt!r}')
            yield s2, 'ret', UNIT
    return g()


@model(r'^(?:(?:std|core)::iter::)?(once|empty)::<')
def iter_once_empty(ctx, args, st):
    if '::once::<' in ctx.callee: return ret(st, Py('iter', ('once', args[0])))
    return ret(st, Py('iter', ('empty',)))


@model(r'^<.* as Iterator>::peek$|^Peekable::<.*>::peek$|^std::iter::Peekable::<.*>::peek$')
def iter_peek(ctx, args, st):
    it, r = iter_arg(st, args[0])
    d = it.data
    if d[0] != 'peekable': raise Unsupported('peek on non-peekable')
    _, inner, peeked = d
    if peeked is not None:
        return ret(st, Some(st.ref(peeked[0])) if peeked else NONE)
    def g():
        for s2, item, inner2 in step(ctx.ex, st, inner, ctx.depth):
            s2.store(r, Py('iter', ('peekable', inner2, (item,) if item is not None else ())))
            yield s2, 'ret', (Some(s2.ref(item)) if item is not None else NONE)
    return g()


@model(r'^itertools::join::<|^itertools::Itertools::join$|^<.* as Itertools>::join$')
def itertools_join(ctx, args, st):
    """itertools::join(iter, sep): concatenation of the Display forms -- an abstract string naming its parts"""
    src = as_iter(ctx.ex, st, args[0])
    sep = st.deref_all(args[1])
    def g():
        for s2, items in drain(ctx.ex, st, src.data, ctx.depth):
            if isinstance(items, tuple): yield s2, 'panic', items[1]; continue
            vals = [s2.deref_all(x) if isinstance(x, Ref) else x for x in items]
            if all(isinstance(v, StrV) and v.facts is None for v in vals) and isinstance(sep, StrV) and sep.facts is None:
                # plain strings (possibly with symbolic characters): the exact concatenation
                out = []
                for i, v in enumerate(vals):
                    if i: out += list(sep.chars)
                    out += list(v.chars)
                yield s2, 'ret', StrV(out, 'String'); continue
            parts = []
            for x in items:
                v = s2.deref_all(x) if isinstance(x, Ref) else x
                parts.append(v.concrete() if isinstance(v, StrV) and v.concrete() is not None else repr(v))
            sc = sep.concrete() if isinstance(sep, StrV) else repr(sep)
            if all(isinstance(p, str) for p in parts) and isinstance(sc, str) and all(isinstance(s2.deref_all(x) if isinstance(x, Ref) else x, StrV) for x in items):
                yield s2, 'ret', StrV(sc.join(parts), 'String')
            else:
                yield s2, 'ret', StrV((), 'String', {'name': 'join', 'parts': (('join', sc, tuple(parts)),)})
    return g()


@model(r'^(?:std::ops::|core::ops::)?RangeInclusive::<.*>::new$')
def range_inclusive_new(ctx, args, st):
    return ret(st, Adt('RangeInclusive', None, [args[0], args[1], Bool(False)], ['start', 'end', 'exhausted']))
