"""Float functions (IEEE via z3 FP), str::parse for numbers, integer conversions."""
import re
import z3
from ..values import *
from ..exec import Unsupported, BoundHit, float_to_int_sat
from .core import model, ret, panic, is_adt
from .strings import str_of

F64 = z3.Float64()


@model(r'^(?:std::)?f64::<impl f64>::(abs|round|ceil|floor|trunc|sqrt|is_nan|is_finite|is_infinite|is_sign_negative|is_sign_positive|min|max)$|^(?:core|std)::f64::<impl f64>::(abs|round|ceil|floor|trunc|is_nan|is_finite|is_infinite|is_sign_negative|is_sign_positive|min|max)$')
def f64_fn(ctx, args, st):
    op = ctx.callee.rsplit('::', 1)[-1]
    x = args[0].e
    if op == 'abs': return ret(st, Float(z3.fpAbs(x)))
    if op == 'round': return ret(st, Float(z3.fpRoundToIntegral(z3.RNA(), x)))
    if op == 'ceil': return ret(st, Float(z3.fpRoundToIntegral(z3.RTP(), x)))
    if op == 'floor': return ret(st, Float(z3.fpRoundToIntegral(z3.RTN(), x)))
    if op == 'trunc': return ret(st, Float(z3.fpRoundToIntegral(z3.RTZ(), x)))
    if op == 'is_nan': return ret(st, Bool(z3.fpIsNaN(x)))
    if op == 'is_infinite': return ret(st, Bool(z3.fpIsInf(x)))
    if op == 'is_finite': return ret(st, Bool(z3.Not(z3.Or(z3.fpIsInf(x), z3.fpIsNaN(x)))))
    if op == 'is_sign_negative': return ret(st, Bool(z3.fpIsNegative(x)))
    if op == 'is_sign_positive': return ret(st, Bool(z3.fpIsPositive(x)))
    if op in ('min', 'max'):
        y = args[1].e
        # IEEE minNum/maxNum: if one operand is NaN the other is returned
        pick = z3.fpLT(x, y) if op == 'min' else z3.fpGT(x, y)
        r = z3.If(z3.fpIsNaN(x), y, z3.If(z3.fpIsNaN(y), x, z3.If(pick, x, y)))
        return ret(st, Float(r))
    raise Unsupported(op)


@model(r'^(?:std::)?f64::<impl f64>::powi$')
def f64_powi(ctx, args, st):
    b, n = args
    nb = n.concrete()
    bs = z3.simplify(b.e)
    if nb is None:
        raise Unsupported('powi with symbolic exponent')
    if z3.is_fp_value(bs):
        if bs.isNaN() or bs.isInf(): raise Unsupported('powi of NaN/inf')
        base = fp_to_float(bs)
        # f64::powi uses repeated multiplication (llvm.powi); for the small exponents used here the result is exact for base 10
        r = 1.0
        for _ in range(abs(nb)): r *= base
        if nb < 0: r = 1.0 / r
        return ret(st, Float(z3.FPVal(r, F64)))
    if nb < 0 or nb > 8: raise Unsupported('powi exponent out of modelled range')
    r = z3.FPVal(1.0, F64)
    for _ in range(nb): r = z3.fpMul(z3.RNE(), r, b.e)
    return ret(st, Float(r))


@model(r"^(?:core::)?(?:str::)?<impl str>::parse::<(i64|f64|usize|i32|bool)>$|^(?:core::)?str::<impl str>::parse::<(i64|f64|usize|i32|bool)>$")
def str_parse(ctx, args, st):
    ty = re.search(r'parse::<(\w+)>$', ctx.callee).group(1)
    s = str_of(st, args[0])
    if s.facts is not None and ('parse_' + ty) in s.facts:
        return ret(st, s.facts['parse_' + ty])
    if s.facts is not None and ty in ('i8', 'i16', 'i32', 'u8', 'u16', 'u32', 'u64', 'usize', 'isize') and 'parse_i64' in s.facts:
        # the text is known through what parse::<i64> says about it: a narrower integer type accepts it iff that value fits
        r64 = s.facts['parse_i64']
        if isinstance(r64, Adt) and r64.variant == 'Err' and ty not in ('u64', 'usize'):
            return ret(st, Err(Opaque(('ParseIntError',))))
        if isinstance(r64, Adt) and r64.variant == 'Ok' and isinstance(r64.items[0], Int):
            v = r64.items[0]; bits, sg = INT_TYPES[ty]
            lo, hi = (-(1 << (bits - 1)), (1 << (bits - 1)) - 1) if sg else (0, (1 << bits) - 1)
            if hi <= (1 << 63) - 1:
                def g():
                    for s2, fits in ctx.ex.fork_bool(st, z3.And(v.e >= lo, v.e <= hi)):
                        yield s2, 'ret', (Ok(ctx.ex.cast(v, ty, 'IntToInt', s2)) if fits else Err(Opaque(('ParseIntError',))))
                return g()
    c = s.concrete()
    if c is None and ty in ('i64', 'usize', 'i32') and s.chars:
        return parse_int_symbolic(ctx, st, s, ty)
    if c is None and ty == 'f64' and s.chars:
        # a (signed) run of ASCII digits is always a valid f64 literal; its value is the nearest double (left unconstrained here, finite or inf, not NaN)
        chars = list(s.chars)
        if isinstance(chars[0], int) and chr(chars[0]) in '+-': chars = chars[1:]
        digit = z3.And(*[z3.And(z3.UGE(ch, 48), z3.ULE(ch, 57)) if not isinstance(ch, int) else z3.BoolVal(48 <= ch <= 57) for ch in chars]) if chars else z3.BoolVal(False)
        if not ctx.ex.feasible(st, z3.Not(digit)):
            f = z3.FP(f'parsed_f64_{len(st.conds)}', F64)
            st.assume(z3.Not(z3.fpIsNaN(f)))
            return ret(st, Ok(Float(f)))
    if c is None:
        raise Unsupported(f'parse::<{ty}> on a symbolic string without parse facts')
    if ty in ('i64', 'usize', 'i32'):
        if re.match(r'^[+-]?\d+$', c) and not (ty == 'usize' and c.startswith('-')):
            v = int(c)
            bits, sg = INT_TYPES[ty]
            lo, hi = (-(1 << (bits - 1)), (1 << (bits - 1)) - 1) if sg else (0, (1 << bits) - 1)
            if lo <= v <= hi: return ret(st, Ok(Int(v, ty)))
        return ret(st, Err(Opaque(('ParseIntError',))))
    if ty == 'f64':
        # Rust's f64::from_str grammar (decimal, exponent, inf/infinity/nan, case-insensitive), no surrounding whitespace
        if re.match(r'^[+-]?(?:inf|infinity|nan|(?:\d+\.?\d*|\.\d+)(?:[eE][+-]?\d+)?)$', c, re.I):
            return ret(st, Ok(Float(z3.FPVal(float(c), F64))))
        return ret(st, Err(Opaque(('ParseFloatError',))))
    if ty == 'bool':
        if c in ('true', 'false'): return ret(st, Ok(Bool(c == 'true')))
        return ret(st, Err(Opaque(('ParseBoolError',))))
    raise Unsupported(ty)


@model(r'^<(\w+) as TryInto<(\w+)>>::try_into$|^<(\w+) as TryFrom<(\w+)>>::try_from$|^<impl TryInto<(\w+)> as TryInto<(\w+)>>::try_into$')
def int_try_into(ctx, args, st):
    m = re.match(r'^<(\w+) as TryInto<(\w+)>>::try_into$', ctx.callee)
    mg = re.match(r'^<impl TryInto<(\w+)> as TryInto<(\w+)>>::try_into$', ctx.callee)
    if mg and isinstance(args[0], Int): src, dst = args[0].ty, mg.group(2)
    elif m: src, dst = m.group(1), m.group(2)
    else:
        m = re.match(r'^<(\w+) as TryFrom<(\w+)>>::try_from$', ctx.callee); dst, src = m.group(1), m.group(2)
    a = args[0]
    if not isinstance(a, Int) or dst not in INT_TYPES: return None
    nb, sg = INT_TYPES[dst]
    # value fits iff converting and converting back (in a wide enough type) preserves the mathematical value
    W = max(a.bits, nb) + 1
    wide = z3.SignExt(W - a.bits, a.e) if a.signed else z3.ZeroExt(W - a.bits, a.e)
    lo, hi = (-(1 << (nb - 1)), (1 << (nb - 1)) - 1) if sg else (0, (1 << nb) - 1)
    fits = z3.And(wide >= z3.BitVecVal(lo, W), wide <= z3.BitVecVal(hi, W))
    def g():
        for s2, ok in ctx.ex.fork_bool(st, fits):
            if ok:
                e = a.e if nb == a.bits else (z3.Extract(nb - 1, 0, a.e) if nb < a.bits else (z3.SignExt(nb - a.bits, a.e) if a.signed else z3.ZeroExt(nb - a.bits, a.e)))
                yield s2, 'ret', Ok(Int(z3.simplify(e), dst))
            else:
                yield s2, 'ret', Err(Opaque(('TryFromIntError',)))
    return g()


FMOD = z3.Function('fmod', F64, F64, F64)


def parse_int_symbolic(ctx, st, s, ty):
    """str::parse::<int> on a string whose sign is concrete (or absent) and whose remaining chars are symbolic but
    constrained (by the path condition) to be ASCII digits: exact value and range check (core::num::from_str_radix semantics)"""
    chars = list(s.chars)
    neg = False
    if isinstance(chars[0], int) and chr(chars[0]) in '+-':
        neg = chars[0] == ord('-'); chars = chars[1:]
    bits, sg = INT_TYPES[ty]
    if not chars or (neg and not sg):
        return ret(st, Err(Opaque(('ParseIntError',))))
    ex = ctx.ex
    digit = z3.And(*[z3.And(z3.UGE(c, 48), z3.ULE(c, 57)) if not isinstance(c, int) else z3.BoolVal(48 <= c <= 57) for c in chars])
    if ex.feasible(st, z3.Not(digit)):
        def g0():
            for s2, ok in ex.fork_bool(st, digit):
                if not ok: yield s2, 'ret', Err(Opaque(('ParseIntError', 'InvalidDigit')))
                else: yield from parse_int_symbolic(ctx, s2, StrV(s.chars, s.ty), ty)
        return g0()
    W = 128
    if len(chars) > 36: raise Unsupported('integer literal longer than 36 digits')
    v = z3.BitVecVal(0, W)
    for c in chars:
        d = (z3.ZeroExt(W - 32, c) if not isinstance(c, int) else z3.BitVecVal(c, W)) - 48
        v = v * 10 + d
    if neg: v = -v
    lo, hi = (-(1 << (bits - 1)), (1 << (bits - 1)) - 1) if sg else (0, (1 << bits) - 1)
    fits = z3.And(v >= z3.BitVecVal(lo, W), v <= z3.BitVecVal(hi, W))      # signed comparison in 128 bits
    def g():
        for s2, ok in ex.fork_bool(st, fits):
            if ok:
                yield s2, 'ret', Ok(Int(z3.simplify(z3.Extract(bits - 1, 0, v)), ty))
            else:
                yield s2, 'ret', Err(Opaque(('ParseIntError', 'Overflow')))
    return g()
