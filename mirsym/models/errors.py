"""liquid_core::Error construction and the Result extension traits.

Error values are opaque records carrying only the primary message when it is concrete.  The context/trace closures
(message formatting) are NOT executed: 'error-message construction neither panics nor has effects' is an assumption
listed with every obligation that uses these models."""
import re
import z3
from ..values import *
from ..exec import Unsupported
from .core import model, ret, panic, is_adt
from .strings import StrV


def mk_error(st, msg):
    t = st.deref_all(msg) if msg is not None else None
    text = t.concrete() if isinstance(t, StrV) else None
    return Adt('LiquidError', None, [Opaque(('msg', text))])


ERR = r'^(?:liquid_core::)?(?:error::)?(?:error::)?Error::'


@model(ERR + r'with_msg::<')
def err_with_msg(ctx, args, st):
    return ret(st, mk_error(st, args[0]))


@model(ERR + r'(trace|context|cause)(?:::<.*>)?$')
def err_passthrough(ctx, args, st):
    return ret(st, args[0])


@model(ERR + r'into_err::<')
def err_into_err(ctx, args, st):
    return ret(st, Err(args[0]))


@model(r'^<(?:std::result::)?Result<.*> as (?:liquid_core::)?(?:error::)?(?:result_ext::)?ResultLiquidExt<.*>>::(trace|trace_with|context_key|context_key_with)(?:::<.*>)?$')
def res_ext(ctx, args, st):
    if 'context_key' in ctx.callee.rsplit('>::', 1)[-1]:
        return ret(st, Adt('Key', None, [args[0], Opaque(('context-key',))], ['builder', 'key']))
    return ret(st, args[0])


@model(r'^(?:liquid_core::)?(?:error::)?(?:result_ext::)?(?:Fn)?Key::<.*>::(value|value_with)(?:::<.*>)?$')
def key_value(ctx, args, st):
    k = args[0]
    return ret(st, k.items[0] if isinstance(k, Adt) and k.ty == 'Key' else k)


@model(r'^<(?:std::result::)?Result<.*> as (?:liquid_core::)?(?:error::)?(?:result_ext::)?(?:ResultLiquidReplaceExt|ResultLiquidChainExt)<.*>>::(replace|replace_with|lossy_chain|lossy_chain_with|chain|chain_with)(?:::<.*>)?$')
def res_replace(ctx, args, st):
    r = args[0]
    if r.variant == 'Ok': return ret(st, r)
    msg = args[1] if len(args) > 1 and not isinstance(args[1], Closure) else None
    return ret(st, Err(mk_error(st, msg)))


@model(r'^<(?:liquid_core::)?(?:error::)?(?:error::)?Error as (?:Clone)>::clone$')
def err_clone(ctx, args, st):
    return ret(st, st.deref_all(args[0]))
