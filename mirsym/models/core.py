"""Models of core/alloc items: Option/Result combinators, Try, cmp, integer helpers, Vec/slice.

Every model is part of the trusted base and is listed in the evidence by name when used."""
import re
import z3
from ..values import *
from ..exec import Unsupported, BoundHit

REG = []


def model(pattern, name=None):
    def deco(f):
        REG.append((re.compile(pattern, re.S), f, name or f.__name__))
        return f
    return deco


def ret(st, v):
    yield st, 'ret', v


def panic(st, msg):
    yield st, 'panic', msg


def is_adt(v, ty, variant=None):
    return isinstance(v, Adt) and v.ty == ty and (variant is None or v.variant == variant)


def wrap_each(gen, f):
    for st, kind, val in gen:
        yield (st, kind, f(val) if kind == 'ret' else val)


VEC_BOUND = 12   # resize/extend beyond this many cells is a bound hit


# ------------------------------------------------------------------ Option
OPT = r'^(?:std::option::|core::option::)?Option::<.*>::'


@model(OPT + r'map::<')
def opt_map(ctx, args, st):
    o, f = args
    if o.variant == 'None': return ret(st, NONE)
    return wrap_each(ctx.ex.call_value(f, [o.items[0]], st, ctx.depth, ctx.callee), Some)


@model(OPT + r'and_then::<')
def opt_and_then(ctx, args, st):
    o, f = args
    if o.variant == 'None': return ret(st, NONE)
    return ctx.ex.call_value(f, [o.items[0]], st, ctx.depth, ctx.callee)


@model(OPT + r'or_else::<')
def opt_or_else(ctx, args, st):
    o, f = args
    if o.variant == 'Some': return ret(st, o)
    return ctx.ex.call_value(f, [], st, ctx.depth, ctx.callee)


@model(OPT + r'or$')
def opt_or(ctx, args, st):
    o, b = args
    return ret(st, o if o.variant == 'Some' else b)


@model(OPT + r'ok_or_else::<')
def opt_ok_or_else(ctx, args, st):
    o, f = args
    if o.variant == 'Some': return ret(st, Ok(o.items[0]))
    return wrap_each(ctx.ex.call_value(f, [], st, ctx.depth, ctx.callee), Err)


@model(OPT + r'ok_or::<')
def opt_ok_or(ctx, args, st):
    o, e = args
    return ret(st, Ok(o.items[0]) if o.variant == 'Some' else Err(e))


@model(OPT + r'unwrap_or_else::<')
def opt_unwrap_or_else(ctx, args, st):
    o, f = args
    if o.variant == 'Some': return ret(st, o.items[0])
    return ctx.ex.call_value(f, [], st, ctx.depth, ctx.callee)


@model(OPT + r'map_or_else::<')
def opt_map_or_else(ctx, args, st):
    o, d, f = args
    if o.variant == 'Some': return ctx.ex.call_value(f, [o.items[0]], st, ctx.depth, ctx.callee)
    return ctx.ex.call_value(d, [], st, ctx.depth, ctx.callee)


@model(OPT + r'map_or::<')
def opt_map_or(ctx, args, st):
    o, d, f = args
    if o.variant == 'Some': return ctx.ex.call_value(f, [o.items[0]], st, ctx.depth, ctx.callee)
    return ret(st, d)


@model(OPT + r'unwrap_or$')
def opt_unwrap_or(ctx, args, st):
    o, d = args
    return ret(st, o.items[0] if o.variant == 'Some' else d)


@model(OPT + r'(unwrap|expect)$')
def opt_unwrap(ctx, args, st):
    o = args[0]
    if o.variant == 'Some': return ret(st, o.items[0])
    msg = 'Option::unwrap on None'
    if len(args) > 1:
        s = st.deref_all(args[1])
        msg = f'expect failed: {s.concrete() if isinstance(s, StrV) else s!r}'
    return panic(st, msg)


@model(OPT + r'is_some$')
def opt_is_some(ctx, args, st):
    o = st.deref_all(args[0])
    return ret(st, Bool(o.variant == 'Some'))


@model(OPT + r'is_none$')
def opt_is_none(ctx, args, st):
    o = st.deref_all(args[0])
    return ret(st, Bool(o.variant == 'None'))


@model(OPT + r'as_ref$')
def opt_as_ref(ctx, args, st):
    r = args[0]
    o = st.deref(r)
    if o.variant == 'None': return ret(st, NONE)
    return ret(st, Some(Ref(r.alloc, r.path + (0,), False)))


@model(OPT + r'as_mut$')
def opt_as_mut(ctx, args, st):
    r = args[0]
    o = st.deref(r)
    if o.variant == 'None': return ret(st, NONE)
    return ret(st, Some(Ref(r.alloc, r.path + (0,), True)))


@model(OPT + r'as_deref$')
def opt_as_deref(ctx, args, st):
    r = args[0]
    o = st.deref(r)
    if o.variant == 'None': return ret(st, NONE)
    inner = o.items[0]
    if isinstance(inner, Ref):          # Option<Box<T>> / Option<&T>: deref target
        return ret(st, Some(inner))
    return ret(st, Some(Ref(r.alloc, r.path + (0,), False)))


@model(OPT + r'(cloned|copied)$')
def opt_cloned(ctx, args, st):
    o = args[0]
    if o.variant == 'None': return ret(st, NONE)
    return ret(st, Some(st.deref(o.items[0])))


@model(OPT + r'take$')
def opt_take(ctx, args, st):
    r = args[0]
    o = st.deref(r)
    st.store(r, NONE)
    return ret(st, o)


@model(r'^(?:std::result::|core::result::)?Result::<.*>::ok$')
def res_ok(ctx, args, st):
    o = args[0]
    if is_adt(o, 'Result'):
        return ret(st, Some(o.items[0]) if o.variant == 'Ok' else NONE)
    return None


@model(OPT + r'transpose$')
def opt_transpose(ctx, args, st):
    o = args[0]
    if o.variant == 'None': return ret(st, Ok(NONE))
    r = o.items[0]
    return ret(st, Ok(Some(r.items[0])) if r.variant == 'Ok' else Err(r.items[0]))


@model(OPT + r'unwrap_or_default$')
def opt_unwrap_or_default(ctx, args, st):
    o = args[0]
    if o.variant == 'Some': return ret(st, o.items[0])
    m = re.search(r'Option::<(.*)>::unwrap_or_default$', ctx.callee, re.S)
    ty = m.group(1).strip() if m else ''
    if ty in INT_TYPES: return ret(st, Int(0, ty))
    if ty == 'bool': return ret(st, Bool(False))
    # any other type: run its Default impl from the MIR
    return ctx.ex.call(f'<{ty} as Default>::default', [], st, ctx.depth, caller=ctx.caller)


@model(OPT + r'filter::<')
def opt_filter(ctx, args, st):
    o, f = args
    if o.variant == 'None': return ret(st, NONE)
    def g():
        r = st.ref(o.items[0])
        for s2, kind, val in ctx.ex.call_value(f, [r], st, ctx.depth, ctx.callee):
            if kind != 'ret': yield s2, kind, val; continue
            for s3, b in ctx.ex.fork_bool(s2, val.e):
                yield s3, 'ret', (o if b else NONE)
    return g()


# ------------------------------------------------------------------ Result
RES = r'^(?:std::result::|core::result::)?Result::<.*>::'


@model(RES + r'map::<')
def res_map(ctx, args, st):
    r, f = args
    if r.variant == 'Err': return ret(st, r)
    return wrap_each(ctx.ex.call_value(f, [r.items[0]], st, ctx.depth, ctx.callee), Ok)


@model(RES + r'map_err::<')
def res_map_err(ctx, args, st):
    r, f = args
    if r.variant == 'Ok': return ret(st, r)
    return wrap_each(ctx.ex.call_value(f, [r.items[0]], st, ctx.depth, ctx.callee), Err)


@model(RES + r'and_then::<')
def res_and_then(ctx, args, st):
    r, f = args
    if r.variant == 'Err': return ret(st, r)
    return ctx.ex.call_value(f, [r.items[0]], st, ctx.depth, ctx.callee)


@model(RES + r'or_else::<')
def res_or_else(ctx, args, st):
    r, f = args
    if r.variant == 'Ok': return ret(st, r)
    return ctx.ex.call_value(f, [r.items[0]], st, ctx.depth, ctx.callee)


@model(RES + r'unwrap_or_else::<')
def res_unwrap_or_else(ctx, args, st):
    r, f = args
    if r.variant == 'Ok': return ret(st, r.items[0])
    return ctx.ex.call_value(f, [r.items[0]], st, ctx.depth, ctx.callee)


@model(RES + r'unwrap_or$')
def res_unwrap_or(ctx, args, st):
    r, d = args
    return ret(st, r.items[0] if r.variant == 'Ok' else d)


@model(RES + r'(unwrap|expect)$')
def res_unwrap(ctx, args, st):
    r = args[0]
    if r.variant == 'Ok': return ret(st, r.items[0])
    return panic(st, 'Result::unwrap/expect on Err')


@model(RES + r'is_ok$')
def res_is_ok(ctx, args, st):
    return ret(st, Bool(st.deref_all(args[0]).variant == 'Ok'))


@model(RES + r'is_err$')
def res_is_err(ctx, args, st):
    return ret(st, Bool(st.deref_all(args[0]).variant == 'Err'))


@model(RES + r'err$')
def res_err(ctx, args, st):
    r = args[0]
    return ret(st, Some(r.items[0]) if r.variant == 'Err' else NONE)


@model(RES + r'as_ref$')
def res_as_ref(ctx, args, st):
    r = args[0]; o = st.deref(r)
    return ret(st, Adt('Result', o.variant, [Ref(r.alloc, r.path + (0,), False)]))


# ------------------------------------------------------------------ Try / FromResidual
@model(r' as Try>::branch$')
def try_branch(ctx, args, st):
    v = args[0]
    if is_adt(v, 'Option'):
        return ret(st, Adt('ControlFlow', 'Continue', [v.items[0]]) if v.variant == 'Some' else Adt('ControlFlow', 'Break', [NONE]))
    if is_adt(v, 'Result'):
        return ret(st, Adt('ControlFlow', 'Continue', [v.items[0]]) if v.variant == 'Ok' else Adt('ControlFlow', 'Break', [Err(v.items[0])]))
    raise Unsupported(f'Try::branch on {v!r}')


@model(r' as FromResidual<.*>>::from_residual$')
def from_residual(ctx, args, st):
    r = args[0]
    if is_adt(r, 'Option', 'None'): return ret(st, NONE)
    if is_adt(r, 'Result', 'Err'):
        # error conversion `From<E>` is the identity for every use in this repository (liquid_core::Error -> itself)
        m = re.match(r'^<(\w+)', ctx.callee)
        if ctx.callee.startswith('<Option') or ctx.callee.startswith('<std::option::Option'):
            raise Unsupported('Result residual into Option')
        return ret(st, Err(r.items[0]))
    raise Unsupported(f'from_residual on {r!r}')


@model(r' as Try>::from_output$')
def try_from_output(ctx, args, st):
    if 'Option' in ctx.callee.split(' as ')[0]: return ret(st, Some(args[0]))
    return ret(st, Ok(args[0]))


# ------------------------------------------------------------------ cmp / ints
def _int_lt(a, b):
    return (a.e < b.e) if a.signed else z3.ULT(a.e, b.e)


@model(r'^(?:std|core)::cmp::min::<|as Ord>::min$')
def cmp_min(ctx, args, st):
    a, b = args
    if isinstance(a, Int):   # min(a,b) = if b < a {b} else {a}
        return ret(st, Int(z3.simplify(z3.If(_int_lt(b, a), b.e, a.e)), a.ty))
    return None


@model(r'^(?:std|core)::cmp::max::<|as Ord>::max$')
def cmp_max(ctx, args, st):
    a, b = args
    if isinstance(a, Int):   # max(a,b) = if b < a {a} else {b}
        return ret(st, Int(z3.simplify(z3.If(_int_lt(b, a), a.e, b.e)), a.ty))
    return None


@model(r'^(?:core::num::<impl (\w+)>|(\w+))::(checked_add|checked_sub|checked_mul|checked_neg|checked_abs|checked_div|checked_rem)$')
def int_checked(ctx, args, st):
    a = args[0]
    if not isinstance(a, Int): return None
    op = ctx.callee.rsplit('::', 1)[-1]
    ex = ctx.ex
    def g():
        if op in ('checked_add', 'checked_sub', 'checked_mul'):
            b = args[1]
            t = ex.binop({'checked_add': 'AddWithOverflow', 'checked_sub': 'SubWithOverflow', 'checked_mul': 'MulWithOverflow'}[op], a, b)
            for s2, ov in ex.fork_bool(st, t.items[1].e):
                yield s2, 'ret', (NONE if ov else Some(t.items[0]))
        elif op in ('checked_neg', 'checked_abs'):
            mn = z3.BitVecVal(-(1 << (a.bits - 1)), a.bits)
            for s2, ov in ex.fork_bool(st, a.e == mn):
                if ov: yield s2, 'ret', NONE
                else:
                    r = -a.e if op == 'checked_neg' else z3.If(a.e < 0, -a.e, a.e)
                    yield s2, 'ret', Some(Int(z3.simplify(r), a.ty))
        else:
            b = args[1]
            mn = z3.BitVecVal(-(1 << (a.bits - 1)), a.bits)
            bad = z3.Or(b.e == 0, z3.And(a.e == mn, b.e == -1)) if a.signed else (b.e == 0)
            for s2, ov in ex.fork_bool(st, bad):
                if ov: yield s2, 'ret', NONE
                else: yield s2, 'ret', Some(ex.binop('Div' if op == 'checked_div' else 'Rem', a, b))
    return g()


@model(r'^(?:core::num::<impl (\w+)>|(\w+))::(wrapping_add|wrapping_sub|wrapping_mul|wrapping_neg|wrapping_rem|wrapping_div|wrapping_rem_euclid|wrapping_div_euclid|rem_euclid|div_euclid|wrapping_abs|unsigned_abs|signum)$')
def int_wrapping(ctx, args, st):
    a = args[0]
    if not isinstance(a, Int): return None
    op = ctx.callee.rsplit('::', 1)[-1]
    if op == 'wrapping_abs': return ret(st, Int(z3.simplify(z3.If(a.e < 0, -a.e, a.e)), a.ty))
    if op == 'unsigned_abs': return ret(st, Int(z3.simplify(z3.If(a.e < 0, -a.e, a.e)), 'u' + a.ty[1:]))
    if op == 'signum': return ret(st, Int(z3.simplify(z3.If(a.e > 0, z3.BitVecVal(1, a.bits), z3.If(a.e < 0, z3.BitVecVal(-1, a.bits), z3.BitVecVal(0, a.bits)))), a.ty))
    if op in ('wrapping_rem_euclid', 'wrapping_div_euclid', 'rem_euclid', 'div_euclid'):
        b = args[1]
        mn = z3.BitVecVal(-(1 << (a.bits - 1)), a.bits)
        def ge():
            for s2, z in ctx.ex.fork_bool(st, b.e == 0):
                if z: yield s2, 'panic', 'assert: attempt to divide by zero (euclid)'; continue
                if not op.startswith('wrapping'):
                    ovs = list(ctx.ex.fork_bool(s2, z3.And(a.e == mn, b.e == -1)))
                else:
                    ovs = [(s2, False)]
                for s3, ov in ovs:
                    if ov: yield s3, 'panic', 'assert: attempt to divide with overflow (euclid)'; continue
                    r = z3.SRem(a.e, b.e); q = a.e / b.e
                    if 'rem' in op:
                        # r < 0 ? (b < 0 ? r - b : r + b) : r   (std's definition, wrapping)
                        yield s3, 'ret', Int(z3.simplify(z3.If(r < 0, z3.If(b.e < 0, r - b.e, r + b.e), r)), a.ty)
                    else:
                        yield s3, 'ret', Int(z3.simplify(z3.If(r < 0, z3.If(b.e > 0, q - 1, q + 1), q)), a.ty)
        return ge()
    if op == 'wrapping_neg': return ret(st, Int(z3.simplify(-a.e), a.ty))
    if op in ('wrapping_rem', 'wrapping_div'):
        b = args[1]
        def g():
            for s2, z in ctx.ex.fork_bool(st, b.e == 0):
                if z: yield s2, 'panic', 'assert: attempt to divide by zero / calculate the remainder with a divisor of zero'
                # SMT-LIB bvsdiv/bvsrem already wrap: MIN / -1 = MIN, MIN % -1 = 0
                else: yield s2, 'ret', ctx.ex.binop('Rem' if op == 'wrapping_rem' else 'Div', a, b)
        return g()
    return ret(st, ctx.ex.binop({'wrapping_add': 'Add', 'wrapping_sub': 'Sub', 'wrapping_mul': 'Mul'}[op], a, args[1]))


@model(r'^(?:core::num::<impl (\w+)>|(\w+))::(saturating_neg|saturating_abs)$')
def int_saturating_neg(ctx, args, st):
    a = args[0]
    if not isinstance(a, Int) or not a.signed: return None
    mn = z3.BitVecVal(-(1 << (a.bits - 1)), a.bits); mx = z3.BitVecVal((1 << (a.bits - 1)) - 1, a.bits)
    if ctx.callee.endswith('saturating_neg'):
        return ret(st, Int(z3.simplify(z3.If(a.e == mn, mx, -a.e)), a.ty))
    return ret(st, Int(z3.simplify(z3.If(a.e == mn, mx, z3.If(a.e < 0, -a.e, a.e))), a.ty))


@model(r'^(?:core::num::<impl (\w+)>|(\w+))::(saturating_sub|saturating_add)$')
def int_saturating(ctx, args, st):
    a, b = args
    if not isinstance(a, Int): return None
    op = ctx.callee.rsplit('::', 1)[-1]
    if a.signed:
        bits = a.bits
        mn = z3.BitVecVal(-(1 << (bits - 1)), bits); mx = z3.BitVecVal((1 << (bits - 1)) - 1, bits)
        wide = (z3.SignExt(1, a.e) + z3.SignExt(1, b.e)) if op == 'saturating_add' else (z3.SignExt(1, a.e) - z3.SignExt(1, b.e))
        r = z3.If(wide > z3.SignExt(1, mx), mx, z3.If(wide < z3.SignExt(1, mn), mn, z3.Extract(bits - 1, 0, wide)))
        return ret(st, Int(z3.simplify(r), a.ty))
    if op == 'saturating_sub':
        return ret(st, Int(z3.simplify(z3.If(z3.ULT(a.e, b.e), z3.BitVecVal(0, a.bits), a.e - b.e)), a.ty))
    mx = z3.BitVecVal((1 << a.bits) - 1, a.bits)
    return ret(st, Int(z3.simplify(z3.If(z3.ULT(a.e + b.e, a.e), mx, a.e + b.e)), a.ty))


@model(r'^core::num::<impl (i64|i32|isize|i8|i16)>::abs$')
def int_abs(ctx, args, st):
    a = args[0]
    mn = z3.BitVecVal(-(1 << (a.bits - 1)), a.bits)
    def g():
        # overflow-checks=on: abs(MIN) panics ("attempt to negate with overflow"); off: wraps to MIN
        for s2, ov in ctx.ex.fork_bool(st, a.e == mn):
            if ov: yield s2, 'panic', 'assert: attempt to negate with overflow (abs of MIN)'
            else: yield s2, 'ret', Int(z3.simplify(z3.If(a.e < 0, -a.e, a.e)), a.ty)
    return g()


@model(r'^core::num::<impl (\w+)>::(is_positive|is_negative)$')
def int_sign(ctx, args, st):
    a = args[0]
    return ret(st, Bool(a.e > 0 if ctx.callee.endswith('is_positive') else a.e < 0))


@model(r'^<(\w+) as (?:PartialEq|PartialEq<\w+>)>::(eq|ne)$')
def prim_eq(ctx, args, st):
    a, b = st.deref_all(args[0]), st.deref_all(args[1])
    if isinstance(a, (Int, Bool, Char, Float)) and type(a) is type(b):
        return ret(st, ctx.ex.binop('Eq' if ctx.callee.endswith('eq') else 'Ne', a, b))
    return None


@model(r'^<(\w+) as PartialOrd>::(lt|le|gt|ge)$')
def prim_ord(ctx, args, st):
    a, b = st.deref_all(args[0]), st.deref_all(args[1])
    if isinstance(a, (Int, Float, Char)) and type(a) is type(b):
        op = {'lt': 'Lt', 'le': 'Le', 'gt': 'Gt', 'ge': 'Ge'}[ctx.callee.rsplit('::', 1)[-1]]
        return ret(st, ctx.ex.binop(op, a, b))
    return None


def ordering(name):
    return Adt('Ordering', name, [])


@model(r'^<(\w+) as Ord>::cmp$|^<(\w+) as PartialOrd>::partial_cmp$')
def prim_cmp(ctx, args, st):
    a, b = st.deref_all(args[0]), st.deref_all(args[1])
    partial = ctx.callee.endswith('partial_cmp')
    wrapv = (lambda o: Some(o)) if partial else (lambda o: o)
    ex = ctx.ex
    if isinstance(a, Int) and isinstance(b, Int):
        def g():
            for s2, lt in ex.fork_bool(st, _int_lt(a, b)):
                if lt: yield s2, 'ret', wrapv(ordering('Less')); continue
                for s3, eq in ex.fork_bool(s2, a.e == b.e):
                    yield s3, 'ret', wrapv(ordering('Equal' if eq else 'Greater'))
        return g()
    if isinstance(a, Bool) and isinstance(b, Bool):
        def g():
            for s2, eq in ex.fork_bool(st, a.e == b.e):
                if eq: yield s2, 'ret', wrapv(ordering('Equal')); continue
                for s3, av in ex.fork_bool(s2, a.e):
                    yield s3, 'ret', wrapv(ordering('Greater' if av else 'Less'))
        return g()
    if isinstance(a, Float) and isinstance(b, Float) and partial:
        def g():
            for s2, un in ex.fork_bool(st, z3.Or(z3.fpIsNaN(a.e), z3.fpIsNaN(b.e))):
                if un: yield s2, 'ret', NONE; continue
                for s3, lt in ex.fork_bool(s2, z3.fpLT(a.e, b.e)):
                    if lt: yield s3, 'ret', Some(ordering('Less')); continue
                    for s4, eq in ex.fork_bool(s3, z3.fpEQ(a.e, b.e)):
                        yield s4, 'ret', Some(ordering('Equal' if eq else 'Greater'))
        return g()
    return None


@model(r'^(?:std|core)::cmp::Ordering::(is_lt|is_le|is_gt|is_ge|is_eq|is_ne|reverse)$|^Ordering::(is_lt|is_le|is_gt|is_ge|is_eq|is_ne|reverse)$')
def ordering_pred(ctx, args, st):
    o = args[0]
    op = ctx.callee.rsplit('::', 1)[-1]
    v = o.variant
    if op == 'reverse': return ret(st, ordering({'Less': 'Greater', 'Greater': 'Less', 'Equal': 'Equal'}[v]))
    return ret(st, Bool({'is_lt': v == 'Less', 'is_le': v != 'Greater', 'is_gt': v == 'Greater', 'is_ge': v != 'Less', 'is_eq': v == 'Equal', 'is_ne': v != 'Equal'}[op]))


@model(r'^<(?:std::cmp::)?Ordering as PartialEq>::(eq|ne)$')
def ordering_eq(ctx, args, st):
    a, b = st.deref_all(args[0]), st.deref_all(args[1])
    r = a.variant == b.variant
    return ret(st, Bool(r if ctx.callee.endswith('eq') else not r))


# ------------------------------------------------------------------ conversions that are the identity on the value domain
@model(r'^<(\w+) as (?:Into|From)<\1>>::(into|from)$|^<(\w+) as Clone>::clone$|^<&(\w+) as Clone>::clone$')
def prim_identity(ctx, args, st):
    v = args[0]
    if ctx.callee.endswith('clone'):
        t = st.deref(v) if isinstance(v, Ref) else v
        if isinstance(t, (Int, Bool, Char, Float)): return ret(st, t)
        return None
    return ret(st, v)


@model(r'^(?:std|core)::mem::(drop|forget)::<')
def mem_drop(ctx, args, st):
    if ctx.callee.split('::')[2].startswith('drop'):
        ctx.ex.drop_value(st, args[0])
    return ret(st, UNIT)


@model(r'^(?:std|core)::mem::(replace|take)::<')
def mem_replace(ctx, args, st):
    r = args[0]
    old = st.deref(r)
    if 'replace' in ctx.callee.split('<')[0]:
        st.store(r, args[1])
    else:
        if isinstance(old, VecV): st.store(r, VecV([], old.ty))
        elif isinstance(old, StrV): st.store(r, StrV([], old.ty))
        elif is_adt(old, 'Option'): st.store(r, NONE)
        else: raise Unsupported(f'mem::take of {old!r}')
    return ret(st, old)


@model(r'^must_use::<')
def must_use(ctx, args, st):
    return ret(st, args[0])


# ------------------------------------------------------------------ Vec / slices
def vec_of(st, r):
    v = st.deref_all(r)
    if not isinstance(v, VecV):
        raise Unsupported(f'expected a Vec/slice model, got {v!r}')
    return v


def vec_ref(st, r):
    """follow references until the one that points at the VecV itself"""
    while True:
        t = st.deref(r)
        if isinstance(t, Ref): r = t
        else: return r


VEC = r'^(?:std::vec::|alloc::vec::)?Vec::<.*>::'


@model(VEC + r'new$')
def vec_new(ctx, args, st):
    return ret(st, VecV([]))


@model(VEC + r'with_capacity$')
def vec_with_capacity(ctx, args, st):
    return ret(st, VecV([]))


@model(VEC + r'len$|^core::slice::<impl \[.*\]>::len$')
def vec_len(ctx, args, st):
    return ret(st, Int(len(vec_of(st, args[0]).items), 'usize'))


@model(VEC + r'is_empty$|^core::slice::<impl \[.*\]>::is_empty$')
def vec_is_empty(ctx, args, st):
    return ret(st, Bool(len(vec_of(st, args[0]).items) == 0))


@model(VEC + r'push$')
def vec_push(ctx, args, st):
    r = vec_ref(st, args[0]); v = st.deref(r)
    if len(v.items) >= 64: raise BoundHit('Vec::push beyond 64 cells')
    st.store(r, VecV(v.items + (args[1],), v.ty))
    return ret(st, UNIT)


@model(VEC + r'pop$')
def vec_pop(ctx, args, st):
    r = vec_ref(st, args[0]); v = st.deref(r)
    if not v.items: return ret(st, NONE)
    st.store(r, VecV(v.items[:-1], v.ty))
    return ret(st, Some(v.items[-1]))


@model(VEC + r'insert$')
def vec_insert(ctx, args, st):
    r = vec_ref(st, args[0]); v = st.deref(r)
    def g():
        for s2, k in ctx.ex.concretize(st, args[1], 0, len(v.items)):
            if k is None: yield s2, 'panic', 'Vec::insert index out of bounds'; continue
            s2.store(r, VecV(v.items[:k] + (args[2],) + v.items[k:], v.ty))
            yield s2, 'ret', UNIT
    return g()


@model(VEC + r'remove$')
def vec_remove(ctx, args, st):
    r = vec_ref(st, args[0]); v = st.deref(r)
    def g():
        for s2, k in ctx.ex.concretize(st, args[1], 0, len(v.items) - 1):
            if k is None: yield s2, 'panic', 'Vec::remove index out of bounds'; continue
            s2.store(r, VecV(v.items[:k] + v.items[k + 1:], v.ty))
            yield s2, 'ret', v.items[k]
    return g()


@model(VEC + r'truncate$')
def vec_truncate(ctx, args, st):
    r = vec_ref(st, args[0]); v = st.deref(r)
    def g():
        for s2, k in ctx.ex.concretize(st, args[1], 0, len(v.items)):
            if k is not None:
                s2.store(r, VecV(v.items[:k], v.ty))
            yield s2, 'ret', UNIT
    return g()


@model(VEC + r'clear$')
def vec_clear(ctx, args, st):
    r = vec_ref(st, args[0]); v = st.deref(r)
    st.store(r, VecV([], v.ty))
    return ret(st, UNIT)


@model(VEC + r'drain::<')
def vec_drain(ctx, args, st):
    r = vec_ref(st, args[0]); v = st.deref(r)
    rng = args[1]
    n = len(v.items)
    if not (isinstance(rng, Adt) and rng.ty == 'Range'):
        raise Unsupported(f'drain with {rng!r}')
    start, end = rng.items
    def g():
        for s1, a in ctx.ex.concretize(st, start, 0, n):
            for s2, b in ctx.ex.concretize(s1, end, 0, n):
                if b is None: yield s2, 'panic', 'Vec::drain: range end out of bounds'; continue
                if a is None or a > b: yield s2, 'panic', 'Vec::drain: range start > end'; continue
                s2.store(r, VecV(v.items[:a] + v.items[b:], v.ty))
                yield s2, 'ret', Py('drain', v.items[a:b])
    return g()


@model(VEC + r'resize$')
def vec_resize(ctx, args, st):
    r = vec_ref(st, args[0]); v = st.deref(r)
    n = len(v.items)
    def g():
        for s2, k in ctx.ex.concretize(st, args[1], 0, VEC_BOUND):
            if k is None:
                raise BoundHit(f'Vec::resize beyond {VEC_BOUND} cells')
            s2.store(r, VecV(v.items[:k] + (args[2],) * max(0, k - n), v.ty))
            yield s2, 'ret', UNIT
    return g()


@model(r'^core::slice::<impl \[.*\]>::reverse$')
def slice_reverse(ctx, args, st):
    r = vec_ref(st, args[0]); v = st.deref(r)
    st.store(r, VecV(tuple(reversed(v.items)), v.ty))
    return ret(st, UNIT)


@model(r'^<Vec<.*> as (Deref|DerefMut|AsRef<.*>|Borrow<.*>)>::(deref|deref_mut|as_ref|borrow)$|' + VEC + r'(as_slice|as_mut_slice)$')
def vec_deref(ctx, args, st):
    return ret(st, args[0])


@model(r'^core::slice::<impl \[.*\]>::(first|last)$')
def slice_first_last(ctx, args, st):
    r = vec_ref(st, args[0]); v = st.deref(r)
    if not v.items: return ret(st, NONE)
    i = 0 if ctx.callee.endswith('first') else len(v.items) - 1
    return ret(st, Some(Ref(r.alloc, r.path + (i,), False)))


@model(r'^core::slice::<impl \[.*\]>::get::<usize>$|' + VEC + r'get::<usize>$')
def slice_get(ctx, args, st):
    r = vec_ref(st, args[0]); v = st.deref(r)
    def g():
        for s2, k in ctx.ex.concretize(st, args[1], 0, len(v.items) - 1):
            yield s2, 'ret', (NONE if k is None else Some(Ref(r.alloc, r.path + (k,), False)))
    return g()


@model(r'^<Vec<.*> as Index<usize>>::index$|^<\[.*\] as Index<usize>>::index$|^<Vec<.*> as IndexMut<usize>>::index_mut$')
def vec_index(ctx, args, st):
    r = vec_ref(st, args[0]); v = st.deref(r)
    def g():
        for s2, k in ctx.ex.concretize(st, args[1], 0, len(v.items) - 1):
            if k is None: yield s2, 'panic', 'index out of bounds'
            else: yield s2, 'ret', Ref(r.alloc, r.path + (k,), ctx.callee.endswith('index_mut'))
    return g()


@model(r'^<Vec<.*> as Clone>::clone$|^core::slice::<impl \[.*\]>::to_vec$|^<\[.*\] as ToOwned>::to_owned$')
def vec_clone(ctx, args, st):
    v = vec_of(st, args[0])
    return ret(st, VecV(v.items, 'Vec'))


@model(r'^<(.+) as Into<(.+)>>::into$')
def blanket_into(ctx, args, st):
    m = re.match(r'^<(.+) as Into<(.+)>>::into$', ctx.callee, re.S)
    a, b = m.group(1).strip(), m.group(2).strip()
    if a == b: return ret(st, args[0])
    from ..exec import type_head
    v = args[0]
    if isinstance(v, Adt) and v.ty == type_head(b):
        return ret(st, v)       # `impl<T> From<T> for T`
    return ctx.ex.call(f'<{b} as From<{a}>>::from', args, st, ctx.depth, caller=ctx.caller)


@model(r'^(?:std|core)::(?:rt|panicking)::(?:panic_fmt|panic|panic_display|panic_str|unreachable_display|begin_panic|panic_explicit|panic_nounwind)(?:::<.*>)?$|^std::rt::begin_panic')
def rt_panic(ctx, args, st):
    msg = 'panic!'
    if args:
        a = args[0]
        t = st.deref_all(a) if isinstance(a, Ref) else a
        if isinstance(t, StrV) and t.concrete() is not None: msg = 'panic: ' + t.concrete()
        elif isinstance(t, Py) and t.kind == 'fmtargs':
            msg = 'panic: ' + ''.join(p[1] if p[0] == 'lit' and isinstance(p[1], str) else '{}' for p in t.data[0])
    return panic(st, msg)


@model(VEC + r'(reserve|reserve_exact|shrink_to_fit)$|^String::(reserve|shrink_to_fit)$')
def vec_reserve(ctx, args, st):
    return ret(st, UNIT)


@model(r'^<(?:\[.*\]|Vec<.*>) as Index<(?:std::ops::)?(Range|RangeFrom|RangeTo|RangeFull|RangeInclusive)<?.*>?>>::index$|^core::slice::index::<impl Index<.*> for \[.*\]>::index$')
def slice_index_range(ctx, args, st):
    r = vec_ref(st, args[0]); v = st.deref(r)
    rng = args[1]
    n = len(v.items)
    lo = Int(0, 'usize'); hi = Int(n, 'usize')
    if isinstance(rng, Adt):
        if rng.ty == 'Range': lo, hi = rng.items[0], rng.items[1]
        elif rng.ty == 'RangeFrom': lo = rng.items[0]
        elif rng.ty == 'RangeTo': hi = rng.items[0]
        elif rng.ty == 'RangeFull': pass
        else: raise Unsupported(f'slice index by {rng!r}')
    def g():
        for s1, a in ctx.ex.concretize(st, lo, 0, n):
            for s2, b in ctx.ex.concretize(s1, hi, 0, n):
                if b is None: yield s2, 'panic', 'range end index out of range for slice'; continue
                if a is None or a > b: yield s2, 'panic', 'slice index starts past its end'; continue
                yield s2, 'ret', s2.ref(VecV(v.items[a:b], 'slice'))
    return g()


@model(OPT + r'inspect::<')
def opt_inspect(ctx, args, st):
    o, f = args
    if o.variant == 'None': return ret(st, NONE)
    def g():
        r = st.ref(o.items[0])
        for s2, kind, val in ctx.ex.call_value(f, [r], st, ctx.depth, ctx.callee):
            if kind != 'ret': yield s2, kind, val
            else: yield s2, 'ret', Some(s2.deref(r))
    return g()


@model(r'^core::slice::<impl \[.*\]>::(sort_unstable|sort)$')
def slice_sort_trivial(ctx, args, st):
    """sorting a slice of at most one element (the only case modelled here); longer slices need the comparator-driven model"""
    r = vec_ref(st, args[0]); v = st.deref(r)
    if len(v.items) <= 1: return ret(st, UNIT)
    cs = [st.deref_all(x) for x in v.items]
    if all(isinstance(x, StrV) and x.concrete() is not None for x in cs):
        order = sorted(range(len(cs)), key=lambda i: cs[i].concrete().encode('utf-8'))
        st.store(r, VecV([v.items[i] for i in order], v.ty))
        return ret(st, UNIT)
    raise Unsupported('slice::sort on symbolic elements')


@model(r'^<(?:std::option::)?Option<(\w+)> as PartialEq>::(eq|ne)$')
def option_prim_eq(ctx, args, st):
    a, b = st.deref_all(args[0]), st.deref_all(args[1])
    neg = ctx.callee.endswith('ne')
    if a.variant != b.variant: return ret(st, Bool(neg))
    if a.variant == 'None': return ret(st, Bool(not neg))
    x, y = a.items[0], b.items[0]
    if isinstance(x, (Int, Bool, Char)) and type(x) is type(y):
        r = ctx.ex.binop('Ne' if neg else 'Eq', x, y)
        return ret(st, r)
    return None


@model(r'^<&?bool as Not>::not$')
def bool_not(ctx, args, st):
    v = args[0]
    while isinstance(v, Ref): v = st.deref(v)
    if not isinstance(v, Bool): raise Unsupported(f'Not::not on {v!r}')
    return ret(st, Bool(z3.simplify(z3.Not(v.e))))


@model(r'^<\{closure@.*\} as Fn(?:Mut|Once)?<.*>>::call(?:_mut|_once)?$')
def closure_call(ctx, args, st):
    """direct call of a closure through its Fn* impl: (closure or reference to it, argument tuple)"""
    f = args[0]
    tup = args[1] if len(args) > 1 else UNIT
    items = list(tup.items) if isinstance(tup, Tup) else []
    return ctx.ex.call_value(f, items, st, ctx.depth + 1)


@model(r'^(?:std|alloc|core)::slice::<impl \[.*\]>::(sort_by|sort_unstable_by)::<')
def slice_sort_by(ctx, args, st):
    """std's stable sort for slices of at most 20 elements is insertion_sort_shift_left(v, 1, is_less) with
    is_less(a, b) = compare(a, b) == Less: element i is moved left while it is less than its left neighbour.
    The comparator is the real closure; its verdicts fork the path."""
    r = vec_ref(st, args[0]); v = st.deref(r)
    n = len(v.items)
    if n > 20: raise BoundHit('sort_by on more than 20 elements (std switches algorithm)')
    if 'sort_unstable_by' in ctx.callee:
        # same small-slice algorithm, but std promises no stability: the obligation is told, so that it can ask for a long-array confirmation
        st.env['unstable_sort'] = st.env.get('unstable_sort', 0) + 1
    cmp = args[1]
    def is_less(s_, a, b):
        for s2, kind, val in ctx.ex.call_value(cmp, [s_.ref(a), s_.ref(b)], s_, ctx.depth + 1):
            if kind != 'ret':
                yield s2, kind, val; continue
            if not (isinstance(val, Adt) and val.ty == 'Ordering'): raise Unsupported(f'comparator returned {val!r}')
            yield s2, 'ret', val.variant == 'Less'
    def insert(s_, items, i, j, tmp):
        """shift tmp (originally at i) left from position j"""
        if j == 0:
            yield from outer(s_, [tmp] + items[:i] + items[i + 1:], i + 1); return
        for s2, kind, less in is_less(s_, tmp, items[j - 1]):
            if kind != 'ret':
                yield s2, kind, less; continue
            if less: yield from insert(s2, items, i, j - 1, tmp)
            else: yield from outer(s2, items[:j] + [tmp] + items[j:i] + items[i + 1:], i + 1)
    def outer(s_, items, i):
        if i >= len(items):
            s_.store(r, VecV(items, v.ty)); yield s_, 'ret', UNIT; return
        yield from insert(s_, items, i, i, items[i])
    return outer(st, list(v.items), 1)


@model(r'^(?:std::option::|core::option::)?Option::<.*>::iter$')
def option_iter(ctx, args, st):
    from .iters import mk_list_iter
    o = st.deref_all(args[0])
    if not (isinstance(o, Adt) and o.ty == 'Option'): raise Unsupported(f'Option::iter on {o!r}')
    r = args[0]
    while isinstance(st.deref(r), Ref): r = st.deref(r)
    return ret(st, mk_list_iter([Ref(r.alloc, r.path + (0,), False)] if o.variant == 'Some' else []))


@model(r'^<(?:std::result::|core::result::)?Result<.*> as Clone>::clone$|^<(?:std::option::|core::option::)?Option<.*> as Clone>::clone$')
def result_option_clone(ctx, args, st):
    """values are immutable in this interpreter: a clone of a Result/Option is the same value (Arc reference counts are not modelled)"""
    v = args[0]
    while isinstance(v, Ref) and isinstance(st.deref(v), (Ref,)): v = st.deref(v)
    t = st.deref(v) if isinstance(v, Ref) else v
    if not (isinstance(t, Adt) and t.ty in ('Result', 'Option')): raise Unsupported(f'clone of {t!r}')
    return ret(st, t)


@model(r'^(?:std::cmp::|core::cmp::)?Ordering::(then_with|then|reverse)(?:::<.*>)?$')
def ordering_combinators(ctx, args, st):
    o = args[0]
    if not (isinstance(o, Adt) and o.ty == 'Ordering'): raise Unsupported(f'Ordering method on {o!r}')
    m = re.search(r'Ordering::(\w+)', ctx.callee).group(1)
    if m == 'reverse':
        return ret(st, Adt('Ordering', {'Less': 'Greater', 'Greater': 'Less', 'Equal': 'Equal'}[o.variant], []))
    if o.variant != 'Equal': return ret(st, o)
    if m == 'then': return ret(st, args[1])
    return ctx.ex.call_value(args[1], [], st, ctx.depth + 1)


@model(r'^<(?:std::option::)?Option<(?:std::cmp::)?Ordering> as PartialEq>::(eq|ne)$')
def option_ordering_eq(ctx, args, st):
    a, b = st.deref_all(args[0]), st.deref_all(args[1])
    def key(x): return (x.variant, x.items[0].variant if x.variant == 'Some' else None)
    same = key(a) == key(b)
    return ret(st, Bool(same if ctx.callee.endswith('eq') else not same))


@model(r'^<&+(?:i8|i16|i32|i64|i128|isize|u8|u16|u32|u64|u128|usize) as (?:PartialOrd|PartialEq)(?:<.*>)?>::(partial_cmp|lt|le|gt|ge|eq|ne)$')
def int_ref_cmp(ctx, args, st):
    """comparison operators on references to integers (`a <= b` with a, b: &i64)"""
    a, b = st.deref_all(args[0]), st.deref_all(args[1])
    if not (isinstance(a, Int) and isinstance(b, Int)): raise Unsupported(f'integer comparison of {a!r}, {b!r}')
    op = re.search(r'::(\w+)$', ctx.callee).group(1)
    lt = (a.e < b.e) if a.signed else z3.ULT(a.e, b.e)
    eq = a.e == b.e
    if op == 'partial_cmp':
        def g():
            for s1, isl in ctx.ex.fork_bool(st, lt):
                if isl:
                    yield s1, 'ret', Some(Adt('Ordering', 'Less', [])); continue
                for s2, ise in ctx.ex.fork_bool(s1, eq):
                    yield s2, 'ret', Some(Adt('Ordering', 'Equal' if ise else 'Greater', []))
        return g()
    e = {'lt': lt, 'le': z3.Or(lt, eq), 'gt': z3.Not(z3.Or(lt, eq)), 'ge': z3.Not(lt), 'eq': eq, 'ne': z3.Not(eq)}[op]
    return ret(st, Bool(z3.simplify(e)))


@model(r'^(?:std::option::|core::option::)?Option::<.*>::(is_some_and|is_none_or)::<')
def option_is_some_and(ctx, args, st):
    o = args[0]
    if isinstance(o, Ref): o = st.deref_all(o)
    if not (isinstance(o, Adt) and o.ty == 'Option'): raise Unsupported(f'Option predicate on {o!r}')
    some_and = 'is_some_and' in ctx.callee
    if o.variant == 'None': return ret(st, Bool(not some_and))
    return ctx.ex.call_value(args[1], [o.items[0]], st, ctx.depth + 1)


@model(r'^(?:std::result::|core::result::)?Result::<.*>::(is_ok_and|is_err_and)::<')
def result_is_ok_and(ctx, args, st):
    o = args[0]
    if isinstance(o, Ref): o = st.deref_all(o)
    if not (isinstance(o, Adt) and o.ty == 'Result'): raise Unsupported(f'Result predicate on {o!r}')
    want = 'Ok' if 'is_ok_and' in ctx.callee else 'Err'
    if o.variant != want: return ret(st, Bool(False))
    return ctx.ex.call_value(args[1], [o.items[0]], st, ctx.depth + 1)


@model(r'^(?:std::result::|core::result::)?Result::<.*>::(and|or)::<')
def result_and_or(ctx, args, st):
    """Result::and / Result::or: both operands are already evaluated (eager), the combinator only selects"""
    a, b = args[0], args[1]
    if not (isinstance(a, Adt) and a.ty == 'Result'): raise Unsupported(f'Result::and/or on {a!r}')
    is_and = re.search(r'::(and|or)::<', ctx.callee).group(1) == 'and'
    if is_and: return ret(st, b if a.variant == 'Ok' else a)
    return ret(st, a if a.variant == 'Ok' else b)


@model(r'^<(i8|i16|i32|i64|i128|isize|u8|u16|u32|u64|u128|usize) as (?:From|Into)<(i8|i16|i32|i64|i128|isize|u8|u16|u32|u64|u128|usize|bool)>>::(from|into)$')
def int_from_int(ctx, args, st):
    """lossless integer conversions (From/Into between integer types; bool -> integer)"""
    m = re.match(r'^<(\w+) as (From|Into)<(\w+)>>::', ctx.callee)
    dst = m.group(1) if m.group(2) == 'From' else m.group(3)
    v = args[0]
    while isinstance(v, Ref): v = st.deref(v)
    if isinstance(v, Bool): v = Int(z3.If(v.e, z3.BitVecVal(1, 8), z3.BitVecVal(0, 8)), 'u8')
    if not isinstance(v, Int): raise Unsupported(f'integer conversion of {v!r}')
    return ret(st, ctx.ex.cast(v, dst, 'IntToInt', st))
