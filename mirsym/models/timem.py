"""Formatting into a String with symbolic integers, and the pieces of the `time` crate that strftime reads.

<String as fmt::Write>::write_fmt is rendered exactly: a symbolic integer is expanded into its decimal digits by forking on
the number of digits (so the output string has a path-concrete length and each digit is an expression of the value);
width, fill, alignment, the zero flag, the + flag and `width$` arguments follow core::fmt.

time::OffsetDateTime is an abstract object (see checks/C17.py): every accessor returns a symbolic value within its documented
range; Month and Weekday are enums with a symbolic discriminant."""
import re
import z3
from ..values import *
from ..exec import Unsupported
from .core import model, ret
from .strings import str_of, str_ref
from .fmt import FLAG_SIGN_PLUS, FLAG_ZERO_PAD, ALIGN_SHIFT


def int_digits(ex, st, v, max_digits=None):
    """generator (st, negative: bool, [digit chars as BV32 exprs / ints]) for an Int value"""
    c = v.concrete()
    if c is not None:
        yield st, c < 0, [ord(ch) for ch in str(abs(c))]; return
    bits = v.bits
    wide = z3.SignExt(8, v.e) if v.signed else z3.ZeroExt(8, v.e)       # |MIN| fits
    W = bits + 8
    def with_sign(s_, neg):
        mag = -wide if neg else wide
        W = bits + 8
        # narrow the arithmetic when the path condition bounds the magnitude (division by constants is much cheaper on 16/32 bits)
        for nb in (16, 32):
            if nb < W and not ex.feasible(s_, z3.UGE(mag, z3.BitVecVal(1 << (nb - 1), W))):
                mag = z3.Extract(nb - 1, 0, mag); W = nb; break
        lim = max_digits or len(str(1 << bits))
        lim = min(lim, len(str((1 << (W - 1)) - 1)))
        def go(s1, d):
            if d > lim: return
            hi = z3.BitVecVal(10 ** d, W)
            if d == lim or 10 ** d >= (1 << (W - 1)):
                last = True; cond = z3.BoolVal(True)
            else:
                last = False; cond = z3.ULT(mag, hi)
            for s2, yes in ex.fork_bool(s1, cond):
                if yes:
                    ds = []
                    for k in range(d - 1, -1, -1):
                        dig = z3.URem(z3.UDiv(mag, z3.BitVecVal(10 ** k, W)), z3.BitVecVal(10, W))
                        ds.append(z3.simplify(z3.ZeroExt(32 - 8, z3.Extract(7, 0, dig)) + 48))
                    yield s2, neg, ds
                elif not last:
                    yield from go(s2, d + 1)
        yield from go(s_, 1)
    if v.signed:
        for s1, neg in ex.fork_bool(st, wide < 0):
            yield from with_sign(s1, neg)
    else:
        yield from with_sign(st, False)


def pad_text(chars, width, fill, align, default_right):
    pad = max(0, width - len(chars))
    if align == 0: return chars + [fill] * pad
    if align == 1: return [fill] * pad + chars
    if align == 2: return [fill] * (pad // 2) + chars + [fill] * (pad - pad // 2)
    return ([fill] * pad + chars) if default_right else (chars + [fill] * pad)


def fmt_chars(ex, st, fa):
    """generator (st, [chars]) -- exact rendering of a fmt::Arguments value"""
    parts, argv = fa.data
    def go(s_, i, nxt, out):
        if i == len(parts):
            yield s_, out; return
        p = parts[i]
        if p[0] == 'lit':
            if not isinstance(p[1], str): raise Unsupported('symbolic literal piece in format string')
            yield from go(s_, i + 1, nxt, out + [ord(c) for c in p[1]]); return
        _, idx, opts = p
        if idx is None: idx = nxt
        kind, ref = argv[idx].data
        if kind != 'display': raise Unsupported(f'fmt argument kind {kind}')
        v = s_.deref_all(ref)
        flags = opts.get('flags', 0)
        fill = (flags & 0x1FFFFF) or 32
        align = (flags >> ALIGN_SHIFT) & 3
        def widths(s1):
            w = opts.get('width')
            if w is None:
                yield s1, 0; return
            if opts.get('width_indirect'):
                wv = s1.deref_all(argv[w].data[1])
                if not isinstance(wv, Int): raise Unsupported(f'width argument {wv!r}')
                c = wv.concrete()
                if c is not None:
                    yield s1, c; return
                for s2, k in ex.concretize(s1, wv, 0, 40):
                    if k is None: raise Unsupported('format width above 40')
                    yield s2, k
                return
            yield s1, w
        if isinstance(v, Int) and v.concrete() is None and (flags & FLAG_ZERO_PAD) and isinstance(opts.get('width'), int) and not opts.get('width_indirect') and not v.signed:
            # {:0N} of an unsigned value that provably has at most N digits: exactly N digit characters, no case split
            w = opts['width']
            wide = z3.ZeroExt(8, v.e)
            if not ex.feasible(s_, z3.UGE(wide, z3.BitVecVal(10 ** w, wide.size()))):
                ds = [z3.simplify(z3.ZeroExt(24, z3.Extract(7, 0, z3.URem(z3.UDiv(wide, z3.BitVecVal(10 ** k, wide.size())), z3.BitVecVal(10, wide.size())))) + 48) for k in range(w - 1, -1, -1)]
                yield from go(s_, i + 1, idx + 1, out + ds); return
        if isinstance(v, Int):
            for s1, neg, ds in int_digits(ex, s_, v):
                sign = [ord('-')] if neg else ([ord('+')] if flags & FLAG_SIGN_PLUS else [])
                for s2, w in widths(s1):
                    if flags & FLAG_ZERO_PAD: text = sign + [48] * max(0, w - len(sign) - len(ds)) + ds
                    else: text = pad_text(sign + ds, w, fill, align, True)
                    yield from go(s2, i + 1, idx + 1, out + text)
            return
        if isinstance(v, StrV):
            if v.facts is not None: raise Unsupported('abstract string in format arguments')
            text = list(v.chars)
        elif isinstance(v, Char):
            c = v.concrete(); text = [c if c is not None else v.e]
        else:
            raise Unsupported(f'Display of {v!r} inside write_fmt')
        for s2, w in widths(s_):
            yield from go(s2, i + 1, idx + 1, out + pad_text(text, w, fill, align, False))
    yield from go(st, 0, 0, [])


@model(r'^<String as (?:std::fmt::|core::fmt::)?Write>::write_fmt$')
def string_write_fmt(ctx, args, st):
    r = str_ref(st, args[0])
    fa = args[1]
    if not (isinstance(fa, Py) and fa.kind == 'fmtargs'): raise Unsupported(f'write_fmt with {fa!r}')
    def g():
        for s2, chars in fmt_chars(ctx.ex, st, fa):
            s = s2.deref(r)
            s2.store(r, StrV(s.chars + tuple(chars), s.ty))
            yield s2, 'ret', Ok(UNIT)
    return g()


@model(r'^core::fmt::rt::Argument::<\'_>::from_usize$')
def arg_from_usize(ctx, args, st):
    return ret(st, Py('fmtarg', ('usize', args[0])))


# ---------------------------------------------------------------- mutable tail of a String: output[out_cur..].make_ascii_uppercase()
@model(r'^<String as IndexMut<(?:std::ops::)?RangeFrom<usize>>>::index_mut$')
def string_index_mut_from(ctx, args, st):
    r = str_ref(st, args[0]); s = st.deref(r)
    start = args[1].items[0]
    from .strings import fix_lengths
    def g():
        for s1, lens in fix_lengths(ctx.ex, st, s):
            c = start.concrete()
            outs = [(s1, c)] if c is not None else list(ctx.ex.concretize(s1, start, 0, sum(lens)))
            for s2, b in outs:
                off = 0; idx = None
                for i, l in enumerate(lens + [0]):
                    if off == b: idx = i; break
                    off += l
                if b is None or idx is None:
                    yield s2, 'panic', f'byte index {b} is out of bounds or not a char boundary'; continue
                yield s2, 'ret', s2.ref(Py('strtail', (r, idx)), True)
    return g()


@model(r'^(?:core::)?str::<impl str>::(make_ascii_uppercase|make_ascii_lowercase)$')
def str_make_ascii_case(ctx, args, st):
    t = st.deref_all(args[0])
    up = 'upper' in ctx.callee
    def conv(c):
        if isinstance(c, int):
            return ord(chr(c).upper() if up else chr(c).lower()) if c < 128 else c
        return z3.simplify(z3.If(z3.And(z3.UGE(c, 97), z3.ULE(c, 122)), c - 32, c) if up else z3.If(z3.And(z3.UGE(c, 65), z3.ULE(c, 90)), c + 32, c))
    if isinstance(t, Py) and t.kind == 'strtail':
        r, idx = t.data; s = st.deref(r)
        st.store(r, StrV(s.chars[:idx] + tuple(conv(c) for c in s.chars[idx:]), s.ty))
        return ret(st, UNIT)
    r = str_ref(st, args[0]); s = st.deref(r)
    st.store(r, StrV(tuple(conv(c) for c in s.chars), s.ty))
    return ret(st, UNIT)


# ---------------------------------------------------------------- time crate enums with a symbolic discriminant
def symenum(ty, discr):
    return Py('symenum', {'ty': ty, 'discr': discr})


@model(r'^(?:time::)?Weekday::(number_days_from_sunday|number_from_monday|number_days_from_monday|number_from_sunday)$')
def weekday_number(ctx, args, st):
    w = args[0]
    if not (isinstance(w, Py) and w.kind == 'symenum'): raise Unsupported(f'Weekday method on {w!r}')
    d = w.data['discr'].e            # Monday = 0
    m = re.search(r'::(\w+)$', ctx.callee).group(1)
    e = {'number_days_from_monday': d, 'number_from_monday': d + 1, 'number_days_from_sunday': z3.URem(d + 1, z3.BitVecVal(7, d.size())),
         'number_from_sunday': z3.URem(d + 1, z3.BitVecVal(7, d.size())) + 1}[m]
    return ret(st, Int(z3.simplify(e), 'u8'))


@model(r'^core::num::<impl u32>::pow$|^core::num::<impl (?:u64|i64|usize|i32)>::pow$')
def int_pow(ctx, args, st):
    base, exp = args[0], args[1]
    ty = re.search(r'impl (\w+)>', ctx.callee).group(1)
    b = base.concrete(); e = exp.concrete()
    if b is None: raise Unsupported('pow with a symbolic base')
    def val(k):
        r = b ** k
        bits = INT_TYPES[ty][0]
        if r >= (1 << bits): return None
        return Int(r, ty)
    if e is not None:
        v = val(e)
        return ret(st, v) if v is not None else iter([(st, 'panic', 'attempt to multiply with overflow')])
    def g():
        for s2, k in ctx.ex.concretize(st, exp, 0, 40):
            if k is None: raise Unsupported('pow exponent above 40')
            v = val(k)
            if v is None: yield s2, 'panic', 'attempt to multiply with overflow'
            else: yield s2, 'ret', v
    return g()
