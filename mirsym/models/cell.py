"""Box / Rc / Arc (owning pointers = references to a fresh place), RefCell with dynamic borrow tracking, Mutex."""
import re
import z3
from ..values import *
from ..exec import Unsupported, BoundHit, Executor
from .core import model, ret, panic, wrap_each, is_adt


@model(r'^(?:std::boxed::|alloc::boxed::)?Box::<.*>::new$|^(?:std::sync::|alloc::sync::)?Arc::<.*>::new$|^(?:std::rc::)?Rc::<.*>::new$')
def box_new(ctx, args, st):
    return ret(st, st.ref(args[0], True))


@model(r'^<(?:Box|Arc|Rc|std::sync::Arc|std::boxed::Box)<.*> as (?:Deref|DerefMut|AsRef<.*>|Borrow<.*>)>::(deref|deref_mut|as_ref|borrow)$')
def box_deref(ctx, args, st):
    # args[0]: &Box<T> = reference to a place holding the owning reference
    return ret(st, st.deref(args[0]))


@model(r'^<(?:Arc|Rc|std::sync::Arc)<.*> as Clone>::clone$')
def arc_clone(ctx, args, st):
    return ret(st, st.deref(args[0]))


# ---------------------------------------------------------------- RefCell
def _cell_key(r):
    return ('borrow', r.alloc, r.path)


@model(r'^(?:std::cell::|core::cell::)?RefCell::<.*>::new$')
def refcell_new(ctx, args, st):
    return ret(st, Adt('RefCell', None, [args[0]]))


@model(r'^<(?:std::cell::)?RefCell<.*> as Default>::default$')
def refcell_default(ctx, args, st):
    m = re.match(r'^<(?:std::cell::)?RefCell<(.*)> as Default>::default$', ctx.callee, re.S)
    inner = m.group(1).strip()
    def g():
        for s2, kind, v in ctx.ex.call(f'<{inner} as Default>::default', [], st, ctx.depth, caller=ctx.caller):
            yield s2, kind, (Adt('RefCell', None, [v]) if kind == 'ret' else v)
    return g()


def _cell_inner_ref(st, r):
    while isinstance(st.deref(r), Ref): r = st.deref(r)
    c = st.deref(r)
    if not is_adt(c, 'RefCell'):
        raise Unsupported(f'RefCell op on {c!r}')
    return Ref(r.alloc, r.path + (0,), True)


@model(r'^(?:std::cell::|core::cell::)?RefCell::<.*>::(borrow|try_borrow)$')
def refcell_borrow(ctx, args, st):
    inner = _cell_inner_ref(st, args[0])
    k = _cell_key(inner)
    readers, writer = st.env.get(k, (0, False))
    if writer:
        return panic(st, 'RefCell already mutably borrowed (BorrowError)')
    st.env[k] = (readers + 1, False)
    return ret(st, Py('cellref', (inner, False)))


@model(r'^(?:std::cell::|core::cell::)?RefCell::<.*>::(borrow_mut|try_borrow_mut)$')
def refcell_borrow_mut(ctx, args, st):
    inner = _cell_inner_ref(st, args[0])
    k = _cell_key(inner)
    readers, writer = st.env.get(k, (0, False))
    if writer or readers:
        return panic(st, 'RefCell already borrowed (BorrowMutError)')
    st.env[k] = (0, True)
    return ret(st, Py('cellref', (inner, True)))


@model(r'^<(?:std::cell::)?(?:Ref|RefMut)<.*> as (?:Deref|DerefMut)>::(deref|deref_mut)$')
def cellref_deref(ctx, args, st):
    g = st.deref_all(args[0])
    if not (isinstance(g, Py) and g.kind == 'cellref'):
        raise Unsupported(f'Ref::deref on {g!r}')
    return ret(st, g.data[0])


def _drop_cellref(ex, st, v):
    inner, mut = v.data
    k = _cell_key(inner)
    readers, writer = st.env.get(k, (0, False))
    st.env[k] = (0, False) if mut else (max(0, readers - 1), False)


Executor.drop_hooks = dict(Executor.drop_hooks)
Executor.drop_hooks['cellref'] = _drop_cellref


@model(r'^(?:std::cell::|core::cell::)?RefCell::<.*>::(into_inner)$')
def refcell_into_inner(ctx, args, st):
    return ret(st, args[0].items[0])


# ---------------------------------------------------------------- Mutex (single-threaded semantics + lock-scope tracking)
@model(r'^(?:std::sync::)?Mutex::<.*>::new$')
def mutex_new(ctx, args, st):
    return ret(st, Adt('Mutex', None, [args[0]]))


@model(r'^<(?:std::sync::)?Mutex<.*> as Default>::default$')
def mutex_default(ctx, args, st):
    m = re.match(r'^<(?:std::sync::)?Mutex<(.*)> as Default>::default$', ctx.callee, re.S)
    inner = m.group(1).strip()
    def g():
        for s2, kind, v in ctx.ex.call(f'<{inner} as Default>::default', [], st, ctx.depth, caller=ctx.caller):
            yield s2, kind, (Adt('Mutex', None, [v]) if kind == 'ret' else v)
    return g()


@model(r'^(?:std::sync::)?Mutex::<.*>::lock$')
def mutex_lock(ctx, args, st):
    r = args[0]
    while isinstance(st.deref(r), Ref): r = st.deref(r)
    inner = Ref(r.alloc, r.path + (0,), True)
    k = ('lock', inner.alloc, inner.path)
    if st.env.get(k):
        return panic(st, 'Mutex::lock while already held by this thread (deadlock)')
    st.env[k] = True
    st.env['lock_events'] = st.env.get('lock_events', ()) + (('lock', inner.alloc, inner.path),)
    return ret(st, Ok(Py('mutexguard', inner)))


@model(r'^<(?:std::sync::)?MutexGuard<.*> as (?:Deref|DerefMut)>::(deref|deref_mut)$')
def guard_deref(ctx, args, st):
    g = st.deref_all(args[0])
    return ret(st, g.data)


def _drop_guard(ex, st, v):
    inner = v.data
    st.env[('lock', inner.alloc, inner.path)] = False
    st.env['lock_events'] = st.env.get('lock_events', ()) + (('unlock', inner.alloc, inner.path),)


Executor.drop_hooks['mutexguard'] = _drop_guard


@model(r'^anymap2::(?:any::)?(?:Any)?Map(?:::<.*>)?::new$')
def anymap_new(ctx, args, st):
    return ret(st, Opaque(('AnyMap',)))


@model(r'^(?:std::boxed::|alloc::boxed::)?Box::<.*>::new_uninit$')
def box_new_uninit(ctx, args, st):
    return ret(st, st.ref(UNINIT, True))


@model(r'^(?:std|alloc)::boxed::box_assume_init_into_vec_unsafe::<')
def box_into_vec(ctx, args, st):
    """tail of the vec![a, b, ..] expansion: Box<MaybeUninit<[T; N]>> -> Vec<T>"""
    v = st.deref(args[0])
    while isinstance(v, Tup):
        nxt = [x for x in v.items if not isinstance(x, Uninit)]
        if len(nxt) != 1: raise Unsupported(f'vec! box contents {v!r}')
        v = nxt[0]
    if not isinstance(v, VecV): raise Unsupported(f'vec! box contents {v!r}')
    return ret(st, VecV(v.items, 'Vec'))
