from . import core, strings, iters, maps, cell, errors, nums
ALL_MODELS = core.REG
