from . import core, strings, iters, maps, cell, errors
ALL_MODELS = core.REG
