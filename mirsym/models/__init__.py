from . import core, strings, iters, maps, cell, errors, nums, fmt, pctenc, regexm, timem
ALL_MODELS = core.REG
CONST_MODELS = dict(pctenc.CONST_MODELS)
