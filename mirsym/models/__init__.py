from . import core
ALL_MODELS = core.REG
