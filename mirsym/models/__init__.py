from . import core, strings, iters, maps, cell, errors, nums, fmt
ALL_MODELS = core.REG
