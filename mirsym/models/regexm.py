"""Model of the regex crate (outside /repo) for the pattern shapes `(?flags)PREFIX.*?SUFFIX`, `PREFIX[^set]*?SUFFIX`, `PREFIX[set]*?SUFFIX` with literal
PREFIX/SUFFIX and flags among i (Unicode simple case folding) and s (dot matches \\n).  Regex::replace_all with a literal
replacement has leftmost-first, non-overlapping semantics; the lazy `.*?` stops at the first SUFFIX after PREFIX.
Any other pattern is Unsupported (the obligation is then inconclusive, never a pass)."""
import re
import z3
from ..values import *
from ..exec import Unsupported
from .core import model, ret
from .strings import str_of, ch_expr

META = set('.^$*+?()[]{}|\\')
# Unicode simple case folding orbits of ASCII letters that contain a non-ASCII character
EXTRA_FOLD = {'s': [0x17F], 'k': [0x212A]}


def parse_pattern(p):
    flags = ''
    m = re.match(r'^\(\?([a-zA-Z]+)\)', p)
    if m: flags = m.group(1); p = p[m.end():]
    if set(flags) - set('is'): raise Unsupported(f'regex flags {flags!r}')
    m = re.match(r'^(.*?)(\.|\[\^?[^\]\\]+\])\*\?(.*)$', p, re.S)
    if not m: raise Unsupported(f'regex {p!r}: only PREFIX<class>*?SUFFIX patterns (class: . or [..] or [^..]) are modelled')
    pre, cls, suf = m.group(1), m.group(2), m.group(3)
    if not pre or not suf or (set(pre) | set(suf)) & META: raise Unsupported(f'regex {p!r}: only literal PREFIX/SUFFIX are modelled')
    if cls == '.': mid = ('dot',)
    else:
        neg = cls.startswith('[^'); members = cls[2:-1] if neg else cls[1:-1]
        if '-' in members[1:-1] or ('i' in flags and any(ch.isalpha() for ch in members)): raise Unsupported(f'regex class {cls!r}')
        mid = ('notin' if neg else 'in', tuple(ord(ch) for ch in members))
    return {'i': 'i' in flags, 's': 's' in flags, 'pre': pre, 'suf': suf, 'mid': mid, 'src': p}


@model(r'^(?:regex::)?Regex::new$')
def regex_new(ctx, args, st):
    s = str_of(st, args[0]).concrete()
    if s is None: raise Unsupported('Regex::new on a non-constant pattern')
    return ret(st, Ok(Py('regex', parse_pattern(s))))


def char_matches(c, lit, icase):
    """z3 Bool / python bool: text char c matches pattern literal lit"""
    alts = {ord(lit)}
    if icase and lit.isascii() and lit.isalpha():
        alts |= {ord(lit.lower()), ord(lit.upper())} | set(EXTRA_FOLD.get(lit.lower(), []))
    if isinstance(c, int): return c in alts
    return z3.Or(*[c == a for a in sorted(alts)])


def lit_at(ex, st, text, i, lit, icase):
    """generator (st, bool): literal matches text at i"""
    if i + len(lit) > len(text):
        yield st, False; return
    def go(s_, k):
        if k == len(lit):
            yield s_, True; return
        m = char_matches(text[i + k], lit[k], icase)
        if isinstance(m, bool):
            if m: yield from go(s_, k + 1)
            else: yield s_, False
            return
        for s2, yes in ex.fork_bool(s_, m):
            if yes: yield from go(s2, k + 1)
            else: yield s2, False
    yield from go(st, 0)


def replace_all(ex, st, rx, text, rep):
    """generator (st, output chars)"""
    pre, suf, ic, dotall = rx['pre'], rx['suf'], rx['i'], rx['s']
    n = len(text)
    def find_end(s_, j, i0):
        """first j >= i0 where suf matches (without s-flag: no \\n in text[i0..j)); yields (st, end or None)"""
        if j + len(suf) > n:
            yield s_, None; return
        for s1, hit in lit_at(ex, s_, text, j, suf, ic):
            if hit:
                yield s1, j + len(suf); continue
            c = text[j]
            mid = rx['mid']
            if mid[0] == 'dot':
                ok = True if dotall else ((c != 10) if isinstance(c, int) else (c != 10))
            elif mid[0] == 'notin':
                ok = (c not in mid[1]) if isinstance(c, int) else z3.And(*[c != k for k in mid[1]])
            else:
                ok = (c in mid[1]) if isinstance(c, int) else z3.Or(*[c == k for k in mid[1]])
            if ok is True:
                yield from find_end(s1, j + 1, i0); continue
            if ok is False:
                yield s1, None; continue
            for s2, fits in ex.fork_bool(s1, ok):
                if fits: yield from find_end(s2, j + 1, i0)
                else: yield s2, None
    def scan(s_, pos, i, out):
        if i + len(pre) + len(suf) > n:
            yield s_, out + list(text[pos:]); return
        for s1, hit in lit_at(ex, s_, text, i, pre, ic):
            if not hit:
                yield from scan(s1, pos, i + 1, out); continue
            for s2, end in find_end(s1, i + len(pre), i + len(pre)):
                if end is None: yield from scan(s2, pos, i + 1, out)
                else: yield from scan(s2, end, end, out + list(text[pos:i]) + list(rep))
    yield from scan(st, 0, 0, [])


@model(r'^(?:regex::)?Regex::(replace_all|replace)::<&str>$')
def regex_replace_all(ctx, args, st):
    rx = st.deref_all(args[0])
    if not (isinstance(rx, Py) and rx.kind == 'regex'): raise Unsupported(f'replace_all on {rx!r}')
    if ctx.callee.endswith('replace::<&str>'): raise Unsupported('Regex::replace (first match only)')
    text = str_of(st, args[1]); rep = str_of(st, args[2]).concrete()
    if rep is None or '$' in rep: raise Unsupported('replacement with capture references')
    if text.facts is not None: raise Unsupported('regex on an abstract string')
    def g():
        for s2, out in replace_all(ctx.ex, st, rx.data, list(text.chars), [ord(c) for c in rep]):
            yield s2, 'ret', StrV(out, 'String')
    return g()


@model(r'^(?:std::sync::)?LazyLock::<.*>::new$')
def lazylock_new(ctx, args, st):
    return ret(st, Py('lazy', args[0]))


@model(r'^<(?:std::sync::)?LazyLock<.*> as Deref>::deref$|^(?:std::sync::)?LazyLock::<.*>::force$')
def lazylock_deref(ctx, args, st):
    r = args[0]
    while isinstance(r, Ref) and isinstance(st.deref(r), Ref): r = st.deref(r)
    cell = st.deref(r)
    if isinstance(cell, Py) and cell.kind == 'lazy-done':
        return ret(st, Ref(cell.data, (), False))
    if not (isinstance(cell, Py) and cell.kind == 'lazy'): raise Unsupported(f'LazyLock deref of {cell!r}')
    def g():
        for s2, kind, val in ctx.ex.call_value(cell.data, [], st, ctx.depth + 1):
            if kind != 'ret':
                yield s2, kind, val; continue
            a = s2.alloc(val)
            s2.store(r, Py('lazy-done', a))
            yield s2, 'ret', Ref(a, (), False)
    return g()
