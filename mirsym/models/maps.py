"""Finite maps with path-concrete string keys: liquid's `Object` (model::object::map::Object), HashMap/BTreeMap keyed by strings,
BTreeSet<KStringCow>.  Values are arbitrary.  Iteration order of a hash map is the insertion order of the model unless the
obligation installs a permutation (hash order as a solver-chosen variable is done by the obligation forking over permutations)."""
import re
import z3
from ..values import *
from ..exec import Unsupported, BoundHit
from .core import model, ret, panic, wrap_each, is_adt
from .strings import str_of


class MapV(Val):
    __slots__ = ('keys', 'items', 'ty')

    def __init__(self, keys, items, ty='Object'):
        self.keys, self.items, self.ty = tuple(keys), tuple(items), ty

    def with_item(self, i, v):
        it = list(self.items); it[i] = v
        return MapV(self.keys, it, self.ty)

    def index(self, k):
        return self.keys.index(k) if k in self.keys else None

    def __repr__(self):
        return 'map{' + ', '.join(f'{k!r}: {v!r}' for k, v in zip(self.keys, self.items)) + '}'


class SetV(Val):
    __slots__ = ('keys',)

    def __init__(self, keys): self.keys = frozenset(keys)

    def __repr__(self): return 'set' + repr(sorted(self.keys))


def map_insert(mv, k, v):
    i = mv.index(k)
    if i is None:
        return MapV(mv.keys + (k,), mv.items + (v,), mv.ty), None
    old = mv.items[i]
    return mv.with_item(i, v), old


def map_ref(st, r):
    while True:
        t = st.deref(r)
        if isinstance(t, Ref): r = t
        elif isinstance(t, MapV): return r
        else: raise Unsupported(f'expected a map model, got {t!r}')


def key_of(st, v):
    s = str_of(st, v)
    c = s.concrete()
    if c is None:
        raise Unsupported('map access with a symbolic key (keys are path-concrete in this model)')
    return c


MAP = r'^(?:model::object::)?(?:map::)?Object::|^(?:liquid_core::)?(?:model::)?(?:object::)?(?:map::)?Object::|^(?:std::collections::)?(?:hash_map::)?HashMap::<.*>::|^(?:std::collections::)?BTreeMap::<.*>::'


def _m(suffix):
    return r'(?:' + '|'.join(p + suffix for p in (r'^(?:[\w:]*::)?Object::', r'^(?:std::collections::)?(?:hash_map::)?HashMap::<.*>::', r'^(?:std::collections::)?(?:btree_map::)?BTreeMap::<.*>::')) + ')'


@model(_m(r'(new|default|with_capacity)$') + r'|^<(?:[\w:]*::)?Object as Default>::default$|^<(?:std::collections::)?HashMap<.*> as Default>::default$')
def map_new(ctx, args, st):
    ty = 'Object' if 'Object' in ctx.callee else 'HashMap'
    return ret(st, MapV((), (), ty))


@model(_m(r'insert$'))
def map_insert_m(ctx, args, st):
    r = map_ref(st, args[0]); mv = st.deref(r)
    k = key_of(st, args[1])
    mv2, old = map_insert(mv, k, args[2])
    st.store(r, mv2)
    return ret(st, NONE if old is None else Some(old))


def key_lookup(ctx, st, mv, v):
    """generator (st, index of the entry or None); a symbolic key string is compared with every stored key (fork per stored key)"""
    s = str_of(st, v)
    c = s.concrete()
    if c is not None:
        yield st, mv.index(c); return
    if s.facts is not None: raise Unsupported('map access with an abstract key')
    import z3
    from .strings import ch_expr
    def go(s_, i):
        if i == len(mv.keys):
            yield s_, None; return
        k = mv.keys[i]
        if not isinstance(k, str) or len(k) != len(s.chars):
            yield from go(s_, i + 1); return
        eq = z3.And(*[ch_expr(x) == ord(ch) for x, ch in zip(s.chars, k)]) if k else z3.BoolVal(True)
        for s2, hit in ctx.ex.fork_bool(s_, eq):
            if hit: yield s2, i
            else: yield from go(s2, i + 1)
    yield from go(st, 0)


@model(_m(r'contains_key(?:::<.*>)?$'))
def map_contains_key(ctx, args, st):
    mv = st.deref(map_ref(st, args[0]))
    def g():
        for s2, i in key_lookup(ctx, st, mv, args[1]): yield s2, 'ret', Bool(i is not None)
    return g()


@model(_m(r'get(?:::<.*>)?$'))
def map_get(ctx, args, st):
    r = map_ref(st, args[0]); mv = st.deref(r)
    def g():
        for s2, i in key_lookup(ctx, st, mv, args[1]): yield s2, 'ret', (NONE if i is None else Some(Ref(r.alloc, r.path + (i,), False)))
    return g()


@model(_m(r'get_mut(?:::<.*>)?$'))
def map_get_mut(ctx, args, st):
    r = map_ref(st, args[0]); mv = st.deref(r)
    i = mv.index(key_of(st, args[1]))
    return ret(st, NONE if i is None else Some(Ref(r.alloc, r.path + (i,), True)))


@model(_m(r'remove(?:::<.*>)?$'))
def map_remove(ctx, args, st):
    r = map_ref(st, args[0]); mv = st.deref(r)
    i = mv.index(key_of(st, args[1]))
    if i is None: return ret(st, NONE)
    st.store(r, MapV(mv.keys[:i] + mv.keys[i + 1:], mv.items[:i] + mv.items[i + 1:], mv.ty))
    return ret(st, Some(mv.items[i]))


@model(_m(r'(len)$'))
def map_len(ctx, args, st):
    return ret(st, Int(len(st.deref(map_ref(st, args[0])).keys), 'usize'))


@model(_m(r'is_empty$'))
def map_is_empty(ctx, args, st):
    return ret(st, Bool(len(st.deref(map_ref(st, args[0])).keys) == 0))


@model(_m(r'clear$'))
def map_clear(ctx, args, st):
    r = map_ref(st, args[0]); mv = st.deref(r)
    st.store(r, MapV((), (), mv.ty))
    return ret(st, UNIT)


@model(_m(r'keys$'))
def map_keys(ctx, args, st):
    from .iters import mk_list_iter
    r = map_ref(st, args[0]); mv = st.deref(r)
    # items are &KString
    return ret(st, mk_list_iter([st.ref(StrV(k, 'KString')) for k in mv.keys]))


@model(_m(r'values$'))
def map_values(ctx, args, st):
    from .iters import mk_list_iter
    r = map_ref(st, args[0]); mv = st.deref(r)
    return ret(st, mk_list_iter([Ref(r.alloc, r.path + (i,), False) for i in range(len(mv.keys))]))


@model(_m(r'iter$'))
def map_iter(ctx, args, st):
    from .iters import mk_list_iter
    r = map_ref(st, args[0]); mv = st.deref(r)
    return ret(st, mk_list_iter([Tup([st.ref(StrV(k, 'KString')), Ref(r.alloc, r.path + (i,), False)]) for i, k in enumerate(mv.keys)]))


@model(r'^<(?:[\w:]*::)?Object as Clone>::clone$|^<(?:std::collections::)?HashMap<.*> as Clone>::clone$')
def map_clone(ctx, args, st):
    return ret(st, st.deref(map_ref(st, args[0])))


# ---------------------------------------------------------------- BTreeSet of strings
@model(r'^(?:std::collections::)?BTreeSet::<.*>::new$|^<(?:std::collections::)?BTreeSet<.*> as Default>::default$')
def set_new(ctx, args, st):
    return ret(st, SetV(()))


@model(r'^(?:std::collections::)?BTreeSet::<.*>::insert$')
def set_insert(ctx, args, st):
    r = args[0]
    while isinstance(st.deref(r), Ref): r = st.deref(r)
    s = st.deref(r); k = key_of(st, args[1])
    st.store(r, SetV(set(s.keys) | {k}))
    return ret(st, Bool(k not in s.keys))


@model(r'^(?:std::collections::)?BTreeSet::<.*>::contains(?:::<.*>)?$')
def set_contains(ctx, args, st):
    s = st.deref_all(args[0])
    return ret(st, Bool(key_of(st, args[1]) in s.keys))


@model(_m(r'entry$'))
def map_entry(ctx, args, st):
    r = map_ref(st, args[0])
    return ret(st, Py('mapentry', (r, key_of(st, args[1]))))


@model(r'^(?:std::collections::)?(?:hash_map::|btree_map::)?Entry::<.*>::(or_insert|or_default|or_insert_with)(?:::<.*>)?$')
def entry_or_insert(ctx, args, st):
    r, k = args[0].data
    mv = st.deref(r)
    i = mv.index(k)
    if i is None:
        op = re.search(r'Entry::<.*>::(or_insert_with|or_insert|or_default)', ctx.callee).group(1)
        if op == 'or_default':
            raise Unsupported('Entry::or_default')
        if op == 'or_insert_with':
            def g():
                for s2, kind, val in ctx.ex.call_value(args[1], [], st, ctx.depth + 1):
                    if kind != 'ret':
                        yield s2, kind, val; continue
                    mv2, _ = map_insert(s2.deref(r), k, val)
                    s2.store(r, mv2)
                    yield s2, 'ret', Ref(r.alloc, r.path + (mv2.index(k),), True)
            return g()
        mv, _ = map_insert(mv, k, args[1])
        st.store(r, mv)
        i = mv.index(k)
    return ret(st, Ref(r.alloc, r.path + (i,), True))
