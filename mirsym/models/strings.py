"""String / &str / KString* models.

A string is StrV: a path-concrete number of chars, each a python int (concrete code point) or a z3 BV32 (symbolic
unicode scalar value).  All KString flavours, String and str share this representation; `&str` is a Ref to a place
holding a StrV.  Byte lengths are derived from utf8_len(char) so byte/char confusions are visible."""
import re
import z3
from ..values import *
from ..exec import Unsupported, BoundHit
from .core import model, ret, panic, wrap_each, is_adt, vec_ref


def str_of(st, v):
    t = st.deref_all(v)
    if isinstance(t, StrV): return t
    raise Unsupported(f'expected a string model, got {t!r}')


def str_ref(st, r):
    """the innermost reference whose target is the StrV"""
    if not isinstance(r, Ref):
        if isinstance(r, StrV): return st.ref(r)
        raise Unsupported(f'expected &str, got {r!r}')
    while True:
        t = st.deref(r)
        if isinstance(t, Ref): r = t
        elif isinstance(t, StrV): return r
        else: raise Unsupported(f'expected &str, got reference to {t!r}')


def ch_expr(c):
    return z3.BitVecVal(c, 32) if isinstance(c, int) else c


def utf8_len_expr(c):
    if isinstance(c, int):
        return 1 if c < 0x80 else 2 if c < 0x800 else 3 if c < 0x10000 else 4
    return z3.If(z3.ULT(c, 0x80), z3.BitVecVal(1, 64), z3.If(z3.ULT(c, 0x800), z3.BitVecVal(2, 64), z3.If(z3.ULT(c, 0x10000), z3.BitVecVal(3, 64), z3.BitVecVal(4, 64))))


def byte_len(s):
    """Int usize: utf-8 length of the string (symbolic if chars are)"""
    tot = 0; sym = []
    for c in s.chars:
        l = utf8_len_expr(c)
        if isinstance(l, int): tot += l
        else: sym.append(l)
    e = z3.BitVecVal(tot, 64)
    for x in sym: e = e + x
    return Int(z3.simplify(e), 'usize')


def valid_char(c):
    """constraint: c is a unicode scalar value"""
    return z3.And(z3.ULE(c, 0x10FFFF), z3.Or(z3.ULT(c, 0xD800), z3.UGT(c, 0xDFFF)))


def chars_eq(a, b):
    """z3 Bool: strings equal (same path-concrete length required else False)"""
    if len(a.chars) != len(b.chars): return z3.BoolVal(False)
    cs = []
    for x, y in zip(a.chars, b.chars):
        if isinstance(x, int) and isinstance(y, int):
            if x != y: return z3.BoolVal(False)
        else:
            cs.append(ch_expr(x) == ch_expr(y))
    return z3.And(*cs) if cs else z3.BoolVal(True)


def ks_type(text):
    """'KStringCowBase<..>' -> 'KStringCow' (the name the repo's impl headers use)"""
    m = re.search(r'KString(Cow|Ref)?', text)
    return 'KString' + (m.group(1) or '') if m else 'KString'


KS = r'(?:kstring::\w+::)?KString(?:Cow|Ref)?(?:Base)?(?:::<[^(]*?>)?::'


@model(r'^' + KS + r'(from_static|from_ref|from_string|into_owned|into_string|to_owned(?:::<.*>)?|into_cow_str|into_boxed_str)$')
def ks_copy(ctx, args, st):
    op = ctx.callee.rsplit('::', 1)[-1]
    if op in ('into_string', 'into_cow_str'): ty = 'String'
    elif op.startswith('to_owned') or op == 'into_owned': ty = 'KString'
    else: ty = ks_type(ctx.callee)
    return ret(st, str_of(st, args[0]).retag(ty))


@model(r'^' + KS + r'(as_str)$|^<(?:kstring::\w+::)?KString\w*(?:<.*>)? as (?:Deref|AsRef<str>|Borrow<str>)>::(deref|as_ref|borrow)$')
def ks_as_str(ctx, args, st):
    # &str view: a fresh immutable copy tagged 'str' (shared references cannot observe the difference)
    return ret(st, st.ref(str_of(st, args[0]).retag('str')))


@model(r'^' + KS + r'as_ref$')
def ks_as_ref(ctx, args, st):
    return ret(st, str_of(st, args[0]).retag('KStringRef'))


@model(r'^<&?(?:kstring::\w+::)?KString\w*(?:<.*>)? as (?:Into|From)<.*>>::(into|from)$|^<.* as (?:Into|From)<(?:kstring::\w+::)?KString\w*(?:<.*>)?>>::(into|from)$')
def ks_into(ctx, args, st):
    t = st.deref_all(args[0])
    m = re.search(r' as Into<(.*)>>::into$', ctx.callee, re.S) or re.match(r'^<(.*) as From<', ctx.callee, re.S)
    tgt = m.group(1) if m else ''
    ty = ks_type(tgt) if 'KString' in tgt else ('String' if 'String' in tgt else 'KString')
    if isinstance(t, StrV): return ret(st, t.retag(ty))
    return None


@model(r'^<&?(?:kstring::\w+::)?KString\w*(?:<.*>)? as (?:Clone|ToString|ToOwned)>::(clone|to_string|to_owned)$')
def ks_clone(ctx, args, st):
    op = ctx.callee.rsplit('::', 1)[-1]
    return ret(st, str_of(st, args[0]).retag('String' if op == 'to_string' else ks_type(ctx.callee)))


@model(r'^<(?:String|str|&str|&String|Box<str>|Cow<\'_, str>) as (?:Clone|ToString|ToOwned|Into<String>|From<&str>|From<String>|Into<Box<str>>)>::(clone|to_string|to_owned|into|from)$|^(?:std::string::|alloc::string::)?String::from_str$|^str::<impl str>::(to_owned|to_string)$|^(?:alloc|std)::str::<impl str>::(to_owned|to_string|into_string|into_boxed_str)$|^(?:std::borrow::)?Cow::<.*str>::into_owned$')
def string_copy(ctx, args, st):
    return ret(st, str_of(st, args[0]).retag('String'))


@model(r'^<String as (?:Deref|AsRef<str>|Borrow<str>)>::(deref|as_ref|borrow)$|^String::(as_str|as_mut_str)$|^<str as AsRef<str>>::as_ref$|^<&str as AsRef<str>>::as_ref$|^<Box<str> as Deref>::deref$|^<Cow<\'_, str> as (?:Deref|AsRef<str>|Borrow<str>)>::(deref|as_ref|borrow)$')
def string_deref(ctx, args, st):
    if 'mut' in ctx.callee.rsplit('::', 1)[-1]:
        return ret(st, str_ref(st, args[0]))
    return ret(st, st.ref(str_of(st, args[0]).retag('str')))


@model(r'^String::new$|^<String as Default>::default$')
def string_new(ctx, args, st):
    return ret(st, StrV([], 'String'))


@model(r'^String::with_capacity$')
def string_with_capacity(ctx, args, st):
    return ret(st, StrV([], 'String'))


@model(r'^(?:core::)?str::<impl str>::len$|^String::len$')
def str_len(ctx, args, st):
    return ret(st, byte_len(str_of(st, args[0])))


@model(r'^(?:core::)?str::<impl str>::is_empty$|^String::is_empty$')
def str_is_empty(ctx, args, st):
    return ret(st, Bool(len(str_of(st, args[0]).chars) == 0))


@model(r'^String::push$')
def string_push(ctx, args, st):
    r = str_ref(st, args[0]); s = st.deref(r)
    c = args[1]
    st.store(r, StrV(s.chars + ((c.concrete() if c.concrete() is not None else c.e),), s.ty))
    return ret(st, UNIT)


@model(r'^String::push_str$')
def string_push_str(ctx, args, st):
    r = str_ref(st, args[0]); s = st.deref(r)
    t = str_of(st, args[1])
    st.store(r, StrV(s.chars + t.chars, s.ty))
    return ret(st, UNIT)


@model(r'^<(?:str|String|&str|&String|KString\w*(?:<.*>)?|&KString\w*(?:<.*>)?|kstring::\w+::KString\w*(?:<.*>)?) as PartialEq(?:<[^>]*(?:<.*>)?>)?>::(eq|ne)$')
def str_eq(ctx, args, st):
    a, b = str_of(st, args[0]), str_of(st, args[1])
    if a.facts is not None or b.facts is not None:
        # abstract strings: equal when built from the same parts, otherwise an unconstrained boolean per pair
        pa = a.facts.get('parts') if a.facts else ('lit', a.concrete())
        pb = b.facts.get('parts') if b.facts else ('lit', b.concrete())
        if pa == pb and pa is not None: e = z3.BoolVal(True)
        else: e = z3.Bool(f'streq[{pa!r}=={pb!r}]')
        if ctx.callee.endswith('ne'): e = z3.Not(e)
        return ret(st, Bool(z3.simplify(e)))
    e = chars_eq(a, b)
    if ctx.callee.endswith('ne'): e = z3.Not(e)
    return ret(st, Bool(z3.simplify(e)))


@model(r'^(?:core::)?str::<impl str>::chars$')
def str_chars(ctx, args, st):
    from .iters import mk_list_iter
    s = str_of(st, args[0])
    return ret(st, mk_list_iter([Char(c) for c in s.chars]))


@model(r'^<&str as Display>::fmt$|^<str as Display>::fmt$|^<String as Display>::fmt$')
def str_display(ctx, args, st):
    return None


@model(r'^(?:std::string::|alloc::string::)?String::from_utf8_unchecked$')
def string_from_utf8_unchecked(ctx, args, st):
    v = args[0]
    if isinstance(v, Ref): v = st.deref_all(v)
    if isinstance(v, VecV) and all(isinstance(x, Opaque) for x in v.items):
        return ret(st, StrV((), 'String', {'name': 'from_utf8_unchecked', 'parts': tuple(x.tag for x in v.items)}))
    raise Unsupported(f'String::from_utf8_unchecked of {v!r}')


@model(r'^(?:std::string::|alloc::string::)?String::from_utf8$')
def string_from_utf8(ctx, args, st):
    v = args[0]
    if isinstance(v, Ref): v = st.deref_all(v)
    if isinstance(v, VecV):
        # bytes written by renderables through io::Write: every chunk is the utf-8 of a Display/str (see C10/C02), so valid
        if all(isinstance(x, Opaque) for x in v.items):
            return ret(st, Ok(StrV((), 'String', {'name': 'from_utf8', 'parts': tuple(x.tag for x in v.items)})))
    raise Unsupported(f'String::from_utf8 of {v!r}')


@model(r'^String::as_bytes$|^(?:core::)?str::<impl str>::as_bytes$')
def str_as_bytes(ctx, args, st):
    s = str_of(st, args[0])
    c = s.concrete()
    if c is not None:
        return ret(st, st.ref(VecV([Int(b, 'u8') for b in c.encode('utf-8')], 'slice')))
    if s.facts is not None:
        return ret(st, st.ref(Opaque(('bytes-of', repr(s)))))
    from .pctenc import utf8_bytes
    def g():
        for s2, lens in fix_lengths(ctx.ex, st, s):
            bs = []
            for c, n in zip(s.chars, lens):
                for b in utf8_bytes(c, n):
                    b = z3.simplify(z3.Extract(7, 0, b) if not isinstance(b, int) else z3.BitVecVal(b, 8))
                    bs.append(Int(b, 'u8'))
            yield s2, 'ret', s2.ref(VecV(bs, 'slice'))
    return g()


def _first_is(ex, st, s, cval):
    """generator (st, bool): first char of s equals the concrete char cval"""
    if not s.chars:
        yield st, False; return
    c0 = s.chars[0]
    if isinstance(c0, int):
        yield st, c0 == cval; return
    yield from ex.fork_bool(st, c0 == cval)


def _char_arg(v):
    c = v.concrete() if isinstance(v, Char) else None
    if c is None: raise Unsupported('string pattern must be a concrete char here')
    return c


@model(r'^(?:core::)?str::<impl str>::strip_prefix::<char>$')
def str_strip_prefix_char(ctx, args, st):
    s = str_of(st, args[0]); c = _char_arg(args[1])
    def g():
        for s2, yes in _first_is(ctx.ex, st, s, c):
            yield s2, 'ret', (Some(s2.ref(StrV(s.chars[1:], 'str'))) if yes else NONE)
    return g()


def _char_set_arg(st, v):
    """pattern argument: a char or an array of chars (all concrete)"""
    if isinstance(v, Char): return [_char_arg(v)]
    t = st.deref_all(v) if isinstance(v, Ref) else v
    if isinstance(t, VecV): return [_char_arg(x) for x in t.items]
    raise Unsupported(f'string pattern {v!r}')


def _first_in(ex, st, s, cset):
    if not s.chars:
        yield st, False; return
    c0 = s.chars[0]
    if isinstance(c0, int):
        yield st, c0 in cset; return
    yield from ex.fork_bool(st, z3.Or(*[c0 == k for k in cset]))


@model(r'^(?:core::)?str::<impl str>::(trim_start_matches|trim_left_matches)::<(?:char|\[char; \d+\])>$')
def str_trim_start_matches_char(ctx, args, st):
    s = str_of(st, args[0]); cset = _char_set_arg(st, args[1])
    def go(s_, cur):
        for s2, yes in _first_in(ctx.ex, s_, cur, cset):
            if yes: yield from go(s2, StrV(cur.chars[1:], 'str'))
            else: yield s2, 'ret', s2.ref(cur.retag('str'))
    return go(st, s)


@model(r'^(?:core::)?str::<impl str>::contains::<(?:char|\[char; \d+\])>$')
def str_contains_chars(ctx, args, st):
    s = str_of(st, args[0]); cset = _char_set_arg(st, args[1])
    if s.facts is not None: raise Unsupported('contains on abstract strings')
    def go(s_, i):
        if i == len(s.chars):
            yield s_, 'ret', Bool(False); return
        x = s.chars[i]
        if isinstance(x, int):
            if x in cset: yield s_, 'ret', Bool(True)
            else: yield from go(s_, i + 1)
            return
        for s2, hit in ctx.ex.fork_bool(s_, z3.Or(*[x == k for k in cset])):
            if hit: yield s2, 'ret', Bool(True)
            else: yield from go(s2, i + 1)
    return go(st, 0)


@model(r'^(?:core::)?str::<impl str>::starts_with::<char>$')
def str_starts_with_char(ctx, args, st):
    s = str_of(st, args[0]); c = _char_arg(args[1])
    def g():
        for s2, yes in _first_is(ctx.ex, st, s, c):
            yield s2, 'ret', Bool(yes)
    return g()


@model(r'^<String as From<.*>>::from$|^<Box<str> as From<.*>>::from$')
def string_from_any(ctx, args, st):
    t = st.deref_all(args[0])
    if isinstance(t, StrV): return ret(st, t.retag('String'))
    return None


@model(r'^<str as (?:unicode_segmentation::)?UnicodeSegmentation>::graphemes$|^(?:unicode_segmentation::)?UnicodeSegmentation::graphemes$|^<.* as UnicodeSegmentation>::graphemes$')
def str_graphemes(ctx, args, st):
    """extended grapheme clusters: a character of the combining-diacritical block U+0300..U+036F joins the cluster before it and CR LF is one
    cluster (both exact per UAX #29); every other code point is its own cluster, which is exact for text without other Extend characters, ZWJ
    sequences, regional indicators, Hangul jamo or prepend characters (stated as an assumption by the obligations that use it)"""
    from .iters import mk_list_iter
    s = str_of(st, args[0])
    if s.facts is not None: raise Unsupported('graphemes of an abstract string')
    def joins(s_, prev, c):
        """generator (st, bool): c continues the cluster that ends with prev"""
        conds = []
        comb = (0x300 <= c <= 0x36F) if isinstance(c, int) else z3.And(z3.UGE(c, 0x300), z3.ULE(c, 0x36F))
        # an Extend character does not join a preceding control character (CR, LF, other Cc): restrict to non-control predecessors
        CTL = [(0, 0x1F), (0x7F, 0x9F), (0xAD, 0xAD), (0x61C, 0x61C), (0x180E, 0x180E), (0x200B, 0x200B), (0x200E, 0x200F), (0x2028, 0x202E), (0x2060, 0x206F), (0xFEFF, 0xFEFF),
               (0xFFF0, 0xFFFB), (0x13430, 0x1343F), (0x1BCA0, 0x1BCA3), (0x1D173, 0x1D17A), (0xE0000, 0xE001F), (0xE0080, 0xE00FF), (0xE01F0, 0xE0FFF)]      # Grapheme_Cluster_Break = Control (+CR, LF)
        prev_ctl = any(lo <= prev <= hi for lo, hi in CTL) if isinstance(prev, int) else z3.Or(*[z3.And(z3.UGE(prev, lo), z3.ULE(prev, hi)) for lo, hi in CTL])
        crlf = (prev == 13 and c == 10) if isinstance(prev, int) and isinstance(c, int) else z3.And(ch_expr(prev) == 13, ch_expr(c) == 10)
        if all(isinstance(x, bool) for x in (comb, prev_ctl, crlf)):
            yield s_, (comb and not prev_ctl) or crlf; return
        e = z3.Or(z3.And(comb if not isinstance(comb, bool) else z3.BoolVal(comb), z3.Not(prev_ctl if not isinstance(prev_ctl, bool) else z3.BoolVal(prev_ctl))),
                  crlf if not isinstance(crlf, bool) else z3.BoolVal(crlf))
        yield from ctx.ex.fork_bool(s_, z3.simplify(e))
    def go(s_, i, clusters):
        if i == len(s.chars):
            yield s_, 'ret', mk_list_iter([s_.ref(StrV(tuple(cl), 'str')) for cl in clusters]); return
        c = s.chars[i]
        if not clusters:
            yield from go(s_, i + 1, [[c]]); return
        for s2, j in joins(s_, clusters[-1][-1], c):
            if j: yield from go(s2, i + 1, clusters[:-1] + [clusters[-1] + [c]])
            else: yield from go(s2, i + 1, clusters + [[c]])
    return go(st, 0, [])


@model(r'^(?:std|alloc)::slice::<impl \[.*\]>::(join|concat)::<.*>$|^<\[.*\] as (?:std::slice::)?(?:Join|Concat)<.*>>::(join|concat)$')
def slice_join_str(ctx, args, st):
    from .core import vec_of
    v = vec_of(st, args[0])
    sep = str_of(st, args[1]) if len(args) > 1 else StrV((), 'str')
    chars = []
    for i, x in enumerate(v.items):
        t = st.deref_all(x)
        if not isinstance(t, StrV): return None
        if t.facts is not None or sep.facts is not None: raise Unsupported('join of abstract strings')
        if i: chars += list(sep.chars)
        chars += list(t.chars)
    return ret(st, StrV(chars, 'String'))


@model(r'^<String as Add<&str>>::add$')
def string_add(ctx, args, st):
    a, b = str_of(st, args[0]), str_of(st, args[1])
    if a.facts is not None or b.facts is not None: raise Unsupported('concatenation of abstract strings')
    return ret(st, StrV(a.chars + b.chars, 'String'))


# ============================================================================ character classes and string algorithms on symbolic code points
WS_RANGES = [(0x09, 0x0D), (0x20, 0x20), (0x85, 0x85), (0xA0, 0xA0), (0x1680, 0x1680), (0x2000, 0x200A), (0x2028, 0x2029), (0x202F, 0x202F), (0x205F, 0x205F), (0x3000, 0x3000)]


def is_whitespace_expr(c):
    """char::is_whitespace (Unicode White_Space) as a z3 Bool / python bool"""
    if isinstance(c, int): return any(lo <= c <= hi for lo, hi in WS_RANGES)
    return z3.Or(*[(z3.And(z3.UGE(c, lo), z3.ULE(c, hi)) if lo != hi else c == lo) for lo, hi in WS_RANGES])


UPPER = z3.Function('char_to_upper_nonascii', z3.BitVecSort(32), z3.BitVecSort(32))
LOWER = z3.Function('char_to_lower_nonascii', z3.BitVecSort(32), z3.BitVecSort(32))


def upper_expr(c):
    if isinstance(c, int):
        if c < 128: return ord(chr(c).upper())
        u = chr(c).upper()
        return ord(u) if len(u) == 1 else UPPER(z3.BitVecVal(c, 32))
    # exact on ASCII and Latin-1 (U+00E0..U+00FE except the division sign map 32 down, U+00FF -> U+0178, U+00B5 -> U+039C; U+00DF expands to
    # two characters and stays uninterpreted); an uninterpreted per-character function above U+00FF
    lat = z3.And(z3.UGE(c, 0xE0), z3.ULE(c, 0xFE), c != 0xF7)
    return z3.If(z3.And(z3.UGE(c, 97), z3.ULE(c, 122)), c - 32, z3.If(z3.ULT(c, 128), c,
           z3.If(lat, c - 32, z3.If(c == 0xFF, z3.BitVecVal(0x178, 32), z3.If(c == 0xB5, z3.BitVecVal(0x39C, 32), z3.If(z3.And(z3.ULT(c, 0x100), c != 0xDF), c, UPPER(c)))))))


def lower_expr(c):
    if isinstance(c, int):
        if c < 128: return ord(chr(c).lower())
        u = chr(c).lower()
        return ord(u) if len(u) == 1 else LOWER(z3.BitVecVal(c, 32))
    lat = z3.And(z3.UGE(c, 0xC0), z3.ULE(c, 0xDE), c != 0xD7)
    return z3.If(z3.And(z3.UGE(c, 65), z3.ULE(c, 90)), c + 32, z3.If(z3.ULT(c, 128), c, z3.If(lat, c + 32, z3.If(z3.ULT(c, 0x100), c, LOWER(c)))))


def _fork_pred(ex, st, p):
    if isinstance(p, bool):
        yield st, p
    else:
        yield from ex.fork_bool(st, p)


@model(r'^(?:core::)?str::<impl str>::(trim|trim_start|trim_end|trim_left|trim_right)$')
def str_trim(ctx, args, st):
    s = str_of(st, args[0])
    if s.facts is not None: raise Unsupported('trim of an abstract string')
    op = ctx.callee.rsplit('::', 1)[-1]
    left = op in ('trim', 'trim_start', 'trim_left'); right = op in ('trim', 'trim_end', 'trim_right')
    def strip_left(s_, chars):
        if not left or not chars:
            yield s_, chars; return
        for s2, w in _fork_pred(ctx.ex, s_, is_whitespace_expr(chars[0])):
            if w: yield from strip_left(s2, chars[1:])
            else: yield s2, chars
    def strip_right(s_, chars):
        if not right or not chars:
            yield s_, chars; return
        for s2, w in _fork_pred(ctx.ex, s_, is_whitespace_expr(chars[-1])):
            if w: yield from strip_right(s2, chars[:-1])
            else: yield s2, chars
    def g():
        for s1, c1 in strip_left(st, tuple(s.chars)):
            for s2, c2 in strip_right(s1, c1):
                yield s2, 'ret', s2.ref(StrV(c2, 'str'))
    return g()


@model(r'^(?:alloc::)?str::<impl str>::(to_uppercase|to_lowercase|to_ascii_uppercase|to_ascii_lowercase)$')
def str_case(ctx, args, st):
    s = str_of(st, args[0])
    if s.facts is not None: raise Unsupported('case mapping of an abstract string')
    up = 'upper' in ctx.callee
    f = upper_expr if up else lower_expr
    if '_ascii_' in ctx.callee:
        g_ = f
        def f(c):      # ASCII-only mapping: everything from U+0080 up is unchanged
            if isinstance(c, int): return g_(c) if c < 128 else c
            return z3.If(z3.ULT(c, 128), g_(c), c)
    out = []
    for c in s.chars:
        x = f(c)
        out.append(x if isinstance(x, int) else z3.simplify(x))
    return ret(st, StrV(out, 'String'))


@model(r'^(?:core::)?char::methods::<impl char>::(to_uppercase|to_lowercase)$')
def char_case(ctx, args, st):
    from .iters import mk_list_iter
    c = args[0]
    cv = c.concrete() if c.concrete() is not None else c.e
    x = (upper_expr if 'upper' in ctx.callee else lower_expr)(cv)
    return ret(st, mk_list_iter([Char(x if isinstance(x, int) else z3.simplify(x))]))


@model(r'^(?:core::)?char::methods::<impl char>::(is_whitespace|is_ascii_digit|is_alphanumeric|is_ascii)$')
def char_pred(ctx, args, st):
    c = args[0]
    while isinstance(c, Ref): c = st.deref(c)
    cv = c.concrete() if c.concrete() is not None else c.e
    op = ctx.callee.rsplit('::', 1)[-1]
    if op == 'is_whitespace':
        r = is_whitespace_expr(cv)
    elif op == 'is_ascii_digit':
        r = (48 <= cv <= 57) if isinstance(cv, int) else z3.And(z3.UGE(cv, 48), z3.ULE(cv, 57))
    elif op == 'is_ascii':
        r = (cv < 128) if isinstance(cv, int) else z3.ULT(cv, 128)
    else:
        raise Unsupported(op)
    return ret(st, Bool(r))


def _match_at(ex, st, hay, i, pat):
    """generator (st, bool): pat occurs in hay at char position i"""
    if i + len(pat) > len(hay):
        yield st, False; return
    conds = []
    for k, pc in enumerate(pat):
        hc = hay[i + k]
        if isinstance(hc, int) and isinstance(pc, int):
            if hc != pc:
                yield st, False; return
        else:
            conds.append(ch_expr(hc) == ch_expr(pc))
    if not conds:
        yield st, True; return
    yield from ex.fork_bool(st, z3.And(*conds))


def split_positions(ex, st, hay, pat, limit=None):
    """generator (st, [pieces as char tuples]) with std's str::split / splitn semantics (leftmost non-overlapping matches;
    an empty pattern matches at every char boundary incl. both ends)"""
    hay = tuple(hay); pat = tuple(pat)
    def go(s, start, i, pieces):
        if limit is not None and len(pieces) == limit - 1:
            yield s, pieces + [hay[start:]]; return
        if not pat:
            # empty pattern: boundaries 0,1,..,n
            if i > len(hay):
                yield s, pieces + [hay[start:]]; return
            yield from go(s, i, i + 1, pieces + [hay[start:i]]) if i <= len(hay) else iter(())
            return
        if i + len(pat) > len(hay):
            yield s, pieces + [hay[start:]]; return
        for s2, hit in _match_at(ex, s, hay, i, pat):
            if hit: yield from go(s2, i + len(pat), i + len(pat), pieces + [hay[start:i]])
            else: yield from go(s2, start, i + 1, pieces)
    if not pat:
        # std: "".split("") yields ["", ""]; "ab".split("") yields ["", "a", "b", ""]
        pieces = [()] + [(c,) for c in hay] + [()]
        if limit is not None and len(pieces) > limit:
            head = pieces[:limit - 1]
            consumed = sum(len(p) for p in head)
            pieces = head + [hay[consumed:]]
        yield st, pieces; return
    yield from go(st, 0, 0, [])


@model(r'^(?:alloc::)?str::<impl str>::replace::<&str>$|^(?:alloc::)?str::<impl str>::replacen::<&str>$')
def str_replace(ctx, args, st):
    s, pat, to = str_of(st, args[0]), str_of(st, args[1]), str_of(st, args[2])
    if any(x.facts is not None for x in (s, pat, to)): raise Unsupported('replace on abstract strings')
    limit = None
    if 'replacen' in ctx.callee:
        n = args[3].concrete()
        if n is None: raise Unsupported('replacen with symbolic count')
        limit = n + 1
    def g():
        for s2, pieces in split_positions(ctx.ex, st, s.chars, pat.chars, limit):
            out = []
            for k, p in enumerate(pieces):
                if k: out += list(to.chars)
                out += list(p)
            yield s2, 'ret', StrV(out, 'String')
    return g()


@model(r'^(?:core::)?str::<impl str>::(split|splitn|split_terminator)::<&str>$')
def str_split(ctx, args, st):
    from .iters import mk_list_iter
    if 'splitn' in ctx.callee:
        s, n, pat = str_of(st, args[0]), args[1].concrete(), str_of(st, args[2])
        if n is None: raise Unsupported('splitn with symbolic count')
        if n == 0:
            return ret(st, mk_list_iter([]))
    else:
        s, pat, n = str_of(st, args[0]), str_of(st, args[1]), None
    if s.facts is not None or pat.facts is not None: raise Unsupported('split on abstract strings')
    def g():
        for s2, pieces in split_positions(ctx.ex, st, s.chars, pat.chars, n):
            if 'split_terminator' in ctx.callee and pieces and len(pieces[-1]) == 0:
                pieces = pieces[:-1]        # std: like split, but a trailing empty piece is skipped
            yield s2, 'ret', mk_list_iter([s2.ref(StrV(p, 'str')) for p in pieces])
    return g()


@model(r'^(?:core::)?str::<impl str>::(split|split_terminator)::<char>$')
def str_split_char(ctx, args, st):
    from .iters import mk_list_iter
    s = str_of(st, args[0]); c = _char_arg(args[1])
    if s.facts is not None: raise Unsupported('split on abstract strings')
    def g():
        for s2, pieces in split_positions(ctx.ex, st, s.chars, (c,), None):
            if 'split_terminator' in ctx.callee and pieces and len(pieces[-1]) == 0:
                pieces = pieces[:-1]
            yield s2, 'ret', mk_list_iter([s2.ref(StrV(p, 'str')) for p in pieces])
    return g()


@model(r'^(?:core::)?str::<impl str>::contains::<&str>$')
def str_contains(ctx, args, st):
    s, pat = str_of(st, args[0]), str_of(st, args[1])
    if s.facts is not None or pat.facts is not None: raise Unsupported('contains on abstract strings')
    def g():
        for s2, pieces in split_positions(ctx.ex, st, s.chars, pat.chars, 2):
            yield s2, 'ret', Bool(len(pieces) == 2)
    return g()


@model(r'^<String as FromIterator<.*>>::from_iter')
def string_from_iter(ctx, args, st):
    return None


@model(r'^(?:core::)?str::<impl str>::(trim_end_matches|trim_right_matches|trim_matches)::<char>$')
def str_trim_matches_char(ctx, args, st):
    s = str_of(st, args[0]); c = _char_arg(args[1])
    both = ctx.callee.rsplit('::<', 1)[0].endswith('trim_matches')
    def last_is(s_, cur):
        if not cur.chars:
            yield s_, False; return
        x = cur.chars[-1]
        if isinstance(x, int): yield s_, x == c
        else: yield from ctx.ex.fork_bool(s_, x == c)
    def go_r(s_, cur):
        for s2, yes in last_is(s_, cur):
            if yes: yield from go_r(s2, StrV(cur.chars[:-1], 'str'))
            else: yield s2, cur
    def go_l(s_, cur):
        for s2, yes in _first_is(ctx.ex, s_, cur, c):
            if yes: yield from go_l(s2, StrV(cur.chars[1:], 'str'))
            else: yield s2, cur
    def g():
        for s1, cur in go_r(st, s):
            if both:
                for s2, cur2 in go_l(s1, cur): yield s2, 'ret', s2.ref(cur2.retag('str'))
            else:
                yield s1, 'ret', s1.ref(cur.retag('str'))
    return g()


@model(r'^(?:alloc::)?str::<impl str>::replace::<char>$')
def str_replace_char(ctx, args, st):
    s, to = str_of(st, args[0]), str_of(st, args[2]); c = _char_arg(args[1])
    def go(s_, i, out):
        if i == len(s.chars):
            yield s_, 'ret', StrV(out, 'String'); return
        x = s.chars[i]
        if isinstance(x, int):
            yield from go(s_, i + 1, out + (list(to.chars) if x == c else [x]))
        else:
            for s2, hit in ctx.ex.fork_bool(s_, x == c):
                yield from go(s2, i + 1, out + (list(to.chars) if hit else [x]))
    return go(st, 0, [])


@model(r'^(?:core::)?str::<impl str>::split_whitespace$')
def str_split_whitespace(ctx, args, st):
    from .iters import mk_list_iter
    s = str_of(st, args[0])
    def go(s_, i, cur, pieces):
        if i == len(s.chars):
            yield s_, pieces + ([tuple(cur)] if cur else []); return
        x = s.chars[i]
        for s2, w in _fork_pred(ctx.ex, s_, is_whitespace_expr(x)):
            if w: yield from go(s2, i + 1, [], pieces + ([tuple(cur)] if cur else []))
            else: yield from go(s2, i + 1, cur + [x], pieces)
    def g():
        for s2, pieces in go(st, 0, [], []):
            yield s2, 'ret', mk_list_iter([s2.ref(StrV(p, 'str')) for p in pieces])
    return g()


# ------------------------------------------------------------------ byte-offset views of a string (char_indices, &s[a..b])
def fix_lengths(ex, st, s):
    """generator (st, [utf-8 length of each char as python int]): forks every symbolic char into its 1/2/3/4-byte class, so
    that byte offsets are path-concrete and an offset inside a multi-byte char is seen as such"""
    def go(s_, i, acc):
        if i == len(s.chars):
            yield s_, acc; return
        c = s.chars[i]
        if isinstance(c, int):
            yield from go(s_, i + 1, acc + [utf8_len_expr(c)]); return
        known = s_.env.get(('u8len', c.get_id()))
        if known is not None:
            yield from go(s_, i + 1, acc + [known]); return
        def cls(s1, bounds, n):
            if not bounds:
                yield s1, n; return
            for s2, yes in ex.fork_bool(s1, z3.ULT(c, bounds[0])):
                if yes: yield s2, n
                else: yield from cls(s2, bounds[1:], n + 1)
        for s2, n in cls(s_, [0x80, 0x800, 0x10000], 1):
            s2.env[('u8len', c.get_id())] = n
            yield from go(s2, i + 1, acc + [n])
    yield from go(st, 0, [])


@model(r'^(?:core::)?str::<impl str>::(find|rfind)::<&&?(?:str|String)>$')
def str_find_str(ctx, args, st):
    """byte offset of the first (last) occurrence of a pattern string"""
    s, pat = str_of(st, args[0]), str_of(st, args[1])
    if s.facts is not None or pat.facts is not None: raise Unsupported('find on abstract strings')
    rev = 'rfind' in ctx.callee
    def g():
        for s1, lens in fix_lengths(ctx.ex, st, s):
            offs = []; off = 0
            for l in lens: offs.append(off); off += l
            offs.append(off)
            starts = list(range(0, len(s.chars) - len(pat.chars) + 1))
            if rev: starts.reverse()
            def go(s_, k):
                if k == len(starts):
                    yield s_, 'ret', NONE; return
                i = starts[k]
                for s2, hit in _match_at(ctx.ex, s_, tuple(s.chars), i, tuple(pat.chars)):
                    if hit: yield s2, 'ret', Some(Int(offs[i], 'usize'))
                    else: yield from go(s2, k + 1)
            yield from go(s1, 0)
    return g()


@model(r'^(?:core::)?str::<impl str>::(find|rfind)::<char>$')
def str_find_char(ctx, args, st):
    """byte offset of the first (last) occurrence of a concrete char"""
    s = str_of(st, args[0]); c = _char_arg(args[1])
    if s.facts is not None: raise Unsupported('find on an abstract string')
    rev = 'rfind' in ctx.callee
    def g():
        for s1, lens in fix_lengths(ctx.ex, st, s):
            offs = []; off = 0
            for l in lens: offs.append(off); off += l
            order = list(range(len(s.chars)))
            if rev: order.reverse()
            def go(s_, k):
                if k == len(order):
                    yield s_, 'ret', NONE; return
                i = order[k]; x = s.chars[i]
                if isinstance(x, int):
                    if x == c: yield s_, 'ret', Some(Int(offs[i], 'usize'))
                    else: yield from go(s_, k + 1)
                    return
                for s2, hit in ctx.ex.fork_bool(s_, x == c):
                    if hit: yield s2, 'ret', Some(Int(offs[i], 'usize'))
                    else: yield from go(s2, k + 1)
            yield from go(s1, 0)
    return g()


@model(r'^(?:core::)?str::<impl str>::char_indices$')
def str_char_indices(ctx, args, st):
    from .iters import mk_list_iter
    s = str_of(st, args[0])
    def g():
        for s2, lens in fix_lengths(ctx.ex, st, s):
            off = 0; items = []
            for c, l in zip(s.chars, lens):
                items.append(Tup([Int(off, 'usize'), Char(c)])); off += l
            yield s2, 'ret', mk_list_iter(items)
    return g()


def _concrete_usize(ex, st, iv, hi):
    c = iv.concrete()
    if c is not None:
        yield st, c; return
    for s2, k in ex.concretize(st, iv, 0, hi):
        yield s2, k


@model(r'^<str as Index<(?:std::ops::)?(Range|RangeFrom|RangeTo|RangeFull|RangeInclusive)(?:<usize>)?>>::index$|^(?:core::)?str::traits::<impl Index<.*> for str>::index$|^<String as Index<(?:std::ops::)?(Range|RangeFrom|RangeTo|RangeFull|RangeInclusive)(?:<usize>)?>>::index$')
def str_index_range(ctx, args, st):
    s = str_of(st, args[0]); rng = args[1]
    if s.facts is not None: raise Unsupported('byte slicing of an abstract string')
    if not isinstance(rng, Adt): raise Unsupported(f'str index {rng!r}')
    def g():
        for s1, lens in fix_lengths(ctx.ex, st, s):
            total = sum(lens)
            bounds = {0: 0}; off = 0
            for i, l in enumerate(lens):
                off += l; bounds[off] = i + 1
            lo_v = rng.items[0] if rng.ty in ('Range', 'RangeFrom', 'RangeInclusive') else Int(0, 'usize')
            hi_v = rng.items[1] if rng.ty == 'Range' else rng.items[0] if rng.ty == 'RangeTo' else Int(total, 'usize')
            if rng.ty == 'RangeInclusive':
                e = rng.items[1]
                ec = e.concrete()
                hi_v = Int(ec + 1, 'usize') if ec is not None else Int(z3.simplify(e.e + 1), 'usize')
            for s2, lo in _concrete_usize(ctx.ex, s1, lo_v, total + 4):
                for s3, hi in _concrete_usize(ctx.ex, s2, hi_v, total + 4):
                    if lo is None or hi is None or lo > hi or hi > total:
                        yield s3, 'panic', f'byte range {lo}..{hi} out of bounds of a string of {total} bytes'; continue
                    if lo not in bounds or hi not in bounds:
                        yield s3, 'panic', f'byte index {lo if lo not in bounds else hi} is not a char boundary'; continue
                    yield s3, 'ret', s3.ref(StrV(s.chars[bounds[lo]:bounds[hi]], 'str'))
    return g()


@model(r'^(?:core::)?str::<impl str>::(starts_with|ends_with)::<&&?str>$|^(?:core::)?str::<impl str>::(starts_with|ends_with)::<&String>$')
def str_starts_with_str(ctx, args, st):
    s, p = str_of(st, args[0]), str_of(st, args[1])
    if s.facts is not None or p.facts is not None: raise Unsupported('starts_with on abstract strings')
    at = 0 if 'starts_with' in ctx.callee else len(s.chars) - len(p.chars)
    def g():
        if at < 0:
            yield st, 'ret', Bool(False); return
        for s2, hit in _match_at(ctx.ex, st, s.chars, at, p.chars):
            yield s2, 'ret', Bool(hit)
    return g()


@model(r'^<(?:str|String|&str|&String|KString\w*(?:<.*>)?|&KString\w*(?:<.*>)?|kstring::\w+::KString\w*(?:<.*>)?|Option<String>) as (PartialOrd|Ord)(?:<.*>)?>::(partial_cmp|cmp)$')
def str_cmp(ctx, args, st):
    """lexicographic comparison (UTF-8 byte order equals code point order); Option<String>: None < Some"""
    partial = 'partial_cmp' in ctx.callee
    def wrap(o):
        v = Adt('Ordering', o, [])
        return Some(v) if partial else v
    a0, b0 = st.deref_all(args[0]), st.deref_all(args[1])
    if 'Option<String>' in ctx.callee:
        if a0.variant == 'None' or b0.variant == 'None':
            o = 'Equal' if a0.variant == b0.variant else ('Less' if a0.variant == 'None' else 'Greater')
            return ret(st, wrap(o))
        a0, b0 = st.deref_all(a0.items[0]), st.deref_all(b0.items[0])
    a, b = a0, b0
    if not (isinstance(a, StrV) and isinstance(b, StrV)) or a.facts is not None or b.facts is not None: raise Unsupported(f'string comparison of {a!r} and {b!r}')
    def go(s_, i):
        if i >= len(a.chars) or i >= len(b.chars):
            o = 'Equal' if len(a.chars) == len(b.chars) else ('Less' if len(a.chars) < len(b.chars) else 'Greater')
            yield s_, 'ret', wrap(o); return
        x, y = a.chars[i], b.chars[i]
        if isinstance(x, int) and isinstance(y, int):
            if x == y: yield from go(s_, i + 1)
            else: yield s_, 'ret', wrap('Less' if x < y else 'Greater')
            return
        for s1, lt in ctx.ex.fork_bool(s_, z3.ULT(ch_expr(x), ch_expr(y))):
            if lt:
                yield s1, 'ret', wrap('Less'); continue
            for s2, eq in ctx.ex.fork_bool(s1, ch_expr(x) == ch_expr(y)):
                if eq: yield from go(s2, i + 1)
                else: yield s2, 'ret', wrap('Greater')
    return go(st, 0)


@model(r'^(?:core::)?str::<impl str>::(strip_suffix|strip_prefix)::<&&?str>$')
def str_strip_affix(ctx, args, st):
    s, p = str_of(st, args[0]), str_of(st, args[1])
    if s.facts is not None or p.facts is not None: raise Unsupported('strip_suffix on abstract strings')
    suffix = 'strip_suffix' in ctx.callee
    at = len(s.chars) - len(p.chars) if suffix else 0
    def g():
        if at < 0:
            yield st, 'ret', NONE; return
        for s2, hit in _match_at(ctx.ex, st, s.chars, at, p.chars):
            if not hit: yield s2, 'ret', NONE
            else: yield s2, 'ret', Some(s2.ref(StrV(s.chars[:at] if suffix else s.chars[len(p.chars):], 'str')))
    return g()


@model(r'^(?:core::)?str::<impl str>::bytes$')
def str_bytes(ctx, args, st):
    """iterator over the UTF-8 bytes of a string (symbolic characters: length class forked, bytes are expressions)"""
    from .iters import mk_list_iter
    from .pctenc import utf8_bytes
    s = str_of(st, args[0])
    if s.facts is not None: raise Unsupported('bytes of an abstract string')
    def g():
        for s2, lens in fix_lengths(ctx.ex, st, s):
            bs = []
            for c, n in zip(s.chars, lens):
                for b in utf8_bytes(c, n):
                    bs.append(Int(z3.simplify(z3.Extract(7, 0, b)) if not isinstance(b, int) else z3.BitVecVal(b, 8), 'u8'))
            yield s2, 'ret', mk_list_iter(bs)
    return g()


@model(r'^core::num::<impl u8>::(is_ascii_whitespace|is_ascii_digit|is_ascii_hexdigit|is_ascii_alphabetic|is_ascii_alphanumeric|is_ascii_uppercase|is_ascii_lowercase|is_ascii_punctuation|is_ascii)$')
def u8_ascii_pred(ctx, args, st):
    v = args[0]
    while isinstance(v, Ref): v = st.deref(v)
    if not isinstance(v, Int): raise Unsupported(f'u8 predicate on {v!r}')
    b = v.e
    op = ctx.callee.rsplit('::', 1)[-1]
    rng = lambda lo, hi: z3.And(z3.UGE(b, lo), z3.ULE(b, hi))
    e = {'is_ascii_whitespace': z3.Or(b == 0x20, b == 0x09, b == 0x0A, b == 0x0C, b == 0x0D), 'is_ascii_digit': rng(48, 57),
         'is_ascii_alphabetic': z3.Or(rng(65, 90), rng(97, 122)), 'is_ascii_hexdigit': z3.Or(rng(48, 57), rng(65, 70), rng(97, 102)), 'is_ascii_uppercase': rng(65, 90), 'is_ascii_lowercase': rng(97, 122),
         'is_ascii_punctuation': z3.Or(rng(33, 47), rng(58, 64), rng(91, 96), rng(123, 126)), 'is_ascii_alphanumeric': z3.Or(rng(48, 57), rng(65, 90), rng(97, 122)), 'is_ascii': z3.ULT(b, 128)}[op]
    return ret(st, Bool(z3.simplify(e)))


@model(r'^(?:core::)?str::<impl str>::(trim_matches|trim_start_matches|trim_end_matches|trim_left_matches|trim_right_matches)::<\{closure@.*\}>$')
def str_trim_matches_closure(ctx, args, st):
    """trim with a predicate closure: the real closure is called on each candidate character"""
    s = str_of(st, args[0]); pred = args[1]
    if s.facts is not None: raise Unsupported('trim_matches on an abstract string')
    op = re.search(r'::(trim_\w+)::<', ctx.callee).group(1)
    left = op in ('trim_matches', 'trim_start_matches', 'trim_left_matches'); right = op in ('trim_matches', 'trim_end_matches', 'trim_right_matches')
    def holds(s_, c):
        for s2, kind, val in ctx.ex.call_value(pred, [Char(c)], s_, ctx.depth + 1):
            if kind != 'ret': raise Unsupported(f'trim predicate ended with {kind}')
            b = val.concrete() if isinstance(val, Bool) else None
            if b is not None: yield s2, b
            else: yield from ctx.ex.fork_bool(s2, val.e)
    def go_l(s_, a, b):
        if not left or a >= b:
            yield from go_r(s_, a, b); return
        for s2, yes in holds(s_, s.chars[a]):
            if yes: yield from go_l(s2, a + 1, b)
            else: yield from go_r(s2, a, b)
    def go_r(s_, a, b):
        if not right or a >= b:
            yield s_, 'ret', s_.ref(StrV(s.chars[a:b], 'str')); return
        for s2, yes in holds(s_, s.chars[b - 1]):
            if yes: yield from go_r(s2, a, b - 1)
            else: yield s2, 'ret', s2.ref(StrV(s.chars[a:b], 'str'))
    return go_l(st, 0, len(s.chars))


@model(r'^(?:core::)?str::<impl str>::is_char_boundary$')
def str_is_char_boundary(ctx, args, st):
    s = str_of(st, args[0]); idx = args[1]
    if s.facts is not None: raise Unsupported('is_char_boundary on an abstract string')
    def g():
        for s1, lens in fix_lengths(ctx.ex, st, s):
            total = sum(lens)
            bounds = {0}; off = 0
            for l in lens:
                off += l; bounds.add(off)
            c = idx.concrete()
            outs = [(s1, c)] if c is not None else list(ctx.ex.concretize(s1, idx, 0, total + 2))
            for s2, k in outs:
                yield s2, 'ret', Bool(k is not None and k in bounds)
    return g()
