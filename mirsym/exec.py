"""MIR symbolic executor: depth-first path enumeration, z3 for feasibility.

run(fn, args, st) is a generator of outcomes (st', kind, value) with kind in
  'ret'    normal return, value = return value
  'panic'  a panic event (assert failure, panic!/expect/unwrap/unreachable!, model-defined panic), value = message
States are owned by whoever receives them; anything that forks clones first.
"""
import re, time, itertools, os
import z3
from .mir import parse_mir, ParsedBlocks, split_top
from .values import *


class Unsupported(Exception):
    """the executor met something it has no semantics for -> the obligation is inconclusive (exit 2)"""


class NeedConcrete(Exception):
    """a place expression indexes with a symbolic integer: the block loop forks over its feasible values"""
    def __init__(self, alloc, iv, n):
        self.alloc, self.iv, self.n = alloc, iv, n


class BoundHit(Exception):
    """a stated bound (steps, depth, paths) was exceeded -> inconclusive unless the obligation handles it"""


class State:
    __slots__ = ('heap', 'conds', 'nalloc', 'env', 'steps', '_resume_at')

    def __init__(self):
        self.heap = {}; self.conds = []; self.nalloc = 0; self.env = {}; self.steps = 0; self._resume_at = 0

    def clone(self):
        s = State.__new__(State)
        s.heap = dict(self.heap); s.conds = list(self.conds); s.nalloc = self.nalloc; s.env = dict(self.env); s.steps = self.steps; s._resume_at = 0
        return s

    def alloc(self, v=UNINIT):
        self.nalloc += 1
        self.heap[self.nalloc] = v
        return self.nalloc

    def ref(self, v, mut=False):
        return Ref(self.alloc(v), (), mut)

    # ---- path-addressed immutable update
    def read(self, alloc, path):
        v = self.heap[alloc]
        for p in path:
            v = _proj(v, p)
        return v

    def write(self, alloc, path, val):
        if not path:
            self.heap[alloc] = val; return
        self.heap[alloc] = _update(self.heap[alloc], path, val)

    def deref(self, r):
        if not isinstance(r, Ref):
            raise Unsupported(f'deref of non-reference {r!r}')
        return self.read(r.alloc, r.path)

    def deref_all(self, v):
        while isinstance(v, Ref):
            v = self.read(v.alloc, v.path)
        return v

    def store(self, r, val):
        self.write(r.alloc, r.path, val)

    def assume(self, c):
        self.conds.append(c)
        # a cached satisfying assignment of the path condition stays valid only if it also satisfies c
        m = self.env.get('_model')
        if m is not None:
            try:
                if not z3.is_true(m.eval(c, model_completion=True)): self.env.pop('_model', None)
            except z3.Z3Exception:
                self.env.pop('_model', None)
        # equalities `var == value` pin a variable on this path (used to decide later branches without a solver call)
        if z3.is_eq(c):
            a, b = c.arg(0), c.arg(1)
            if z3.is_const(b) and b.decl().kind() == z3.Z3_OP_UNINTERPRETED and (z3.is_bv_value(a) or z3.is_true(a) or z3.is_false(a)): a, b = b, a
            if z3.is_const(a) and a.decl().kind() == z3.Z3_OP_UNINTERPRETED and (z3.is_bv_value(b) or z3.is_true(b) or z3.is_false(b)):
                self.env['_pins'] = self.env.get('_pins', ()) + ((a, b),)


def _proj(v, p):
    if hasattr(v, 'with_item'):
        try:
            return v.items[p]
        except IndexError:
            raise Unsupported(f'projection .{p} out of range on {v!r}')
    if isinstance(v, Uninit):
        return UNINIT
    raise Unsupported(f'projection .{p} on {v!r}')


def _update(v, path, val):
    p = path[0]
    if len(path) == 1:
        newc = val
    else:
        newc = _update(_proj(v, p), path[1:], val)
    if hasattr(v, 'with_item'):
        if isinstance(v, Tup) and p >= len(v.items):
            it = list(v.items) + [UNINIT] * (p + 1 - len(v.items)); it[p] = newc
            return Tup(it)
        return v.with_item(p, newc)
    if isinstance(v, Uninit):
        # building an aggregate field by field
        it = [UNINIT] * (p + 1); it[p] = newc
        return Tup(it)
    raise Unsupported(f'update .{p} on {v!r}')


GENERIC_NAME = re.compile(r'^(?:[A-Z][0-9]?|Self|__\w+|impl .*)$')


def strip_generics(s):
    out, depth = [], 0
    i, n = 0, len(s)
    while i < n:
        c = s[i]
        if c == '<':
            depth += 1
        elif c == '>' and i > 0 and s[i - 1] != '-':
            depth -= 1
        elif depth == 0:
            out.append(c)
        i += 1
    return ''.join(out).replace('::::', '::').rstrip(':')


def type_head(t):
    """'&'a mut foo::Bar<Baz>' -> 'Bar' ; 'dyn Trait + 'a' -> 'dyn Trait'"""
    t = t.strip()
    while True:
        m = re.match(r"^&\s*(?:'\w+\s+)?(?:mut\s+)?", t)
        if m and m.group(0):
            t = t[m.end():]; continue
        if t.startswith('(') and t.endswith(')') and ',' not in t:
            t = t[1:-1].strip(); continue
        break
    if t.startswith('dyn '):
        return 'dyn ' + strip_generics(t[4:].split('+')[0].strip()).rsplit('::', 1)[-1]
    return strip_generics(t).rsplit('::', 1)[-1].strip()


class CallCtx:
    __slots__ = ('ex', 'callee', 'caller', 'depth', 'dst_ty')

    def __init__(self, ex, callee, caller, depth, dst_ty=None):
        self.ex, self.callee, self.caller, self.depth, self.dst_ty = ex, callee, caller, depth, dst_ty


class Executor:
    def __init__(self, program, models, max_steps=4000, max_depth=40):
        self.prog = program
        self.src = program.src
        self.models = list(models)
        self.pb = ParsedBlocks()
        self.max_steps, self.max_depth = max_steps, max_depth
        self.queries = 0; self.solver_time = 0.0
        self.encoded = {}     # fn name -> hash (functions whose MIR was executed)
        self.models_used = set()
        self.seed = 0
        self.query_timeout_s = float(os.environ.get('VERIF_QUERY_TIMEOUT_S', '120'))
        self._fcache = {}
        self.model_hits = 0

    # ------------------------------------------------------------------ solver
    def solver(self):
        s = z3.Solver()
        s.set('random_seed', self.seed)
        s.set('timeout', int(self.query_timeout_s * 1000))
        return s

    def quick_check(self, conds):
        """(result, solver): the plain SMT core first (no tactic pipeline, ~10x cheaper per small query), the full solver when it gives up"""
        s = z3.SimpleSolver()
        s.set('random_seed', self.seed); s.set('timeout', 3000)
        s.add(*conds)
        t = time.time(); r = s.check(); self.solver_time += time.time() - t; self.queries += 1
        if r == z3.unknown:
            # the full z3 pipeline, briefly (decides the wide bit-vector VCs of literal parsing and indexing in seconds)
            s = self.solver(); s.set('timeout', 15000); s.add(*conds)
            t = time.time(); r = s.check(); self.solver_time += time.time() - t
        if r == z3.unknown:
            # arithmetic-heavy bit-vector queries (division/remainder by constants): cvc5's integer encoding can refute in seconds
            # what bit-blasting does not finish; only its `unsat` is used (a model is always taken from z3)
            t = time.time(); r2 = cvc5_unsat(s.to_smt2(), 120); self.solver_time += time.time() - t
            if r2:
                self.cvc5_unsat = getattr(self, 'cvc5_unsat', 0) + 1
                return z3.unsat, s
            s = self.solver(); s.add(*conds)
            t = time.time(); r = s.check(); self.solver_time += time.time() - t
        return r, s

    def feasible(self, st, extra=None):
        if extra is not None:
            e = z3.simplify(extra)
            if z3.is_false(e): return False
            if z3.is_true(e): extra = None
        if extra is None and not st.conds:
            return True
        if extra is not None:
            pins = st.env.get('_pins')
            if pins:
                e2 = z3.simplify(z3.substitute(extra, *pins))
                if z3.is_false(e2): return False      # extra contradicts the pinned values (which the path condition implies)
                if z3.is_true(e2): return True        # extra follows from the pinned values
            m = st.env.get('_model')
            if m is not None:
                try:
                    if z3.is_true(m.eval(extra, model_completion=True)):
                        self.model_hits += 1
                        return True                   # a known satisfying assignment of the path condition satisfies extra too
                except z3.Z3Exception:
                    pass
        r, s = self.quick_check(list(st.conds) + ([extra] if extra is not None else []))
        if r == z3.unknown:
            raise Unsupported('solver returned unknown on a feasibility query')
        if r == z3.sat:
            st.env['_model'] = s.model()
        return r == z3.sat

    def check_sat(self, conds):
        r, s = self.quick_check(conds)
        if r == z3.unknown:
            raise Unsupported('solver returned unknown')
        return (s.model() if r == z3.sat else None)

    def fork_bool(self, st, b):
        """yield (state, python bool) for each feasible truth value of z3 bool b"""
        e = z3.simplify(b)
        if z3.is_true(e): yield st, True; return
        if z3.is_false(e): yield st, False; return
        t_ok = self.feasible(st, e); f_ok = self.feasible(st, z3.Not(e))
        if t_ok and f_ok:
            s2 = st.clone(); s2.assume(z3.Not(e))
            st.assume(e)
            yield st, True
            yield s2, False
        elif t_ok:
            yield st, True
        elif f_ok:
            yield st, False

    def concretize(self, st, iv, lo, hi):
        """fork Int iv into concrete values lo..hi (python ints) plus None for 'outside'; yields (state, k)"""
        c = iv.concrete()
        if c is not None:
            yield st, (c if lo <= c <= hi else None); return
        outs = []
        for k in range(lo, hi + 1):
            cond = iv.e == z3.BitVecVal(k, iv.bits)
            if self.feasible(st, cond): outs.append((cond, k))
        if iv.signed:
            oc = z3.Or(iv.e < z3.BitVecVal(lo, iv.bits), iv.e > z3.BitVecVal(hi, iv.bits))
        else:
            oc = z3.Or(z3.ULT(iv.e, z3.BitVecVal(lo, iv.bits)), z3.UGT(iv.e, z3.BitVecVal(hi, iv.bits))) if lo > 0 else z3.UGT(iv.e, z3.BitVecVal(hi, iv.bits))
        if self.feasible(st, oc): outs.append((oc, None))
        for i, (cond, k) in enumerate(outs):
            s2 = st if i == len(outs) - 1 else st.clone()
            s2.assume(cond)
            yield s2, k

    # ------------------------------------------------------------------ running functions
    def run(self, fn, args, st, depth=0):
        if depth > self.max_depth:
            raise BoundHit(f'call depth > {self.max_depth} at {fn.name}')
        self.encoded[fn.name] = fn.hash
        frame = {}
        plocals = fn.param_locals()
        if len(plocals) != len(args):
            raise Unsupported(f'arity mismatch calling {fn.name}: {len(args)} args for {len(plocals)} params')
        for l in fn.locals:
            frame[l] = st.alloc(UNINIT)
        for l, a in zip(plocals, args):
            st.heap[frame[l]] = a
        yield from self._run_block(fn, 'bb0', frame, st, depth)

    def _run_block(self, fn, bb, frame, st, depth):
        while True:
            st.steps += 1
            if st.steps > self.max_steps:
                raise BoundHit(f'step bound {self.max_steps} in {fn.name}')
            stmts, term = self.pb.get(fn, bb)
            try:
                start = getattr(st, '_resume_at', 0); st._resume_at = 0
                for si in range(start, len(stmts)):
                    cur_si = si
                    self._stmt(fn, stmts[si], frame, st)
            except NeedConcrete as nc:
                # fork over the feasible concrete values of the index and re-run this block from the offending statement
                for s2, kv in list(self.concretize(st, nc.iv, 0, max(nc.n - 1, 0))):
                    if kv is None:
                        yield s2, 'panic', 'index out of bounds'; continue
                    s2.heap[nc.alloc] = Int(kv, nc.iv.ty)
                    s2._resume_at = cur_si
                    yield from self._run_block(fn, bb, frame, s2, depth)
                return
            k = term[0]
            if k == 'return':
                yield st, 'ret', st.heap[frame['_0']]; return
            if k == 'goto':
                bb = term[1]; continue
            if k == 'unreachable':
                yield st, 'panic', 'MIR unreachable reached'; return
            if k == 'abort':
                yield st, 'panic', 'abort/resume'; return
            if k == 'drop':
                v = self._read_place(fn, term[1], frame, st, allow_uninit=True)
                self.drop_value(st, v)
                bb = term[2]; continue
            if k == 'switch':
                v = self._operand(fn, term[1], frame, st)
                targets = term[2]
                if isinstance(v, (Int, Bool, Char)):
                    c = v.concrete()
                    if c is not None:
                        c = int(c)
                        dst = None
                        for key, d in targets:
                            if key != 'otherwise' and self._switch_key(v, int(key)) == c:
                                dst = d; break
                        if dst is None:
                            dst = dict(targets).get('otherwise')
                        if dst is None:
                            yield st, 'panic', 'switchInt without matching arm'; return
                        bb = dst; continue
                    # symbolic
                    arms = []; seen = []
                    for key, d in targets:
                        if key == 'otherwise':
                            cond = z3.And(*[z3.Not(x) for x in seen]) if seen else z3.BoolVal(True)
                        else:
                            cond = self._switch_cond(v, int(key)); seen.append(cond)
                        arms.append((cond, d))
                    live = [(c_, d) for c_, d in arms if self.feasible(st, c_)]
                    for i, (c_, d) in enumerate(live):
                        s2 = st if i == len(live) - 1 else st.clone()
                        s2.assume(c_)
                        yield from self._run_block(fn, d, frame, s2, depth)
                    return
                raise Unsupported(f'switchInt on {v!r} in {fn.name} {bb}')
            if k == 'assert':
                _, neg, opnd, msg, dst, extra = term
                v = self._operand(fn, opnd, frame, st)
                ok = z3.Not(v.e) if neg else v.e
                bad = z3.Not(ok)
                if self.feasible(st, bad):
                    s2 = st.clone(); s2.assume(bad)
                    yield s2, 'panic', 'assert: ' + msg.strip('"')
                if not self.feasible(st, ok):
                    return
                st.assume(ok); bb = dst; continue
            if k == 'call':
                _, dstp, callee, argops, nxt = term
                args = [self._operand(fn, a, frame, st) for a in argops]
                dst_ty = fn.locals.get(dstp[1]) if dstp and dstp[0] == 'local' else None
                outs = self.call(callee, args, st, depth, caller=fn, dst_ty=dst_ty)
                single = True
                for (s2, kind, val) in outs:
                    if kind == 'panic':
                        yield s2, 'panic', val; continue
                    if nxt is None:
                        # diverging call that returned: treat as panic event (e.g. panic! models return 'panic')
                        yield s2, 'panic', f'diverging call returned: {callee}'; continue
                    if dstp is not None:
                        self._write_place(fn, dstp, val, frame, s2)
                    yield from self._run_block(fn, nxt, frame, s2, depth)
                return
            if k == 'raw':
                raise Unsupported(f'unparsed terminator in {fn.name} {bb}: {term[1][:160]}')
            raise Unsupported(f'terminator {k}')

    @staticmethod
    def _switch_key(v, key):
        if isinstance(v, Int) and v.signed and key >= (1 << (v.bits - 1)):
            return key - (1 << v.bits)
        return key

    @staticmethod
    def _switch_cond(v, key):
        if isinstance(v, Bool):
            return v.e if key != 0 else z3.Not(v.e)
        bits = v.bits if isinstance(v, Int) else 32
        return v.e == z3.BitVecVal(key, bits)

    def drop_value(self, st, v):
        if isinstance(v, Py) and v.kind in self.drop_hooks:
            self.drop_hooks[v.kind](self, st, v)
        elif isinstance(v, Adt) and v.ty in self.drop_hooks:
            self.drop_hooks[v.ty](self, st, v)

    drop_hooks = {}

    # ------------------------------------------------------------------ places
    def _resolve(self, fn, p, frame, st):
        k = p[0]
        if k == 'local':
            return frame[p[1]], ()
        if k == 'field':
            a, path = self._resolve(fn, p[1], frame, st)
            if p[2] == 0:
                # Box<T> is modelled as an owning reference: the elaborated box deref `(*(((b.0: Unique).0: NonNull).0: *const T))`
                # projects through the pointer wrappers, which are the reference itself here
                try:
                    v = st.read(a, path)
                except Unsupported:
                    v = None
                if isinstance(v, Ref):
                    return a, path
            return a, path + (p[2],)
        if k == 'downcast':
            return self._resolve(fn, p[1], frame, st)
        if k == 'deref':
            a, path = self._resolve(fn, p[1], frame, st)
            v = st.read(a, path)
            if isinstance(v, Ref):
                return v.alloc, v.path
            raise Unsupported(f'deref of {v!r} in {fn.name}')
        if k == 'index':
            a, path = self._resolve(fn, p[1], frame, st)
            iv = st.heap[frame[p[2]]]
            c = iv.concrete() if isinstance(iv, Int) else None
            if c is None:
                if isinstance(iv, Int):
                    cont = st.read(a, path)
                    raise NeedConcrete(frame[p[2]], iv, len(cont.items) if hasattr(cont, 'items') else 0)
                raise Unsupported(f'symbolic index in place in {fn.name}')
            return a, path + (c,)
        if k == 'constidx':
            a, path = self._resolve(fn, p[1], frame, st)
            if p[4]:
                v = st.read(a, path)
                return a, path + (len(v.items) - p[2],)
            return a, path + (p[2],)
        raise Unsupported(f'place kind {k} in {fn.name}')

    def _read_place(self, fn, p, frame, st, allow_uninit=False):
        a, path = self._resolve(fn, p, frame, st)
        v = st.read(a, path)
        return v

    def _write_place(self, fn, p, val, frame, st):
        a, path = self._resolve(fn, p, frame, st)
        st.write(a, path, val)

    # ------------------------------------------------------------------ operands, rvalues
    def _operand(self, fn, o, frame, st):
        k = o[0]
        if k in ('copy', 'move'):
            return self._read_place(fn, o[1], frame, st)
        if k == 'const':
            return self.const(o[1], st, fn)
        if k == 'fnitem':
            return FnItem(o[1])
        raise Unsupported(f'operand {o}')

    def const(self, txt, st, fn=None):
        mp = re.search(r'::promoted\[(\d+)\]$', txt)
        if mp and fn is not None:
            pf = self.prog.promoted(fn, int(mp.group(1)))
            if pf is not None:
                outs = list(self.run(pf, [], st, 0))
                if len(outs) == 1 and outs[0][1] == 'ret':
                    return outs[0][2]
                raise Unsupported(f'promoted constant {txt} did not evaluate to a single value')
        ms = re.match(r'^\{(alloc\d+): &', txt)
        if ms and fn is not None:
            sf = self.prog.static_fn(fn.crate, ms.group(1))
            if sf is not None:
                key = ('static', sf.name)
                if key not in st.env:
                    outs = list(self.run(sf, [], st, 0))
                    if len(outs) != 1 or outs[0][1] != 'ret':
                        raise Unsupported(f'static initialiser {sf.name} did not evaluate to a single value')
                    st.env[key] = st.alloc(outs[0][2])
                return Ref(st.env[key], (), False)
        m = re.match(r'^(-?\d+)_(\w+)$', txt)
        if m and m.group(2) in INT_TYPES:
            return Int(int(m.group(1)), m.group(2))
        from .models import CONST_MODELS
        if txt in CONST_MODELS:
            self.models_used.add('const ' + txt)
            return CONST_MODELS[txt](st)
        mc = re.match(r'^(?:\w+::)+([A-Z][A-Z0-9_]*)$', txt)
        if mc and fn is not None:
            segs = txt.split('::'); cf = None
            for k in range(len(segs) - 1, -1, -1):          # MIR names const items by a suffix of their path (`FRAGMENT`, `datetime::DATE_TIME_FORMAT`)
                cand = self.prog.by_name.get('::'.join(segs[k:]))
                if cand is not None and cand.crate == fn.crate and not cand.params and cand.sig.startswith('fn ' + '::'.join(segs[k:]) + '()'):
                    cf = cand; break
            if cf is not None:
                key = ('constitem', cf.crate, cf.name)
                if key not in st.env:
                    outs = list(self.run(cf, [], st, 0))
                    if len(outs) != 1 or outs[0][1] != 'ret':
                        raise Unsupported(f'const item {txt} did not evaluate to a single value')
                    st.env[key] = outs[0][2]
                return st.env[key]
        m = re.match(r'^(?:std::result::|core::result::)?Result::<.*>::(Ok|Err)\(\(\)\)$', txt)
        if m: return Adt('Result', m.group(1), [UNIT])
        m = re.match(r'^(?:std::result::|core::result::)?Result::<.*>::(Ok|Err)\((?:std::fmt::|core::fmt::)?Error\)$', txt)
        if m: return Adt('Result', m.group(1), [Adt('FmtError', None, [])])
        if txt == 'true': return Bool(True)
        if txt == 'false': return Bool(False)
        if txt == '()': return UNIT
        m = re.match(r'^(-?[\d\.]+(?:[eE][-+]?\d+)?)f64$', txt)
        if m:
            return Float(z3.FPVal(float(m.group(1)), z3.Float64()))
        m = re.match(r'^(\w+)::(MIN|MAX)$', txt)
        if m and m.group(1) in INT_TYPES:
            bits, sg = INT_TYPES[m.group(1)]
            if sg: v = -(1 << (bits - 1)) if m.group(2) == 'MIN' else (1 << (bits - 1)) - 1
            else: v = 0 if m.group(2) == 'MIN' else (1 << bits) - 1
            return Int(v, m.group(1))
        if txt.startswith('"'):
            s = _unescape(txt[1:-1])
            return st.ref(StrV(s, 'str'))
        m = re.match(r"^'(.*)'$", txt, re.S)
        if m:
            s = _unescape(m.group(1))
            if len(s) == 1: return Char(ord(s))
        if txt.startswith('b"'):
            return Opaque(('bytes', txt[2:-1]))
        m = re.match(r'^ZeroSized: (\{closure@.*\})$', txt, re.S)
        if m:
            return Closure(m.group(1), [], None, fn.name if fn is not None else None)
        m = re.match(r'^ZeroSized: (.*)$', txt, re.S)
        if m:
            return Adt(type_head(m.group(1)), None, [])
        if re.match(r"^[\w:<>', &\[\]\(\)]+$", txt) and '::' in txt:
            segs = strip_generics(txt).split('::')
            if len(segs) >= 2 and self.src.variant_index(segs[-2], segs[-1]) is not None:
                return Adt(segs[-2], segs[-1], [])
        if re.match(r'^\w+$', txt):
            e = self.src.enum_of_variant(txt)
            if e: return Adt(e, txt, [])
            return Adt(txt, None, [])
        return Opaque(('const', txt))

    def _stmt(self, fn, s, frame, st):
        k = s[0]
        if k == 'nop': return
        if k == 'assign':
            dst_ty = fn.locals.get(s[1][1]) if s[1][0] == 'local' else (s[1][3] if s[1][0] == 'field' else None)
            v = self._rvalue(fn, s[2], frame, st, dst_ty)
            self._write_place(fn, s[1], v, frame, st)
            return
        if k == 'raw':
            raise Unsupported(f'unparsed statement in {fn.name}: {s[1][:160]}')
        raise Unsupported(f'statement {k}')

    def _rvalue(self, fn, rv, frame, st, dst_ty):
        k = rv[0]
        if k == 'use':
            return self._operand(fn, rv[1], frame, st)
        if k in ('ref', 'rawref'):
            a, path = self._resolve(fn, rv[2], frame, st)
            return Ref(a, path, rv[1])
        if k == 'binop':
            a = self._operand(fn, rv[2], frame, st); b = self._operand(fn, rv[3], frame, st)
            return self.binop(rv[1], a, b)
        if k == 'unop':
            a = self._operand(fn, rv[2], frame, st)
            if rv[1] == 'PtrMetadata':
                t = st.deref_all(a) if isinstance(a, Ref) else a
                if isinstance(t, VecV): return Int(len(t.items), 'usize')
                if isinstance(t, StrV):
                    from .models.strings import byte_len
                    return byte_len(t)
                raise Unsupported(f'PtrMetadata of {t!r}')
            return self.unop(rv[1], a)
        if k == 'cast':
            a = self._operand(fn, rv[1], frame, st)
            return self.cast(a, rv[2], rv[3], st)
        if k == 'discriminant':
            v = self._read_place(fn, rv[1], frame, st)
            try:
                return self.discriminant(v, dst_ty)
            except Unsupported as e:
                raise Unsupported(f'{e} in {fn.name}')
        if k == 'tuple':
            return Tup([self._operand(fn, x, frame, st) for x in rv[1]])
        if k == 'array':
            return VecV([self._operand(fn, x, frame, st) for x in rv[1]], 'array')
        if k == 'repeat':
            v = self._operand(fn, rv[1], frame, st)
            m = re.match(r'^(?:const )?(\d+)(?:_usize)?$', rv[2])
            if not m: raise Unsupported(f'repeat count {rv[2]}')
            return VecV([v] * int(m.group(1)), 'array')
        if k == 'closure':
            return Closure(rv[1], [self._operand(fn, x, frame, st) for _, x in rv[2]], tuple(n for n, _ in rv[2]), fn.name)
        if k == 'adt':
            return self.aggregate(rv[1], rv[2], [(n, self._operand(fn, x, frame, st)) for n, x in rv[3]])
        if k == 'len':
            v = self._read_place(fn, rv[1], frame, st)
            if isinstance(v, VecV): return Int(len(v.items), 'usize')
            raise Unsupported(f'Len of {v!r}')
        if k == 'raw':
            raise Unsupported(f'unparsed rvalue in {fn.name}: {rv[1][:160]}')
        raise Unsupported(f'rvalue {k}')

    def aggregate(self, head, kind, items):
        segs = [s for s in strip_generics(head).split('::') if s]
        last = segs[-1]
        vals = [v for _, v in items]
        names = [n for n, _ in items] if kind == 'struct' else None
        if len(segs) >= 2 and self.src.variant_index(segs[-2], last) is not None:
            return Adt(segs[-2], last, vals, names)
        if last in self.src.structs and kind != 'unit':
            return Adt(last, None, vals, names)
        e = self.src.enum_of_variant(last) if len(segs) == 1 else None      # trimmed variant paths (`Nil`) only
        if e is not None and last not in self.src.structs:
            return Adt(e, last, vals, names)
        return Adt(last, None, vals, names)

    def discriminant(self, v, dst_ty):
        ty = dst_ty if dst_ty in INT_TYPES else 'isize'
        if isinstance(v, Adt) and v.variant is not None:
            if v.ty == 'Ordering':
                return Int({'Less': -1, 'Equal': 0, 'Greater': 1}[v.variant], 'i8')
            idx = self.src.variant_index(v.ty, v.variant)
            if idx is None:
                raise Unsupported(f'unknown variant index for {v.ty}::{v.variant}')
            return Int(idx, ty)
        if isinstance(v, Py) and v.kind == 'symenum':
            return v.data['discr']
        raise Unsupported(f'discriminant of {v!r}')

    # ------------------------------------------------------------------ arithmetic
    def binop(self, op, a, b):
        if isinstance(a, Bool) and isinstance(b, Bool):
            f = {'Eq': lambda: a.e == b.e, 'Ne': lambda: a.e != b.e, 'BitAnd': lambda: z3.And(a.e, b.e), 'BitOr': lambda: z3.Or(a.e, b.e),
                 'BitXor': lambda: z3.Xor(a.e, b.e), 'Lt': lambda: z3.And(z3.Not(a.e), b.e), 'Le': lambda: z3.Implies(a.e, b.e),
                 'Gt': lambda: z3.And(a.e, z3.Not(b.e)), 'Ge': lambda: z3.Implies(b.e, a.e)}.get(op)
            if f: return Bool(z3.simplify(f()))
        if isinstance(a, Char) and isinstance(b, Char):
            a = Int(a.e, 'u32'); b = Int(b.e, 'u32')
        if isinstance(a, Float) and isinstance(b, Float):
            x, y = a.e, b.e; rm = z3.RNE()
            if op == 'Add': return Float(z3.fpAdd(rm, x, y))
            if op == 'Sub': return Float(z3.fpSub(rm, x, y))
            if op == 'Mul': return Float(z3.fpMul(rm, x, y))
            if op == 'Div': return Float(z3.fpDiv(rm, x, y))
            if op == 'Rem':
                from .models.nums import FMOD
                return Float(FMOD(x, y))   # C fmod: uninterpreted (z3's fpRem is the IEEE remainder, a different function)
            cmpf = {'Lt': z3.fpLT, 'Le': z3.fpLEQ, 'Gt': z3.fpGT, 'Ge': z3.fpGEQ, 'Eq': z3.fpEQ, 'Ne': lambda p, q: z3.Not(z3.fpEQ(p, q))}.get(op)
            if cmpf: return Bool(cmpf(x, y))
        if isinstance(a, Int) and isinstance(b, Int):
            sg = a.signed; x, y = a.e, b.e; n = a.bits
            if op in ('Shl', 'Shr', 'ShlUnchecked', 'ShrUnchecked') and b.bits != n:
                y = z3.ZeroExt(n - b.bits, y) if b.bits < n else z3.Extract(n - 1, 0, y)
            if op in ('Lt', 'Le', 'Gt', 'Ge'):
                f = {('Lt', True): lambda: x < y, ('Le', True): lambda: x <= y, ('Gt', True): lambda: x > y, ('Ge', True): lambda: x >= y,
                     ('Lt', False): lambda: z3.ULT(x, y), ('Le', False): lambda: z3.ULE(x, y), ('Gt', False): lambda: z3.UGT(x, y), ('Ge', False): lambda: z3.UGE(x, y)}
                return Bool(z3.simplify(f[(op, sg)]()))
            if op == 'Eq': return Bool(z3.simplify(x == y))
            if op == 'Ne': return Bool(z3.simplify(x != y))
            if op in ('Add', 'AddUnchecked'): return Int(z3.simplify(x + y), a.ty)
            if op in ('Sub', 'SubUnchecked'): return Int(z3.simplify(x - y), a.ty)
            if op in ('Mul', 'MulUnchecked'): return Int(z3.simplify(x * y), a.ty)
            if op == 'BitAnd': return Int(z3.simplify(x & y), a.ty)
            if op == 'BitOr': return Int(z3.simplify(x | y), a.ty)
            if op == 'BitXor': return Int(z3.simplify(x ^ y), a.ty)
            if op in ('Shl', 'ShlUnchecked'): return Int(z3.simplify(x << y), a.ty)
            if op in ('Shr', 'ShrUnchecked'): return Int(z3.simplify((x >> y) if sg else z3.LShR(x, y)), a.ty)
            if op == 'Div': return Int(z3.simplify((x / y) if sg else z3.UDiv(x, y)), a.ty)       # z3 bvsdiv truncates like Rust
            if op == 'Rem': return Int(z3.simplify(z3.SRem(x, y) if sg else z3.URem(x, y)), a.ty)
            if op.endswith('WithOverflow'):
                base = op[:3]
                r = {'Add': x + y, 'Sub': x - y, 'Mul': x * y}[base]
                if base == 'Add':
                    ovf = z3.Not(z3.BVAddNoOverflow(x, y, sg)) if not sg else z3.Or(z3.Not(z3.BVAddNoOverflow(x, y, True)), z3.Not(z3.BVAddNoUnderflow(x, y)))
                elif base == 'Sub':
                    ovf = z3.Not(z3.BVSubNoUnderflow(x, y, sg)) if not sg else z3.Or(z3.Not(z3.BVSubNoOverflow(x, y)), z3.Not(z3.BVSubNoUnderflow(x, y, True)))
                else:
                    ovf = z3.Not(z3.BVMulNoOverflow(x, y, sg)) if not sg else z3.Or(z3.Not(z3.BVMulNoOverflow(x, y, True)), z3.Not(z3.BVMulNoUnderflow(x, y)))
                return Tup([Int(z3.simplify(r), a.ty), Bool(z3.simplify(ovf))])
            if op == 'Cmp':
                lt = (x < y) if sg else z3.ULT(x, y)
                return Py('symord', {'lt': lt, 'eq': x == y})
        raise Unsupported(f'binop {op} on {a!r}, {b!r}')

    def unop(self, op, a):
        if op == 'Not':
            if isinstance(a, Bool): return Bool(z3.simplify(z3.Not(a.e)))
            if isinstance(a, Int): return Int(z3.simplify(~a.e), a.ty)
        if op == 'Neg':
            if isinstance(a, Int): return Int(z3.simplify(-a.e), a.ty)
            if isinstance(a, Float): return Float(z3.fpNeg(a.e))
        raise Unsupported(f'unop {op} on {a!r}')

    def cast(self, a, ty, kind, st):
        ty = ty.strip()
        if kind == 'IntToInt':
            if isinstance(a, Bool): a = Int(z3.If(a.e, z3.BitVecVal(1, 8), z3.BitVecVal(0, 8)), 'u8')
            if isinstance(a, Char): a = Int(a.e, 'u32')
            if ty == 'char':
                nb = 32
                e = a.e if a.bits == 32 else (z3.ZeroExt(32 - a.bits, a.e) if a.bits < 32 else z3.Extract(31, 0, a.e))
                return Char(z3.simplify(e))
            if ty not in INT_TYPES or not isinstance(a, Int): raise Unsupported(f'IntToInt {a!r} -> {ty}')
            nb = INT_TYPES[ty][0]
            if nb == a.bits: e = a.e
            elif nb < a.bits: e = z3.Extract(nb - 1, 0, a.e)
            else: e = z3.SignExt(nb - a.bits, a.e) if a.signed else z3.ZeroExt(nb - a.bits, a.e)
            return Int(z3.simplify(e), ty)
        if kind == 'IntToFloat' and isinstance(a, Int) and ty == 'f64':
            e = z3.fpSignedToFP(z3.RNE(), a.e, z3.Float64()) if a.signed else z3.fpUnsignedToFP(z3.RNE(), a.e, z3.Float64())
            return Float(e)
        if kind == 'FloatToInt' and isinstance(a, Float) and ty in INT_TYPES:
            return Int(float_to_int_sat(a.e, ty), ty)
        if kind.startswith('PointerCoercion') or kind in ('PtrToPtr', 'Transmute') and isinstance(a, Ref):
            return a
        raise Unsupported(f'cast {kind} {a!r} -> {ty}')

    # ------------------------------------------------------------------ calls
    def call(self, callee, args, st, depth, caller=None, dst_ty=None):
        ctx = CallCtx(self, callee, caller, depth, dst_ty)
        # abstract receiver?
        if args:
            r0 = args[0]
            tgt = st.deref_all(r0) if isinstance(r0, Ref) else r0
            if isinstance(tgt, Abs):
                res = tgt.handler(ctx, tgt, args, st)
                if res is not None:
                    self.models_used.add(f'abstract:{tgt.name}')
                    yield from res; return
        for pat, model, name in self.models:
            if pat.search(callee):
                res = model(ctx, args, st)
                if res is not None:
                    self.models_used.add(name)
                    yield from res; return
        fn = self.prog.resolve(callee, args, st, caller)
        if fn is None:
            # provided methods of std comparison traits, derived from the required one exactly as core defines them
            m = re.match(r'^<(.+) as (PartialEq|PartialOrd)(<.*>)?>::(ne|lt|le|gt|ge)$', callee, re.S)
            if m:
                base = f'<{m.group(1)} as {m.group(2)}{m.group(3) or ""}>::' + ('eq' if m.group(4) == 'ne' else 'partial_cmp')
                op = m.group(4)
                for s2, kind, v in self.call(base, args, st, depth, caller=caller):
                    if kind != 'ret':
                        yield s2, kind, v; continue
                    if op == 'ne':
                        yield s2, 'ret', Bool(z3.simplify(z3.Not(v.e)))
                    else:
                        o = v.items[0].variant if v.variant == 'Some' else None
                        yield s2, 'ret', Bool({'lt': o == 'Less', 'le': o in ('Less', 'Equal'), 'gt': o == 'Greater', 'ge': o in ('Greater', 'Equal')}[op])
                self.models_used.add('std-provided PartialEq::ne / PartialOrd::{lt,le,gt,ge} (defined from eq / partial_cmp as in core)')
                return
            recv = ''
            if args:
                r0 = st.deref_all(args[0]) if isinstance(args[0], Ref) else args[0]
                recv = f'; receiver {r0!r}'[:160]
            raise Unsupported(f'no model and no MIR body for callee `{callee}` (from {caller.name if caller else "?"}){recv}')
        if args and isinstance(args[0], Ref) and fn.params:
            # auto-deref through forwarding impls (`impl Trait for &T`, Box<T>): the method of the pointee was selected,
            # hand it a reference to the pointee itself
            p0 = fn.params[0].split(':', 1)[1].strip()
            if p0.startswith('&') and not p0.lstrip('&').lstrip().startswith(('&', "'")) or re.match(r"^&('\w+ )?(mut )?[^&]", p0):
                a0 = args[0]
                while isinstance(st.deref(a0), Ref):
                    a0 = st.deref(a0)
                if a0 is not args[0]:
                    args = [a0] + list(args[1:])
        yield from self.run(fn, args, st, depth + 1)

    def call_value(self, f, args, st, depth, hint=None):
        """call a closure / fn item value with the given argument list"""
        if isinstance(f, Ref):
            f = st.deref_all(f)
        if isinstance(f, Closure):
            fn = self.prog.closure_fn(f.key, f.parent, len(args), f.names, list(args), st, hint)
            if fn is None:
                raise Unsupported(f'closure body not found: {f.key}')
            # closure fns take (closure-or-ref, args...) ; by-ref closures get a reference to the closure value
            p0 = fn.params[0].split(':', 1)[1].strip() if fn.params else ''
            first = st.ref(f, p0.startswith('&mut')) if p0.startswith('&') else f
            yield from self.run(fn, [first] + list(args), st, depth + 1)
            return
        if isinstance(f, FnItem):
            segs = [x for x in strip_generics(f.name).split('::') if x]
            if len(segs) >= 2 and self.src.variant_index(segs[-2], segs[-1]) is not None:
                yield st, 'ret', Adt(segs[-2], segs[-1], list(args)); return      # enum tuple-variant constructor
            if len(segs) >= 1 and segs[-1] in self.src.tuple_structs and segs[-1] not in self.src.structs:
                yield st, 'ret', Adt(segs[-1], None, list(args)); return           # tuple-struct constructor
            yield from self.call(f.name, list(args), st, depth); return
        if isinstance(f, Adt) and f.variant is None and not f.items:
            # zero-sized fn item printed as a path const
            yield from self.call(f.ty, list(args), st, depth); return
        if isinstance(f, Py) and f.kind == 'pyfn':
            yield from f.data(self, list(args), st, depth); return
        raise Unsupported(f'call of non-function value {f!r}')


def cvc5_unsat(smt2, timeout_s):
    """True only when cvc5 (bit-vectors solved as integers) reports unsat without any error line"""
    import subprocess, tempfile, shutil
    exe = shutil.which('cvc5')
    if exe is None: return False
    with tempfile.NamedTemporaryFile('w', suffix='.smt2', delete=False, dir=os.environ.get('TMPDIR', '/tmp')) as f:
        f.write('(set-logic ALL)\n' + re.sub(r'\b(bvsdiv|bvudiv|bvsrem|bvurem|bvsmod)_i\b', r'\1', smt2)); path = f.name
    try:
        if os.environ.get('VERIF_KEEP_SMT'): shutil.copy(path, '/tmp/last-vc.smt2')
        r = subprocess.run([exe, '--lang', 'smt2', '--solve-bv-as-int=sum', f'--tlimit={int(timeout_s * 1000)}', path], stdout=subprocess.PIPE, stderr=subprocess.STDOUT, text=True, timeout=timeout_s + 10)
        out = r.stdout.strip().split('\n')
        return bool(out) and out[0].strip() == 'unsat' and not any('(error' in l or 'rror' in l for l in out)
    except Exception:
        return False
    finally:
        try: os.unlink(path)
        except OSError: pass


def _unsupported(msg):
    raise Unsupported(msg)


def _unescape(s):
    out = []; i = 0
    while i < len(s):
        c = s[i]
        if c == '\\' and i + 1 < len(s):
            d = s[i + 1]
            if d == 'n': out.append('\n'); i += 2
            elif d == 't': out.append('\t'); i += 2
            elif d == 'r': out.append('\r'); i += 2
            elif d == '0': out.append('\0'); i += 2
            elif d == '\\': out.append('\\'); i += 2
            elif d == '"': out.append('"'); i += 2
            elif d == "'": out.append("'"); i += 2
            elif d == 'u':
                j = s.index('}', i); out.append(chr(int(s[i + 3:j], 16))); i = j + 1
            elif d == 'x':
                out.append(chr(int(s[i + 2:i + 4], 16))); i += 4
            else:
                out.append(d); i += 2
        else:
            out.append(c); i += 1
    return ''.join(out)


def float_to_int_sat(fe, ty):
    """Rust `as`: saturating, NaN -> 0, truncation toward zero"""
    bits, sg = INT_TYPES[ty]
    if sg:
        lo, hi = -(1 << (bits - 1)), (1 << (bits - 1)) - 1
        conv = z3.fpToSBV(z3.RTZ(), fe, z3.BitVecSort(bits))
    else:
        lo, hi = 0, (1 << bits) - 1
        conv = z3.fpToUBV(z3.RTZ(), fe, z3.BitVecSort(bits))
    F = z3.Float64()
    # bounds as floats: 2^(bits-1) is exactly representable; x >= 2^(bits-1) saturates high; x < -2^(bits-1) saturates low
    hi_f = z3.FPVal(float(1 << (bits - 1 if sg else bits)), F)
    lo_f = z3.FPVal(float(lo), F)
    return z3.If(z3.fpIsNaN(fe), z3.BitVecVal(0, bits),
                 z3.If(z3.fpGEQ(fe, hi_f), z3.BitVecVal(hi, bits),
                       z3.If(z3.fpLEQ(fe, lo_f), z3.BitVecVal(lo, bits), conv)))
