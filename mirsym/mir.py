"""Parser for rustc's textual MIR (`--emit=mir`).

Only syntax; no semantics. Produces Fn objects whose blocks hold pre-parsed statements and a
terminator.  Anything the parser does not understand is kept as ('raw', text) and makes the
executor stop with Unsupported if (and only if) it is actually reached.
"""
import re, hashlib

OPEN = '([{'
CLOSE = ')]}'


def split_top(s, sep=','):
    """split s at top-level `sep`, respecting () [] {} <> and string/char literals."""
    out, depth, cur = [], 0, []
    i, n = 0, len(s)
    while i < n:
        c = s[i]
        if c == '"':
            j = i + 1
            while j < n and s[j] != '"':
                j += 2 if s[j] == '\\' else 1
            cur.append(s[i:j + 1]); i = j + 1; continue
        if c == "'" and i + 2 < n:
            # char literal 'x' or '\n' or '\u{..}' ; lifetimes ('a, '_) have no closing quote right after
            m = re.match(r"'(\\u\{[0-9a-fA-F]+\}|\\.|[^\\'])'", s[i:])
            if m:
                cur.append(m.group(0)); i += len(m.group(0)); continue
        if c in OPEN:
            depth += 1
        elif c in CLOSE:
            depth -= 1
        elif c == '<':
            # generic bracket unless it is a comparison/shift (surrounded by spaces) or '<='
            if not (i + 1 < n and s[i + 1] in ' =') or (i > 0 and s[i - 1] != ' '):
                depth += 1
        elif c == '>':
            if i > 0 and s[i - 1] in '-=':
                pass
            elif i > 0 and s[i - 1] == ' ' and i + 1 < n and s[i + 1] in ' =':
                pass
            else:
                depth -= 1
        if c == sep and depth == 0:
            out.append(''.join(cur).strip()); cur = []
        else:
            cur.append(c)
        i += 1
    t = ''.join(cur).strip()
    if t:
        out.append(t)
    return out


def match_paren(s, i):
    """s[i] is an opening bracket; return index of the matching closing bracket (only ()[]{} counted; string aware)."""
    depth = 0; n = len(s)
    while i < n:
        c = s[i]
        if c == '"':
            j = i + 1
            while j < n and s[j] != '"':
                j += 2 if s[j] == '\\' else 1
            i = j + 1; continue
        if c == "'":
            m = re.match(r"'(\\u\{[0-9a-fA-F]+\}|\\.|[^\\'])'", s[i:])
            if m:
                i += len(m.group(0)); continue
        if c in OPEN: depth += 1
        elif c in CLOSE:
            depth -= 1
            if depth == 0: return i
        i += 1
    raise ValueError('unbalanced: ' + s)


# ------------------------------------------------------------------ places
# place AST: ('local', '_3') | ('deref', p) | ('field', p, idx, tytext) | ('downcast', p, variant)
#          | ('index', p, '_k') | ('constidx', p, off, minlen, from_end) | ('subslice', p, a, b, from_end)

def parse_place(s):
    p, rest = _place(s.strip())
    if rest.strip():
        raise ValueError(f'trailing place text {rest!r} in {s!r}')
    return p


def _place(s):
    s = s.lstrip()
    if s.startswith('('):
        end = match_paren(s, 0)
        inner = s[1:end].strip()
        rest = s[end + 1:]
        if inner.startswith('*'):
            p = ('deref', parse_place(inner[1:]))
        else:
            base, r = _place(inner)
            r = r.lstrip()
            if r.startswith('.'):
                m = re.match(r'\.(\d+): (.*)$', r, re.S)
                p = ('field', base, int(m.group(1)), m.group(2).strip())
            elif r.startswith('as '):
                m = re.match(r'as (\w+)$', r)
                if not m:
                    raise ValueError('downcast? ' + s)
                p = ('downcast', base, m.group(1))
            else:
                raise ValueError('place? ' + s)
    else:
        m = re.match(r'_\d+', s)
        if not m:
            raise ValueError('place? ' + s)
        p = ('local', m.group(0)); rest = s[m.end():]
    # postfix index projections
    while rest.startswith('['):
        end = match_paren(rest, 0)
        ix = rest[1:end].strip(); rest = rest[end + 1:]
        m = re.match(r'^(_\d+)$', ix)
        if m: p = ('index', p, m.group(1)); continue
        m = re.match(r'^(-?)(\d+) of (\d+)$', ix)
        if m: p = ('constidx', p, int(m.group(2)), int(m.group(3)), m.group(1) == '-'); continue
        m = re.match(r'^(\d+):(-?)(\d+)$', ix) or re.match(r'^(\d+)\.\.(-?)(\d+)$', ix)
        if m: p = ('subslice', p, int(m.group(1)), int(m.group(3)), m.group(2) == '-'); continue
        m = re.match(r'^(\d+)\.\.$', ix) or re.match(r'^(\d+):$', ix)
        if m: p = ('subslice', p, int(m.group(1)), 0, True); continue
        raise ValueError('index projection? ' + ix)
    return p, rest


# ------------------------------------------------------------------ operands / rvalues
def parse_operand(s):
    s = s.strip()
    if s.startswith('copy '): return ('copy', parse_place(s[5:]))
    if s.startswith('move '): return ('move', parse_place(s[5:]))
    if s.startswith('const '): return ('const', s[6:].strip())
    if re.match(r'^[<\w]', s) and not s.startswith('_'):
        return ('fnitem', s)
    raise ValueError('operand? ' + s)


BINOPS = {'Add', 'Sub', 'Mul', 'Div', 'Rem', 'BitXor', 'BitAnd', 'BitOr', 'Shl', 'Shr', 'Eq', 'Lt', 'Le', 'Ne', 'Ge', 'Gt',
          'AddWithOverflow', 'SubWithOverflow', 'MulWithOverflow', 'AddUnchecked', 'SubUnchecked', 'MulUnchecked',
          'ShlUnchecked', 'ShrUnchecked', 'Offset', 'Cmp'}
UNOPS = {'Not', 'Neg', 'PtrMetadata'}


def parse_rvalue(s):
    s = s.strip()
    try:
        return _rvalue(s)
    except ValueError as e:
        return ('raw', s, str(e))


def _rvalue(s):
    if s.startswith('no_retag '):
        s = s[9:].strip()
    if s.startswith(('copy ', 'move ', 'const ')):
        # could be a cast:  `move _3 as T (Kind)`
        m = re.match(r'^(.*) as (.+) \((\w+(?:\(.*\))?)\)$', s, re.S)
        if m and not s.startswith('const ') or (m and _looks_like_cast(s)):
            try:
                return ('cast', parse_operand(m.group(1)), m.group(2).strip(), m.group(3))
            except ValueError:
                pass
        return ('use', parse_operand(s))
    if s.startswith('&raw '):
        m = re.match(r'^&raw (const|mut) (.*)$', s, re.S)
        return ('rawref', m.group(1) == 'mut', parse_place(m.group(2)))
    if s.startswith('&'):
        t = s[1:].lstrip()
        mut = False
        if t.startswith('mut '):
            mut = True; t = t[4:]
        elif t.startswith('fake shallow '):
            t = t[13:]
        elif t.startswith('fake '):
            t = t[5:]
        return ('ref', mut, parse_place(t))
    m = re.match(r'^(\w+)\((.*)\)$', s, re.S)
    if m and m.group(1) in BINOPS:
        a, b = split_top(m.group(2))
        return ('binop', m.group(1), parse_operand(a), parse_operand(b))
    if m and m.group(1) in UNOPS:
        return ('unop', m.group(1), parse_operand(m.group(2)))
    if m and m.group(1) == 'discriminant':
        return ('discriminant', parse_place(m.group(2)))
    if m and m.group(1) in ('Len',):
        return ('len', parse_place(m.group(2)))
    if m and m.group(1) == 'CopyForDeref':
        return ('use', ('copy', parse_place(m.group(2))))
    if m and m.group(1) == 'ShallowInitBox':
        a, _ty = split_top(m.group(2))
        return ('use', parse_operand(a))
    if s.startswith('wrap_binder') or s.startswith('unwrap_binder') or s.startswith('wrap unsafe binder'):
        raise ValueError('binder')
    # tuple
    if s.startswith('('):
        end = match_paren(s, 0)
        if end == len(s) - 1:
            inner = s[1:end].strip()
            items = split_top(inner) if inner else []
            return ('tuple', [parse_operand(x) for x in items])
    # array
    if s.startswith('['):
        end = match_paren(s, 0)
        if end == len(s) - 1:
            inner = s[1:end].strip()
            parts = split_top(inner, ';')
            if len(parts) == 2:
                return ('repeat', parse_operand(parts[0]), parts[1].strip())
            items = split_top(inner) if inner else []
            return ('array', [parse_operand(x) for x in items])
    # closure / coroutine aggregate
    m = re.match(r'^(\{closure@[^}]*\})\s*(?:\{(.*)\})?$', s, re.S)
    if m:
        body = (m.group(2) or '').strip()
        items = []
        for x in (split_top(body) if body else []):
            name, val = x.split(':', 1)
            items.append((name.strip(), parse_operand(val)))
        return ('closure', m.group(1), items)
    # struct-like aggregate  Path { f: op, .. }
    m = re.match(r'^(.+?) \{ (.*) \}$', s, re.S)
    if m and not m.group(1).startswith('{'):
        items = []
        for x in split_top(m.group(2)):
            name, val = x.split(':', 1)
            items.append((name.strip(), parse_operand(val)))
        return ('adt', m.group(1).strip(), 'struct', items)
    # tuple-like aggregate  Path(op, ..)   (enum tuple variant or tuple struct)
    if s.endswith(')'):
        # find the '(' that matches the final ')'
        depth = 0; i = len(s) - 1
        while i >= 0:
            c = s[i]
            if c in CLOSE: depth += 1
            elif c in OPEN:
                depth -= 1
                if depth == 0: break
            i -= 1
        head = s[:i].strip(); inner = s[i + 1:-1].strip()
        if head and re.match(r'^[\w:<>\'&, \[\]\(\)\*\+=;]+$', head) and not head.endswith('>)'):
            items = [(None, parse_operand(x)) for x in (split_top(inner) if inner else [])]
            return ('adt', head, 'tuple', items)
    # unit-like aggregate: Path  (e.g. `Nil`, `Option::<T>::None`)
    if re.match(r"^[\w:<>\'&, \[\]\(\)\*\+=;]+$", s):
        return ('adt', s, 'unit', [])
    raise ValueError('rvalue? ' + s)


def _looks_like_cast(s):
    return bool(re.search(r' as [^"]+ \((IntToInt|IntToFloat|FloatToInt|FloatToFloat|Transmute|PtrToPtr|FnPtrToPtr|PointerCoercion.*|PointerExposeProvenance|PointerWithExposedProvenance)\)$', s))


# ------------------------------------------------------------------ statements / terminators
SKIP_STMT = ('StorageLive', 'StorageDead', 'nop', 'FakeRead', 'PlaceMention', 'Retag', 'AscribeUserType', 'Coverage',
             'ConstEvalCounter', 'BackwardIncompatibleDropHint')


def parse_stmt(s):
    s = s.strip()
    if s.endswith(';'): s = s[:-1]
    if s.startswith(SKIP_STMT):
        return ('nop',)
    if s.startswith('assume('):
        return ('nop',)
    m = re.match(r'^discriminant\((.*)\) = (\d+)$', s)
    if m:
        return ('setdiscr', parse_place(m.group(1)), int(m.group(2)))
    if s.startswith('Deinit('):
        return ('nop',)
    # assignment: place = rvalue. place has no ' = ' inside outside parens in practice
    i = _find_assign(s)
    if i < 0:
        return ('raw', s, 'stmt')
    try:
        dst = parse_place(s[:i])
    except ValueError as e:
        return ('raw', s, str(e))
    return ('assign', dst, parse_rvalue(s[i + 3:]))


def _find_assign(s):
    depth = 0
    i, n = 0, len(s)
    while i < n:
        c = s[i]
        if c == '"':
            return -1
        if c in OPEN: depth += 1
        elif c in CLOSE: depth -= 1
        elif depth == 0 and s.startswith(' = ', i):
            return i
        i += 1
    return -1


def parse_targets(t):
    """'[return: bb1, unwind unreachable]' or 'return: bb1' -> dict"""
    t = t.strip()
    if t.startswith('['): t = t[1:-1]
    d = {}
    for part in split_top(t):
        part = part.strip()
        if part.startswith('unwind'):
            d['unwind'] = part[6:].strip().lstrip(':').strip()
        else:
            k, v = part.split(':', 1)
            d[k.strip()] = v.strip()
    return d


def parse_terminator(s):
    s = s.strip()
    if s.endswith(';'): s = s[:-1]
    if s == 'return': return ('return',)
    if s == 'unreachable': return ('unreachable',)
    if s.startswith('resume') or s.startswith('terminate') or s.startswith('abort'): return ('abort', s)
    m = re.match(r'^goto -> (bb\d+)$', s)
    if m: return ('goto', m.group(1))
    m = re.match(r'^(?:falseUnwind|falseEdge) -> \[real: (bb\d+),.*\]$', s)
    if m: return ('goto', m.group(1))
    if s.startswith('switchInt('):
        end = match_paren(s, 9)
        op = parse_operand(s[10:end])
        m = re.match(r'^\s*->\s*\[(.*)\]$', s[end + 1:], re.S)
        targets = []
        for part in m.group(1).split(','):
            k, v = part.split(':')
            targets.append((k.strip(), v.strip()))
        return ('switch', op, targets)
    if s.startswith('assert('):
        end = match_paren(s, 6)
        inner = split_top(s[7:end])
        cond = inner[0].strip()
        neg = cond.startswith('!')
        if neg: cond = cond[1:]
        msg = inner[1] if len(inner) > 1 else ''
        m = re.match(r'^\s*->\s*(.*)$', s[end + 1:], re.S)
        tg = parse_targets(m.group(1))
        return ('assert', neg, parse_operand(cond), msg, tg.get('success'), [x for x in inner[2:]])
    if s.startswith('drop('):
        end = match_paren(s, 4)
        m = re.match(r'^\s*->\s*(.*)$', s[end + 1:], re.S)
        tg = parse_targets(m.group(1))
        return ('drop', parse_place(s[5:end]), tg.get('return'))
    # call: [place = ] callee(args) -> [return: bb, unwind ..]  |  callee(args) -> unwind ..
    arrow = _rfind_arrow(s)
    if arrow >= 0:
        head, tail = s[:arrow].strip(), s[arrow + 2:].strip()
        tg = parse_targets(tail) if tail.startswith('[') else ({'unwind': tail[6:].strip()} if tail.startswith('unwind') else parse_targets(tail))
        # head ends with ')' of the arg list
        if head.endswith(')'):
            depth = 0; i = len(head) - 1
            while i >= 0:
                c = head[i]
                if c == '"':   # skip string backwards
                    j = i - 1
                    while j >= 0 and not (head[j] == '"' and (j == 0 or head[j - 1] != '\\')):
                        j -= 1
                    i = j - 1; continue
                if c in CLOSE: depth += 1
                elif c in OPEN:
                    depth -= 1
                    if depth == 0: break
                i -= 1
            argtxt = head[i + 1:-1].strip()
            pre = head[:i]
            k = _find_assign(pre)
            if k >= 0:
                dst = parse_place(pre[:k]); callee = pre[k + 3:].strip()
            else:
                dst = None; callee = pre.strip()
            try:
                args = [parse_operand(a) for a in (split_top(argtxt) if argtxt else [])]
            except ValueError as e:
                return ('raw', s, str(e))
            return ('call', dst, callee, args, tg.get('return'))
    return ('raw', s, 'terminator')


def _rfind_arrow(s):
    # last ' -> ' at bracket depth 0, outside strings
    depth = 0; i = 0; n = len(s); last = -1
    while i < n:
        c = s[i]
        if c == '"':
            j = i + 1
            while j < n and s[j] != '"':
                j += 2 if s[j] == '\\' else 1
            i = j + 1; continue
        if c in OPEN: depth += 1
        elif c in CLOSE: depth -= 1
        elif depth == 0 and s.startswith(' -> ', i):
            last = i + 1
        i += 1
    return last


# ------------------------------------------------------------------ functions
class Fn:
    __slots__ = ('name', 'sig', 'params', 'ret', 'locals', 'blocks', 'text', 'crate', 'impl_span', 'short', 'generics_hint', '_hash')

    def __init__(self, name, sig, params, ret, crate):
        self.name, self.sig, self.params, self.ret, self.crate = name, sig, params, ret, crate
        self.locals = {}
        self.blocks = {}
        self.text = []
        self.impl_span = None
        m = re.search(r'<impl at ([^:>]+):(\d+):(\d+): (\d+):(\d+)>', name)
        if m:
            self.impl_span = (m.group(1), int(m.group(2)), int(m.group(3)), int(m.group(4)), int(m.group(5)))
        self.short = name.rsplit('::', 1)[-1] if not name.endswith('}') else name
        self._hash = None

    @property
    def hash(self):
        if self._hash is None:
            # hash of the body with source positions stripped, so that moving lines does not change it
            body = re.sub(r'[\w/\.-]+\.rs:\d+:\d+: \d+:\d+', 'SPAN', '\n'.join(self.text))
            self._hash = hashlib.sha256(body.encode()).hexdigest()[:16]
        return self._hash

    def param_locals(self):
        return [re.match(r'^(_\d+)', p).group(1) for p in self.params]

    def __repr__(self):
        return f'<Fn {self.name}>'


HDR = re.compile(r'^fn (.+?)\((.*)\) -> (.+) \{$')
HDR2 = re.compile(r'^fn (.+?)\((.*)\) \{$')


def parse_mir(text, crate):
    fns = []
    lines = text.split('\n')
    i, n = 0, len(lines)
    while i < n:
        ln = lines[i]
        if (ln.startswith('const ') or ln.startswith('static ')) and ln.endswith('= {'):
            is_static = ln.startswith('static ')
            body = ln[7:-4] if is_static else ln[6:-4]
            if is_static and body.startswith('mut '): body = body[4:]
            depth = 0; cut = -1
            for k, ch in enumerate(body):
                if ch in '<([': depth += 1
                elif ch in '>)]' and not (ch == '>' and k > 0 and body[k - 1] == '-'): depth -= 1
                elif depth == 0 and body.startswith(': ', k):
                    cut = k; break
            if cut > 0:
                ln = f'fn {"static:" if is_static else ""}{body[:cut]}() -> {body[cut + 2:]} {{'
        if not ln.startswith('fn '):
            i += 1; continue
        m = HDR.match(ln)
        if m:
            name, params, ret = m.group(1), m.group(2), m.group(3)
        else:
            m = HDR2.match(ln)
            if not m:
                i += 1; continue
            name, params, ret = m.group(1), m.group(2), '()'
        f = Fn(name, ln, split_top(params) if params.strip() else [], ret, crate)
        start = i
        i += 1
        while i < n and lines[i] != '}':
            s = lines[i].strip()
            ml = re.match(r'^let (?:mut )?(_\d+): (.+);$', s)
            if ml:
                f.locals[ml.group(1)] = ml.group(2)
            else:
                mb = re.match(r'^(bb\d+)(?: \(cleanup\))?: \{$', s)
                if mb:
                    raw = []
                    i += 1
                    while lines[i].strip() != '}':
                        t = lines[i].strip()
                        if t:
                            # statements can span several lines (multi-line consts); join until ';'
                            raw.append(t)
                        i += 1
                    stmts = _join_multiline(raw)
                    f.blocks[mb.group(1)] = stmts
            i += 1
        f.text = lines[start:i + 1]
        for p in f.params:
            mp = re.match(r'^(_\d+): (.+)$', p, re.S)
            if mp:
                f.locals[mp.group(1)] = mp.group(2)
        f.locals.setdefault('_0', ret)
        fns.append(f)
        i += 1
    return fns


def _join_multiline(raw):
    out, cur = [], ''
    for t in raw:
        cur = (cur + ' ' + t) if cur else t
        if cur.endswith(';') and cur.count('{') == cur.count('}'):
            out.append(cur); cur = ''
    if cur:
        out.append(cur)
    return out


class ParsedBlocks:
    """lazy per-function parse cache of statements/terminators"""
    def __init__(self):
        self.cache = {}

    def get(self, fn, bb):
        key = (id(fn), bb)
        r = self.cache.get(key)
        if r is None:
            raw = fn.blocks[bb]
            stmts = [parse_stmt(x) for x in raw[:-1]]
            term = parse_terminator(raw[-1])
            r = (stmts, term)
            self.cache[key] = r
        return r
