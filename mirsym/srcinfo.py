"""Facts read from /repo's Rust sources that the MIR text does not carry:
   * enum variant order (variant name -> discriminant index),
   * struct field order (sanity only),
   * for every `<impl at file:line:col>` span: the trait (or None) and the self type name.
Re-read on every run (the sources may have been edited)."""
import re, os, glob

REPO = os.environ.get('VERIF_REPO', '/repo')

STD_ENUMS = {
    'LineColLocation': ['Pos', 'Span'],      # pest::error::LineColLocation (declaration order)
    'Option': ['None', 'Some'],
    'Result': ['Ok', 'Err'],
    'ControlFlow': ['Continue', 'Break'],
    'Ordering': ['Less', 'Equal', 'Greater'],
    'Cow': ['Borrowed', 'Owned'],
    'Bound': ['Included', 'Excluded', 'Unbounded'],
}
ORDERING_DISCR = {'Less': -1, 'Equal': 0, 'Greater': 1}


def strip_comments(src):
    src = re.sub(r'//[^\n]*', '', src)
    src = re.sub(r'/\*.*?\*/', '', src, flags=re.S)
    return src


class SrcInfo:
    def __init__(self, repo=REPO):
        self.repo = repo
        self.enums = {k: list(v) for k, v in STD_ENUMS.items()}
        self.structs = {}
        self.tuple_structs = set()
        self.files = {}
        for path in glob.glob(os.path.join(repo, 'crates/*/src/**/*.rs'), recursive=True) + glob.glob(os.path.join(repo, 'src/**/*.rs'), recursive=True):
            rel = os.path.relpath(path, repo)
            try:
                txt = open(path, encoding='utf-8').read()
            except Exception:
                continue
            self.files[rel] = txt
            self._scan(txt)
        self._impl_cache = {}
        self.trait_args = {}
        # pest_derive generates `enum Rule { EOI, <rule names in grammar order> }`
        gp = os.path.join(repo, 'crates/core/src/parser/grammar.pest')
        if os.path.exists(gp) and 'Rule' not in self.enums:
            g = re.sub(r'//[^\n]*', '', open(gp).read())
            self.enums['Rule'] = ['EOI'] + re.findall(r'^\s*([A-Za-z_][A-Za-z_0-9]*)\s*=\s*[_@$!]?\s*\{', g, flags=re.M)

    def _scan(self, txt):
        t = strip_comments(txt)
        for m in re.finditer(r'\benum\s+(\w+)\s*(?:<[^{]*>)?\s*(?:where[^{]*)?\{', t):
            name = m.group(1)
            body = self._body(t, m.end() - 1)
            variants = []
            for part in self._split_items(body):
                part = re.sub(r'#\[[^\]]*\]', '', part).strip()
                mm = re.match(r'^(\w+)', part)
                if mm:
                    variants.append(mm.group(1))
            if variants and name not in self.enums:
                self.enums[name] = variants
        for m in re.finditer(r'\bstruct\s+(\w+)\s*(?:<[^{;(]*>)?\s*(?:where[^{]*)?\{', t):
            name = m.group(1)
            body = self._body(t, m.end() - 1)
            fields = []
            for part in self._split_items(body):
                part = re.sub(r'#\[[^\]]*\]', '', part).strip()
                mm = re.match(r'^(?:pub(?:\([^)]*\))?\s+)?(\w+)\s*:', part)
                if mm:
                    fields.append(mm.group(1))
            self.structs.setdefault(name, fields)
        for m in re.finditer(r'\bstruct\s+(\w+)\s*(?:<[^{;(]*>)?\s*(\(|;)', t):
            self.tuple_structs.add(m.group(1))

    @staticmethod
    def _body(t, i):
        depth = 0; j = i
        while j < len(t):
            if t[j] == '{': depth += 1
            elif t[j] == '}':
                depth -= 1
                if depth == 0:
                    return t[i + 1:j]
            j += 1
        return t[i + 1:]

    @staticmethod
    def _split_items(body):
        out, depth, cur = [], 0, ''
        for c in body:
            if c in '([{<': depth += 1
            elif c in ')]}>': depth -= 1
            if c == ',' and depth == 0:
                out.append(cur); cur = ''
            else:
                cur += c
        if cur.strip():
            out.append(cur)
        return out

    def variant_index(self, enum, variant):
        e = enum.rsplit('::', 1)[-1]
        vs = self.enums.get(e)
        if vs is None or variant not in vs:
            return None
        return vs.index(variant)

    def enum_of_variant(self, variant, hint=None):
        c = [e for e, vs in self.enums.items() if variant in vs]
        if hint:
            h = [e for e in c if e == hint]
            if h: return h[0]
        return c[0] if len(c) == 1 else None

    def impl_header(self, span):
        """span = (file, line, col, line2, col2) -> (trait or None, self type name, kind) ; kind 'impl'|'derive'"""
        if span in self._impl_cache:
            return self._impl_cache[span]
        file, l1, c1, l2, c2 = span
        txt = self.files.get(file)
        res = (None, None, 'unknown')
        if txt is not None:
            lines = txt.split('\n')
            seg = '\n'.join(lines[l1 - 1:l2])
            first = lines[l1 - 1][c1 - 1:] if l1 - 1 < len(lines) else ''
            if first.lstrip().startswith(('impl', 'unsafe impl')):
                # header up to the '{'
                hdr = first
                k = l1
                while '{' not in hdr and k < len(lines):
                    hdr += ' ' + lines[k]; k += 1
                hdr = hdr.split('{', 1)[0]
                hdr = re.sub(r'\s+', ' ', hdr)
                hdr = re.sub(r'^(unsafe )?impl\s*', '', hdr)
                if hdr.startswith('<'):
                    # skip generics
                    depth = 0
                    for i, ch in enumerate(hdr):
                        if ch == '<': depth += 1
                        elif ch == '>' and hdr[i - 1] != '-':
                            depth -= 1
                            if depth == 0:
                                hdr = hdr[i + 1:].strip(); break
                hdr = hdr.split(' where ')[0].strip()
                if ' for ' in hdr:
                    tr, ty = hdr.split(' for ', 1)
                else:
                    tr, ty = None, hdr
                res = (self._head(tr) if tr else None, self._head(ty), 'impl')
                self.trait_args[span] = self._generic_heads(tr) if tr else []
            else:
                # derive: the word at the span is the derive macro's name; type = next struct/enum
                word = first[:max(0, c2 - c1)] if l1 == l2 else first
                rest = '\n'.join(lines[l1 - 1:l1 + 40])
                m = re.search(r'\b(?:struct|enum)\s+(\w+)', rest)
                res = (('derive:' + word.strip()), m.group(1) if m else None, 'derive')
        self._impl_cache[span] = res
        return res

    def _generic_heads(self, t):
        t = t.strip()
        i = t.find('<')
        if i < 0 or not t.endswith('>'): return []
        inner = t[i + 1:-1]
        parts = self._split_items(inner)
        return [self._head(x) for x in parts if x.strip() and not x.strip().startswith("'")]

    @staticmethod
    def _head(t):
        t = t.strip()
        t = re.sub(r"^&\s*(?:'\w+\s+)?(?:mut\s+)?", '&', t)
        t = re.sub(r'^dyn\s+', 'dyn ', t)
        # strip generics
        out, depth = '', 0
        for ch in t:
            if ch == '<': depth += 1
            elif ch == '>': depth -= 1
            elif depth == 0: out += ch
        out = out.strip()
        # last path segment
        if out.startswith('&'):
            return '&' + out[1:].strip().rsplit('::', 1)[-1]
        if out.startswith('dyn '):
            return 'dyn ' + out[4:].split('+')[0].strip().rsplit('::', 1)[-1]
        return out.rsplit('::', 1)[-1]
