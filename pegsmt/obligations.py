"""Shared helpers for grammar obligations (E3)."""
import os, time, hashlib
import z3
from pegsmt.peg import parse_grammar, Matcher, concrete_match

REPO = os.environ.get('VERIF_REPO', '/repo')
GRAMMAR = os.path.join(REPO, 'crates/core/src/parser/grammar.pest')

EXTRA_RULES = r'''
RustFloat = @{ ("+" | "-")? ~ ( (ASCII_DIGIT+ ~ ("." ~ ASCII_DIGIT*)?) | ("." ~ ASCII_DIGIT+) ) ~ (("e" | "E") ~ ("+" | "-")? ~ ASCII_DIGIT+)? }
AnyStart = _{ TagStart | ExpressionStart }
'''


def load():
    src = open(GRAMMAR).read()
    rules = parse_grammar(src + EXTRA_RULES)
    return rules, hashlib.sha256(src.encode()).hexdigest()[:16]


def witness(m, model):
    L = model.eval(m.L, model_completion=True).as_long()
    return ''.join(chr(model.eval(m.c[i], model_completion=True).as_long()) for i in range(L))


def solve(ob, conds, timeout_s=120):
    s = z3.Solver(); s.set('timeout', int(timeout_s * 1000)); s.add(*conds)
    t = time.time(); r = s.check(); ob.solver_s += time.time() - t; ob.queries += 1
    if r == z3.unknown:
        from vlib.framework import Inconclusive
        raise Inconclusive(f'solver unknown/timeout on a grammar VC of {ob.name}')
    if r == z3.sat:
        ob.sat += 1; return s.model()
    ob.unsat += 1; return None


def full(m, res):
    """the rule matched the whole input"""
    return z3.Or(*[z3.And(c, m.L == j) for j, c in res.items()]) if res else z3.BoolVal(False)


def is_ws(x, chars=(0x20, 0x09, 0x0A, 0x0D)):
    return z3.Or(*[x == c for c in chars])
