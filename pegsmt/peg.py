"""PEG -> SMT for pest grammars (the subset of pest syntax used by grammar.pest).

The input is a symbolic string: code points c[0..N) (z3 BV32) and a symbolic length L (0 <= L <= N).
match(expr, i, atomic) returns {end position j: z3 condition}; the conditions of different j are mutually exclusive
(PEG matching is deterministic); the failure condition is Not(Or(all conditions)).
pest semantics modelled: ordered choice, greedy repetition without backtracking, !/& predicates, implicit WHITESPACE*
between the elements of sequences and repetitions inside non-atomic rules, atomicity cascading into called rules
(@ and $ rules atomic, !{} rules non-atomic, {} and _{} rules inherit), SOI/EOI/ANY/NEWLINE/ASCII_* built-ins."""
import re
import z3


# ------------------------------------------------------------------ grammar file parser
class Rule:
    def __init__(self, name, mod, expr): self.name, self.mod, self.expr = name, mod, expr


def tokenize(src):
    src = re.sub(r'//[^\n]*', '', src)
    toks = []; i = 0
    while i < len(src):
        c = src[i]
        if c.isspace(): i += 1; continue
        if c == '"':
            j = i + 1; s = ''
            while src[j] != '"':
                if src[j] == '\\':
                    d = src[j + 1]
                    s += {'n': '\n', 't': '\t', 'r': '\r', '\\': '\\', '"': '"', "'": "'", '0': '\0'}.get(d, d); j += 2
                else:
                    s += src[j]; j += 1
            toks.append(('str', s)); i = j + 1; continue
        if c == "'":
            j = src.index("'", i + 1); toks.append(('chr', src[i + 1:j])); i = j + 1; continue
        m = re.match(r'[A-Za-z_][A-Za-z_0-9]*', src[i:])
        if m: toks.append(('id', m.group(0))); i += len(m.group(0)); continue
        if src.startswith('..', i): toks.append(('op', '..')); i += 2; continue
        toks.append(('op', c)); i += 1
    return toks


def parse_grammar(src):
    toks = tokenize(src); pos = [0]
    def peek(): return toks[pos[0]] if pos[0] < len(toks) else (None, None)
    def nxt(): t = toks[pos[0]]; pos[0] += 1; return t
    def expect(v):
        t = nxt()
        if t[1] != v: raise ValueError(f'expected {v}, got {t}')
    rules = {}
    def choice():
        l = seq()
        items = [l]
        while peek() == ('op', '|'):
            nxt(); items.append(seq())
        return items[0] if len(items) == 1 else ('choice', items)
    def seq():
        items = [prefix()]
        while peek() == ('op', '~'):
            nxt(); items.append(prefix())
        return items[0] if len(items) == 1 else ('seq', items)
    def prefix():
        if peek() == ('op', '!'): nxt(); return ('not', prefix())
        if peek() == ('op', '&'): nxt(); return ('and', prefix())
        return postfix()
    def postfix():
        e = atom()
        while peek()[0] == 'op' and peek()[1] in '*+?':
            o = nxt()[1]
            e = ({'*': 'star', '+': 'plus', '?': 'opt'}[o], e)
        return e
    def atom():
        t = nxt()
        if t[0] == 'str': return ('lit', t[1])
        if t[0] == 'chr':
            if peek() == ('op', '..'):
                nxt(); hi = nxt(); return ('range', t[1], hi[1])
            return ('lit', t[1])
        if t[0] == 'id': return ('ref', t[1])
        if t == ('op', '('):
            e = choice(); expect(')'); return e
        raise ValueError(f'atom? {t}')
    while pos[0] < len(toks):
        name = nxt()[1]; expect('=')
        mod = ''
        if (peek()[0] == 'op' and peek()[1] in '@$!') or peek() == ('id', '_'):
            mod = nxt()[1]
        expect('{'); e = choice(); expect('}')
        rules[name] = Rule(name, mod, e)
    return rules


# ------------------------------------------------------------------ symbolic matcher
class Matcher:
    def __init__(self, rules, N, name='c'):
        self.rules, self.N = rules, N
        self.c = [z3.BitVec(f'{name}{i}', 32) for i in range(N)]
        self.L = z3.Int(f'{name}_len')
        self.memo = {}
        self.base = [self.L >= 0, self.L <= N] + [z3.And(z3.ULE(x, 0x10FFFF), z3.Or(z3.ULT(x, 0xD800), z3.UGT(x, 0xDFFF))) for x in self.c]
        self.depth = 0

    def has(self, i):
        return self.L > i if i < self.N else z3.BoolVal(False)

    def ch(self, i, pred):
        """single char at i satisfying pred(BV) -> {i+1: cond}"""
        if i >= self.N: return {}
        return {i + 1: z3.And(self.has(i), pred(self.c[i]))}

    BUILTIN = {
        'ANY': lambda x: z3.BoolVal(True),
        'ASCII_DIGIT': lambda x: z3.And(z3.UGE(x, 48), z3.ULE(x, 57)),
        'ASCII_ALPHA': lambda x: z3.Or(z3.And(z3.UGE(x, 65), z3.ULE(x, 90)), z3.And(z3.UGE(x, 97), z3.ULE(x, 122))),
        'ASCII_ALPHANUMERIC': lambda x: z3.Or(z3.And(z3.UGE(x, 48), z3.ULE(x, 57)), z3.And(z3.UGE(x, 65), z3.ULE(x, 90)), z3.And(z3.UGE(x, 97), z3.ULE(x, 122))),
        # Unicode White_Space property (pest's WHITE_SPACE built-in)
        'WHITE_SPACE': lambda x: z3.Or(*[z3.And(z3.UGE(x, lo), z3.ULE(x, hi)) for lo, hi in ((0x09, 0x0D), (0x20, 0x20), (0x85, 0x85), (0xA0, 0xA0), (0x1680, 0x1680), (0x2000, 0x200A), (0x2028, 0x2029), (0x202F, 0x202F), (0x205F, 0x205F), (0x3000, 0x3000))]),
        'ASCII_HEX_DIGIT': lambda x: z3.Or(z3.And(z3.UGE(x, 48), z3.ULE(x, 57)), z3.And(z3.UGE(x, 65), z3.ULE(x, 70)), z3.And(z3.UGE(x, 97), z3.ULE(x, 102))),
        'ASCII_ALPHA_LOWER': lambda x: z3.And(z3.UGE(x, 97), z3.ULE(x, 122)),
        'ASCII_ALPHA_UPPER': lambda x: z3.And(z3.UGE(x, 65), z3.ULE(x, 90)),
        'ASCII_NONZERO_DIGIT': lambda x: z3.And(z3.UGE(x, 49), z3.ULE(x, 57)),
    }

    def fail(self, res):
        return z3.Not(z3.Or(*res.values())) if res else z3.BoolVal(True)

    def simp(self, res):
        out = {}
        for j, c in res.items():
            c = z3.simplify(c)
            if not z3.is_false(c): out[j] = c
        return out

    def skip(self, i):
        """implicit whitespace: WHITESPACE* (atomic)"""
        if 'WHITESPACE' not in self.rules: return {i: z3.BoolVal(True)}
        return self.match(('star', ('ref', 'WHITESPACE')), i, True)

    def match(self, e, i, atomic):
        key = (id(e) if e[0] != 'ref' else e[1], e[0], i, atomic)
        if e[0] == 'ref': key = ('ref', e[1], i, atomic)
        r = self.memo.get(key)
        if r is None:
            r = self.simp(self._match(e, i, atomic))
            self.memo[key] = r
        return r

    def then(self, res, f):
        """sequence composition: for each end j of res continue with f(j)"""
        out = {}
        for j, cj in res.items():
            for k, ck in f(j).items():
                c = z3.And(cj, ck)
                out[k] = z3.Or(out[k], c) if k in out else c
        return out

    def _match(self, e, i, atomic):
        k = e[0]
        if k == 'lit':
            s = e[1]
            if i + len(s) > self.N: return {}
            if not s: return {i: z3.BoolVal(True)}
            return {i + len(s): z3.And(self.has(i + len(s) - 1), *[self.c[i + n] == ord(ch) for n, ch in enumerate(s)])}
        if k == 'range':
            lo, hi = ord(e[1]), ord(e[2])
            return self.ch(i, lambda x: z3.And(z3.UGE(x, lo), z3.ULE(x, hi)))
        if k == 'ref':
            n = e[1]
            if n == 'SOI': return {i: z3.BoolVal(i == 0)}
            if n == 'EOI': return {i: self.L == i}
            if n == 'NEWLINE':
                return self.match(('choice', [('lit', '\n'), ('lit', '\r\n'), ('lit', '\r')]), i, True)
            if n in self.BUILTIN: return self.ch(i, self.BUILTIN[n])
            r = self.rules[n]
            a = atomic
            if r.mod in ('@', '$'): a = True
            elif r.mod == '!': a = False
            return self.match(r.expr, i, a)
        if k == 'seq':
            res = {i: z3.BoolVal(True)}
            for n, item in enumerate(e[1]):
                if n and not atomic:
                    res = self.then(res, lambda j: self.skip(j))
                res = self.simp(self.then(res, lambda j, item=item: self.match(item, j, atomic)))
            return res
        if k == 'choice':
            out = {}; nofail = z3.BoolVal(True)
            for alt in e[1]:
                r = self.match(alt, i, atomic)
                for j, c in r.items():
                    c2 = z3.And(nofail, c)
                    out[j] = z3.Or(out[j], c2) if j in out else c2
                nofail = z3.And(nofail, self.fail(r))
            return out
        if k == 'opt':
            r = self.match(e[1], i, atomic)
            out = dict(r)
            out[i] = z3.Or(out[i], self.fail(r)) if i in out else self.fail(r)
            return out
        if k in ('star', 'plus'):
            # greedy: iterate while the body matches (a body that matches without progress stops the loop, as pest does)
            def body(j, first):
                if first or atomic: return self.match(e[1], j, atomic)
                return self.then(self.skip(j), lambda q: self.match(e[1], q, atomic))
            out = {}
            frontier = {i: z3.BoolVal(True)}
            first = True
            for _ in range(self.N + 2):
                nxt_f = {}
                for j, cj in frontier.items():
                    r = body(j, first)
                    stop = z3.And(cj, self.fail(r))
                    for q, cq in r.items():
                        if q == j:      # no progress: pest stops repeating
                            stop = z3.Or(stop, z3.And(cj, cq)); continue
                        c = z3.And(cj, cq)
                        nxt_f[q] = z3.Or(nxt_f[q], c) if q in nxt_f else c
                    if not (first and k == 'plus'):
                        out[j] = z3.Or(out[j], stop) if j in out else stop
                frontier = self.simp(nxt_f); first = False
                if not frontier: break
            return out
        if k == 'not':
            return {i: self.fail(self.match(e[1], i, atomic))}
        if k == 'and':
            r = self.match(e[1], i, atomic)
            return {i: z3.Or(*r.values()) if r else z3.BoolVal(False)}
        raise ValueError(k)

    def rule(self, name, i=0):
        return self.match(('ref', name), i, False)


def concrete_match(rules, name, s):
    """run the same matcher on a concrete string (translator validation): returns end position or None"""
    m = Matcher(rules, max(len(s), 1), 'k')
    sol = z3.Solver()
    sol.add(m.L == len(s))
    for i, ch in enumerate(s): sol.add(m.c[i] == ord(ch))
    for i in range(len(s), m.N): sol.add(m.c[i] == 0)
    res = m.rule(name)
    for j, c in res.items():
        sol.push(); sol.add(c)
        if sol.check() == z3.sat:
            sol.pop(); return j
        sol.pop()
    return None
